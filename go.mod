module verif

go 1.26
