package goat

// Added to package goat through the build overlay only (never present in
// /repo): exports the two unexported pure functions whose whole input grammar
// is enumerated (C08: the timeout parser; C12: the method-name parser).

import "time"

func VerifParseGrpcTimeout(s string) (time.Duration, bool) { return parseGrpcTimeout(s) }

func VerifParseRawMethod(s string) (string, string, error) { return parseRawMethod(s) }
