package goat

// Added to package goat through the build overlay only (never present in
// /repo): exports unexported pure functions for bounded-exhaustive input
// enumeration.

import (
	"context"
	"time"

	"google.golang.org/grpc"

	"github.com/avos-io/goat/gen/goatorepo"
)

func VerifParseGrpcTimeout(s string) (time.Duration, bool) { return parseGrpcTimeout(s) }

func VerifParseRawMethod(s string) (string, string, error) { return parseRawMethod(s) }

func VerifHeadersFromContext(ctx context.Context) []*goatorepo.KeyValue {
	return headersFromContext(ctx)
}

// VerifUnaryInterceptor / VerifStreamInterceptor expose what a ServerOption installed.
func VerifUnaryInterceptor(s *Server) grpc.UnaryServerInterceptor  { return s.unaryInterceptor }
func VerifStreamInterceptor(s *Server) grpc.StreamServerInterceptor { return s.streamInterceptor }
