// Files below this directory are NOT built as part of module "verif".
// They are mapped by `go build -overlay` into github.com/avos-io/goat
// (vrt/* = runtime, vh/* = harness) — see DESIGN.md §3.1.
module overlaysrc

go 1.21
