// Package vatomic stands in for "sync/atomic" in instrumented sources: every
// operation is an always-enabled scheduling point followed by the plain
// operation (only one managed thread runs at a time).
package vatomic

import (
	"unsafe"

	"github.com/avos-io/goat/vrt/vsched"
)

func AddUint64(p *uint64, d uint64) uint64 {
	vsched.YieldSkip("atomic", 1)
	vsched.AtomicSyncW(unsafe.Pointer(p))
	*p += d
	return *p
}
func AddInt64(p *int64, d int64) int64 {
	vsched.YieldSkip("atomic", 1)
	vsched.AtomicSyncW(unsafe.Pointer(p))
	*p += d
	return *p
}
func AddUint32(p *uint32, d uint32) uint32 {
	vsched.YieldSkip("atomic", 1)
	vsched.AtomicSyncW(unsafe.Pointer(p))
	*p += d
	return *p
}
func AddInt32(p *int32, d int32) int32 {
	vsched.YieldSkip("atomic", 1)
	vsched.AtomicSyncW(unsafe.Pointer(p))
	*p += d
	return *p
}
func LoadUint64(p *uint64) uint64 {
	vsched.YieldSkip("atomic", 1)
	vsched.AtomicSyncR(unsafe.Pointer(p))
	return *p
}
func LoadInt64(p *int64) int64 {
	vsched.YieldSkip("atomic", 1)
	vsched.AtomicSyncR(unsafe.Pointer(p))
	return *p
}
func LoadUint32(p *uint32) uint32 {
	vsched.YieldSkip("atomic", 1)
	vsched.AtomicSyncR(unsafe.Pointer(p))
	return *p
}
func LoadInt32(p *int32) int32 {
	vsched.YieldSkip("atomic", 1)
	vsched.AtomicSyncR(unsafe.Pointer(p))
	return *p
}
func StoreUint64(p *uint64, v uint64) {
	vsched.YieldSkip("atomic", 1)
	vsched.AtomicSyncW(unsafe.Pointer(p))
	*p = v
}
func StoreInt64(p *int64, v int64) {
	vsched.YieldSkip("atomic", 1)
	vsched.AtomicSyncW(unsafe.Pointer(p))
	*p = v
}
func StoreUint32(p *uint32, v uint32) {
	vsched.YieldSkip("atomic", 1)
	vsched.AtomicSyncW(unsafe.Pointer(p))
	*p = v
}
func StoreInt32(p *int32, v int32) {
	vsched.YieldSkip("atomic", 1)
	vsched.AtomicSyncW(unsafe.Pointer(p))
	*p = v
}
func CompareAndSwapUint64(p *uint64, o, n uint64) bool {
	vsched.YieldSkip("atomic", 1)
	vsched.AtomicSyncW(unsafe.Pointer(p))
	if *p == o {
		*p = n
		return true
	}
	return false
}
func CompareAndSwapInt64(p *int64, o, n int64) bool {
	vsched.YieldSkip("atomic", 1)
	vsched.AtomicSyncW(unsafe.Pointer(p))
	if *p == o {
		*p = n
		return true
	}
	return false
}
func CompareAndSwapInt32(p *int32, o, n int32) bool {
	vsched.YieldSkip("atomic", 1)
	vsched.AtomicSyncW(unsafe.Pointer(p))
	if *p == o {
		*p = n
		return true
	}
	return false
}
func CompareAndSwapUint32(p *uint32, o, n uint32) bool {
	vsched.YieldSkip("atomic", 1)
	vsched.AtomicSyncW(unsafe.Pointer(p))
	if *p == o {
		*p = n
		return true
	}
	return false
}

type Int64 struct{ v int64 }

func (x *Int64) Load() int64 {
	vsched.YieldSkip("atomic", 1)
	vsched.AtomicSync(unsafe.Pointer(x))
	return x.v
}
func (x *Int64) Store(v int64) {
	vsched.YieldSkip("atomic", 1)
	vsched.AtomicSync(unsafe.Pointer(x))
	x.v = v
}
func (x *Int64) Add(d int64) int64 {
	vsched.YieldSkip("atomic", 1)
	vsched.AtomicSync(unsafe.Pointer(x))
	x.v += d
	return x.v
}
func (x *Int64) Swap(n int64) int64 {
	vsched.YieldSkip("atomic", 1)
	vsched.AtomicSync(unsafe.Pointer(x))
	o := x.v
	x.v = n
	return o
}
func (x *Int64) CompareAndSwap(o, n int64) bool {
	vsched.YieldSkip("atomic", 1)
	vsched.AtomicSync(unsafe.Pointer(x))
	if x.v == o {
		x.v = n
		return true
	}
	return false
}

type Uint64 struct{ v uint64 }

func (x *Uint64) Load() uint64 {
	vsched.YieldSkip("atomic", 1)
	vsched.AtomicSync(unsafe.Pointer(x))
	return x.v
}
func (x *Uint64) Store(v uint64) {
	vsched.YieldSkip("atomic", 1)
	vsched.AtomicSync(unsafe.Pointer(x))
	x.v = v
}
func (x *Uint64) Add(d uint64) uint64 {
	vsched.YieldSkip("atomic", 1)
	vsched.AtomicSync(unsafe.Pointer(x))
	x.v += d
	return x.v
}

type Int32 struct{ v int32 }

func (x *Int32) Load() int32 {
	vsched.YieldSkip("atomic", 1)
	vsched.AtomicSync(unsafe.Pointer(x))
	return x.v
}
func (x *Int32) Store(v int32) {
	vsched.YieldSkip("atomic", 1)
	vsched.AtomicSync(unsafe.Pointer(x))
	x.v = v
}
func (x *Int32) Add(d int32) int32 {
	vsched.YieldSkip("atomic", 1)
	vsched.AtomicSync(unsafe.Pointer(x))
	x.v += d
	return x.v
}

type Uint32 struct{ v uint32 }

func (x *Uint32) Load() uint32 {
	vsched.YieldSkip("atomic", 1)
	vsched.AtomicSync(unsafe.Pointer(x))
	return x.v
}
func (x *Uint32) Store(v uint32) {
	vsched.YieldSkip("atomic", 1)
	vsched.AtomicSync(unsafe.Pointer(x))
	x.v = v
}
func (x *Uint32) Add(d uint32) uint32 {
	vsched.YieldSkip("atomic", 1)
	vsched.AtomicSync(unsafe.Pointer(x))
	x.v += d
	return x.v
}

type Bool struct{ v bool }

func (x *Bool) Load() bool {
	vsched.YieldSkip("atomic", 1)
	vsched.AtomicSync(unsafe.Pointer(x))
	return x.v
}
func (x *Bool) Store(v bool) {
	vsched.YieldSkip("atomic", 1)
	vsched.AtomicSync(unsafe.Pointer(x))
	x.v = v
}
func (x *Bool) Swap(n bool) bool {
	vsched.YieldSkip("atomic", 1)
	vsched.AtomicSync(unsafe.Pointer(x))
	o := x.v
	x.v = n
	return o
}
func (x *Bool) CompareAndSwap(o, n bool) bool {
	vsched.YieldSkip("atomic", 1)
	vsched.AtomicSync(unsafe.Pointer(x))
	if x.v == o {
		x.v = n
		return true
	}
	return false
}

type Value struct{ v any }

func (x *Value) Load() any {
	vsched.YieldSkip("atomic", 1)
	vsched.AtomicSync(unsafe.Pointer(x))
	return x.v
}
func (x *Value) Store(v any) {
	vsched.YieldSkip("atomic", 1)
	vsched.AtomicSync(unsafe.Pointer(x))
	x.v = v
}

type Pointer[T any] struct{ p *T }

func (x *Pointer[T]) Load() *T {
	vsched.YieldSkip("atomic", 1)
	vsched.AtomicSync(unsafe.Pointer(x))
	return x.p
}
func (x *Pointer[T]) Store(p *T) {
	vsched.YieldSkip("atomic", 1)
	vsched.AtomicSync(unsafe.Pointer(x))
	x.p = p
}

// ---- the rest of sync/atomic's surface (so that any use of it in goat's code builds and is scheduled) ----

func (x *Pointer[T]) Swap(p *T) *T {
	vsched.YieldSkip("atomic", 1)
	vsched.AtomicSync(unsafe.Pointer(x))
	o := x.p
	x.p = p
	return o
}
func (x *Pointer[T]) CompareAndSwap(o, n *T) bool {
	vsched.YieldSkip("atomic", 1)
	vsched.AtomicSync(unsafe.Pointer(x))
	if x.p == o {
		x.p = n
		return true
	}
	return false
}

func (x *Value) Swap(n any) any {
	vsched.YieldSkip("atomic", 1)
	vsched.AtomicSync(unsafe.Pointer(x))
	o := x.v
	x.v = n
	return o
}
func (x *Value) CompareAndSwap(o, n any) bool {
	vsched.YieldSkip("atomic", 1)
	vsched.AtomicSync(unsafe.Pointer(x))
	if x.v == o {
		x.v = n
		return true
	}
	return false
}

func (x *Uint64) Swap(n uint64) uint64 {
	vsched.YieldSkip("atomic", 1)
	vsched.AtomicSync(unsafe.Pointer(x))
	o := x.v
	x.v = n
	return o
}
func (x *Uint64) CompareAndSwap(o, n uint64) bool {
	vsched.YieldSkip("atomic", 1)
	vsched.AtomicSync(unsafe.Pointer(x))
	if x.v == o {
		x.v = n
		return true
	}
	return false
}
func (x *Int32) Swap(n int32) int32 {
	vsched.YieldSkip("atomic", 1)
	vsched.AtomicSync(unsafe.Pointer(x))
	o := x.v
	x.v = n
	return o
}
func (x *Int32) CompareAndSwap(o, n int32) bool {
	vsched.YieldSkip("atomic", 1)
	vsched.AtomicSync(unsafe.Pointer(x))
	if x.v == o {
		x.v = n
		return true
	}
	return false
}
func (x *Uint32) Swap(n uint32) uint32 {
	vsched.YieldSkip("atomic", 1)
	vsched.AtomicSync(unsafe.Pointer(x))
	o := x.v
	x.v = n
	return o
}
func (x *Uint32) CompareAndSwap(o, n uint32) bool {
	vsched.YieldSkip("atomic", 1)
	vsched.AtomicSync(unsafe.Pointer(x))
	if x.v == o {
		x.v = n
		return true
	}
	return false
}

func SwapUint64(p *uint64, n uint64) uint64 {
	vsched.YieldSkip("atomic", 1)
	vsched.AtomicSyncW(unsafe.Pointer(p))
	o := *p
	*p = n
	return o
}
func SwapInt64(p *int64, n int64) int64 {
	vsched.YieldSkip("atomic", 1)
	vsched.AtomicSyncW(unsafe.Pointer(p))
	o := *p
	*p = n
	return o
}
func SwapUint32(p *uint32, n uint32) uint32 {
	vsched.YieldSkip("atomic", 1)
	vsched.AtomicSyncW(unsafe.Pointer(p))
	o := *p
	*p = n
	return o
}
func SwapInt32(p *int32, n int32) int32 {
	vsched.YieldSkip("atomic", 1)
	vsched.AtomicSyncW(unsafe.Pointer(p))
	o := *p
	*p = n
	return o
}
func LoadPointer(p *unsafe.Pointer) unsafe.Pointer {
	vsched.YieldSkip("atomic", 1)
	vsched.AtomicSyncR(unsafe.Pointer(p))
	return *p
}
func StorePointer(p *unsafe.Pointer, v unsafe.Pointer) {
	vsched.YieldSkip("atomic", 1)
	vsched.AtomicSyncW(unsafe.Pointer(p))
	*p = v
}
