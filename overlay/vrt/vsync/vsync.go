// Package vsync stands in for "sync" in instrumented sources.
package vsync

import (
	"sync"

	"github.com/avos-io/goat/vrt/vsched"
)

type (
	Mutex     = vsched.Mutex
	RWMutex   = vsched.RWMutex
	WaitGroup = vsched.WaitGroup
	Once      = vsched.Once
	Locker    = sync.Locker
	Pool      = sync.Pool
	Map       = sync.Map
)
