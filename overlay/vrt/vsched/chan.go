package vsched

import (
	"os"
	"sync"
	"unsafe"
)

func chanKey[T any](ch chan T) unsafe.Pointer { return *(*unsafe.Pointer)(unsafe.Pointer(&ch)) }

// RecvCase describes `case … <-ch`.
func RecvCase[T any](ch <-chan T) Case {
	key := *(*unsafe.Pointer)(unsafe.Pointer(&ch))
	if key == nil {
		return Case{}
	}
	return Case{
		key:  key,
		capn: cap(ch),
		ref:  ch,
		lenf: func() int { return len(ch) },
		tryRecv: func() (any, bool, bool) {
			select {
			case v, ok := <-ch:
				return v, ok, true
			default:
				return nil, false, false
			}
		},
	}
}

// SendCase describes `case ch <- v`.
func SendCase[T any](ch chan<- T, v T) Case {
	key := *(*unsafe.Pointer)(unsafe.Pointer(&ch))
	if key == nil {
		return Case{send: true}
	}
	return Case{
		send: true,
		key:  key,
		capn: cap(ch),
		ref:  ch,
		val:  v,
		lenf: func() int { return len(ch) },
		doSend: func(x any) bool {
			var tv T
			if x != nil {
				tv = x.(T)
			}
			select {
			case ch <- tv:
				return true
			default:
				return false
			}
		},
	}
}

// Select blocks until one of the cases can proceed (or takes the default) and
// returns its index (-1 for default).  The operation itself has been performed
// when Select returns; Received fetches a received value.
func Select(site string, hasDefault bool, cases ...Case) int {
	e := ex
	if e == nil {
		engineFail("Select outside an execution at %s", site)
	}
	if e.inKill() {
		return -2
	}
	t := e.cur
	t.cases = cases
	t.hasDefault = hasDefault
	e.point(opSelect, "", site)
	if t.rpanic != nil {
		p := t.rpanic
		t.rpanic = nil
		panic(p)
	}
	if t.rcase == -1 {
		e.defaultTaken(site)
	}
	return t.rcase
}

// Received returns the value obtained by the receive case Select just chose.
func Received[T any](ch <-chan T) (T, bool) {
	var zero T
	e := ex
	if e == nil || e.killing {
		return zero, false
	}
	t := e.cur
	v, ok := t.rval, t.rok
	t.rval = nil
	if v == nil {
		return zero, ok
	}
	return v.(T), ok
}

// Send is `ch <- v`.
func Send[T any](site string, ch chan<- T, v T) {
	e := ex
	if e == nil {
		ch <- v
		return
	}
	if e.inKill() {
		return
	}
	Select(site, false, SendCase(ch, v))
}

// Recv is `<-ch`.
func Recv[T any](site string, ch <-chan T) T {
	e := ex
	if e == nil {
		return <-ch
	}
	var zero T
	if e.inKill() {
		return zero
	}
	Select(site, false, RecvCase(ch))
	v, _ := Received(ch)
	return v
}

// Recv2 is `v, ok := <-ch`.
func Recv2[T any](site string, ch <-chan T) (T, bool) {
	e := ex
	if e == nil {
		v, ok := <-ch
		return v, ok
	}
	var zero T
	if e.inKill() {
		return zero, false
	}
	Select(site, false, RecvCase(ch))
	return Received(ch)
}

// Close is `close(ch)`.
func Close[T any](site string, ch chan<- T) {
	e := ex
	if e == nil {
		close(ch)
		return
	}
	if e.inKill() {
		return
	}
	e.point(opYield, "close", site)
	key := *(*unsafe.Pointer)(unsafe.Pointer(&ch))
	if key == nil {
		panic("close of nil channel")
	}
	st := e.chans[key]
	if st == nil {
		st = &chanState{ref: ch}
		e.chans[key] = st
	}
	if st.closed {
		panic("close of closed channel")
	}
	st.closed = true
	if e.race != nil {
		e.race.release(e.cur, key)
	}
	close(ch)
}

// ---------------------------------------------------------------- sync

// Mutex replaces sync.Mutex.
// Outside an execution (raw scenarios on real sockets) it is a real mutex.
type Mutex struct {
	locked bool
	real   sync.Mutex
}

func (m *Mutex) Lock() {
	e := ex
	if e == nil {
		m.real.Lock()
		return
	}
	if e.inKill() {
		return
	}
	t := e.cur
	t.mu = m
	e.point(opLock, "", takeSite(t, 3))
}

func (m *Mutex) TryLock() bool {
	e := ex
	if e == nil || e.inKill() {
		return true
	}
	e.point(opYield, "trylock", callerSite(2))
	if m.locked {
		return false
	}
	m.locked = true
	if e.race != nil {
		e.race.acquire(e.cur, m)
	}
	return true
}

func (m *Mutex) Unlock() {
	e := ex
	if e == nil {
		m.real.Unlock()
		return
	}
	if e.killing {
		return
	}
	if !m.locked {
		panic("sync: unlock of unlocked mutex")
	}
	if e.race != nil {
		e.race.release(e.cur, m)
	}
	m.locked = false
	if unlockPoint || e.cfg.UnlockPoints {
		e.point(opYield, "unlocked", callerSite(2))
	}
}

// unlockPoint (VUNLOCKPOINT=1, for experiments) / Config.UnlockPoints (per scenario): a
// scheduling point right after every Mutex.Unlock, so that a preemption between an Unlock and the
// plain statement that follows it is explored. Off by default: it multiplies the tree by 1.5-3.
var unlockPoint = os.Getenv("VUNLOCKPOINT") != ""

// RWMutex replaces sync.RWMutex.
type RWMutex struct {
	w bool
	r int
}

func (m *RWMutex) Lock() {
	e := ex
	if e == nil || e.inKill() {
		return
	}
	t := e.cur
	t.rw = m
	e.point(opWLock, "", takeSite(t, 3))
}

// TryLock / TryRLock: a scheduling point, then the attempt.
func (m *RWMutex) TryLock() bool {
	e := ex
	if e == nil || e.inKill() {
		return true
	}
	e.point(opYield, "trylock", callerSite(2))
	if m.w || m.r > 0 {
		return false
	}
	m.w = true
	if e.race != nil {
		e.race.acquire(e.cur, m)
	}
	return true
}

func (m *RWMutex) TryRLock() bool {
	e := ex
	if e == nil || e.inKill() {
		return true
	}
	e.point(opYield, "tryrlock", callerSite(2))
	if m.w {
		return false
	}
	m.r++
	if e.race != nil {
		e.race.acquire(e.cur, m)
	}
	return true
}

func (m *RWMutex) Unlock() {
	if ex == nil || ex.killing {
		return
	}
	if ex.race != nil {
		ex.race.release(ex.cur, m)
	}
	m.w = false
	if unlockPoint || ex.cfg.UnlockPoints {
		ex.point(opYield, "unlocked", callerSite(2))
	}
}

func (m *RWMutex) RLock() {
	e := ex
	if e == nil || e.inKill() {
		return
	}
	t := e.cur
	t.rw = m
	e.point(opRLock, "", takeSite(t, 3))
}

func (m *RWMutex) RUnlock() {
	if ex == nil || ex.killing {
		return
	}
	if ex.race != nil {
		ex.race.release(ex.cur, m)
	}
	m.r--
}

// WaitGroup replaces sync.WaitGroup.
type WaitGroup struct {
	n    int
	real sync.WaitGroup
}

func (w *WaitGroup) Add(d int) {
	if ex == nil {
		w.real.Add(d)
		return
	}
	if d < 0 && ex != nil && ex.race != nil && !ex.killing {
		ex.race.release(ex.cur, w)
	}
	w.n += d
	if w.n < 0 && ex != nil && !ex.killing {
		panic("sync: negative WaitGroup counter")
	}
}

func (w *WaitGroup) Done() { w.Add(-1) }

func (w *WaitGroup) Wait() {
	e := ex
	if e == nil {
		w.real.Wait()
		return
	}
	if e.inKill() {
		return
	}
	t := e.cur
	t.wg = w
	e.point(opWait, "", takeSite(t, 3))
}

// Once replaces sync.Once (no scheduling point: callers are serialised anyway
// and f runs to completion or to its own scheduling points under the once
// "lock", modelled with a Mutex).
type Once struct {
	m    Mutex
	done bool
}

func (o *Once) Do(f func()) {
	o.m.Lock()
	defer o.m.Unlock()
	if !o.done {
		defer func() { o.done = true }()
		f()
	}
}

// Killed is the panic value raised when a select is reached by deferred code
// during tear-down (its result is meaningless then).
func Killed() any { return killedPanic{} }

type killedPanic struct{}

func takeSite(t *Thread, skip int) string {
	if s := t.nextSite; s != "" {
		t.nextSite = ""
		return s
	}
	return callerSite(skip)
}
