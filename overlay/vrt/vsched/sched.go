// Package vsched is the cooperative scheduler under which the rewritten goat
// sources (and the instrumented harness) run.  Exactly one managed goroutine
// ("thread") runs at a time; every synchronisation operation is a scheduling
// point at which the explorer's choice vector decides who runs next.
//
// One execution runs at a time per process (global state), inside one
// testing/synctest bubble, so time is fake and only moves when the scheduler
// moves it.
package vsched

import (
	"fmt"
	"runtime"
	"sort"
	"strings"
	"testing"
	"testing/synctest"
	"time"
	"unsafe"
)

type opKind uint8

const (
	opNone     opKind = iota
	opStart           // thread created, not yet started; always enabled
	opContinue        // operation already completed by a partner; always enabled
	opYield           // always-enabled point (atomic, close, cancel, ctx.Err, explicit yield)
	opLock            // enabled iff mutex free
	opRLock           // enabled iff no writer
	opWLock           // enabled iff no writer and no reader
	opWait            // enabled iff waitgroup counter is 0
	opSelect          // channel operation(s)
	opQuiesce         // root only: enabled iff nothing else is
)

var opNames = [...]string{"none", "start", "continue", "yield", "lock", "rlock", "wlock", "wait", "select", "quiesce"}

const (
	sigGo   int8 = 1
	sigKill int8 = 2
)

// Thread is a managed goroutine.
type Thread struct {
	idx  int
	id   string // canonical: parent id + "." + spawn index
	name string
	wake chan int8

	kind       opKind
	sub        string // human label of the pending op
	site       string
	mu         *Mutex
	rw         *RWMutex
	wg         *WaitGroup
	cases      []Case
	hasDefault bool
	parkSeq    uint64

	// results of the completed operation
	rcase  int
	rval   any
	rok    bool
	rpanic any

	nextSite  string
	nspawn    int
	exited    bool
	spawnSite string
}

// Case is one communication clause of a select (or a stand-alone channel op).
type Case struct {
	send    bool
	key     unsafe.Pointer // channel identity; nil for a nil channel
	capn    int
	lenf    func() int
	tryRecv func() (any, bool, bool) // non-blocking real receive: value, ok, got
	doSend  func(any) bool           // non-blocking real send; false if it would block
	val     any
	ref     any
}

type chanState struct {
	closed bool
	ref    any
}

type alt struct {
	t     *Thread // thread whose operation this is
	c     int     // case index (select) or 0; -1 = default
	p     *Thread // rendezvous partner (receiver if t sends, sender if t receives)
	pc    int
	owner *Thread // thread that keeps running after the transition
}

// Point is what the explorer needs to know about one recorded scheduling point.
type Point struct {
	N      uint8  // number of alternatives
	Chosen uint8  // alternative taken
	Costs  uint32 // bit i set: alternative i costs one deviation
	Sig    uint32 // signature for replay validation
}

// Violation is reported by scenario oracles.
type Violation struct {
	Key string // stable identity: scenario family | clause | site
	Msg string
}

// ThreadInfo describes a thread at the end of / during an execution.
type ThreadInfo struct {
	ID, Name, Op, Sub, Site, SpawnSite string
}

// Config of one execution.
type Config struct {
	Prefix       []int
	MaxSteps     int
	Verbose      bool // record a human-readable trace
	Horizon      time.Duration
	PreemptCost  bool // true: free choice at blocking points (preemption bounding)
	SelectCost   bool // true: a non-first ready case of the same thread costs one deviation
	Race         bool // keep vector clocks and check goat's field/map accesses for happens-before races
	UnlockPoints bool // a scheduling point right after every Mutex.Unlock / RWMutex.Unlock (finer preemption granularity)
}

// Result of one execution.
type Result struct {
	Points     []Point
	Choices    []int
	Violations []Violation
	Obs        []string
	Panic      string // non-empty: a managed goroutine panicked (process would have crashed)
	PanicStack string
	End        string // "done", "deadlock", "horizon", "panic"
	Parked     []ThreadInfo
	Steps      int
	Trace      []string
	Nondet     string // non-empty: replay diverged (engine error)
	Defaults   []string
	Wire       []string // wire tap rendering, set by scenarios (replay files)
	Counters   map[string]int64
}

// Exec is the state of the current execution.
type Exec struct {
	cfg       Config
	threads   []*Thread
	cur       *Thread
	root      *Thread
	pos       int
	exploring bool
	killing   bool
	killOps   int
	advancing bool
	ended     bool
	end       string
	finished  chan struct{}
	exitCh    chan struct{}
	chans     map[unsafe.Pointer]*chanState
	seq       uint64
	steps     int
	instants  []time.Time
	start     time.Time
	res       *Result
	altbuf    []alt
	obuf      []*Thread
	objseq    int
	nthreads  int
	timers    []timerEntry
	race      *raceState
}

var ex *Exec

// Active reports whether an execution is in progress (used by vctx etc.).
func Active() bool { return ex != nil && !ex.killing }

// Run executes body as the root thread of a fresh execution inside a synctest
// bubble and returns what happened.
func Run(t *testing.T, cfg Config, body func()) *Result {
	if cfg.MaxSteps == 0 {
		cfg.MaxSteps = 200000
	}
	if cfg.Horizon == 0 {
		cfg.Horizon = 1000 * time.Hour
	}
	res := &Result{}
	for _, f := range globalResets {
		f()
	}
	synctest.Test(t, func(t *testing.T) {
		e := &Exec{
			cfg:      cfg,
			finished: make(chan struct{}, 1),
			exitCh:   make(chan struct{}),
			chans:    make(map[unsafe.Pointer]*chanState),
			res:      res,
			start:    time.Now(),
		}
		ex = e
		if cfg.Race {
			e.raceInit()
		}
		root := e.newThread(nil, "root", "root")
		e.root = root
		e.cur = root
		root.kind = opNone
		go e.threadMain(root, body, true)
		<-e.finished
		// tear-down: kill every thread that has not exited, one at a time
		e.killing = true
		for i := 0; i < len(e.threads); i++ { // threads may not grow in kill mode
			th := e.threads[i]
			if th.exited {
				continue
			}
			res.Parked = append(res.Parked, th.info())
			th.wake <- sigKill
			<-e.exitCh
		}
		if e.race != nil {
			keys := make([]string, 0, len(e.race.races))
			for k := range e.race.races {
				keys = append(keys, k)
			}
			sort.Strings(keys)
			for _, k := range keys {
				res.Violations = append(res.Violations, Violation{Key: "C15/race|" + k, Msg: e.race.races[k]})
			}
		}
		res.End = e.end
		res.Steps = e.steps
		if e.end == "deadlock" {
			// the scenario's driver (root) is blocked for good and nothing else can run: its
			// oracles never ran, which must not read as a pass
			var ps []string
			for _, p := range res.Parked {
				ps = append(ps, fmt.Sprintf("%s(%s %s@%s)", p.ID, p.Name, p.Op, p.Site))
			}
			res.Violations = append(res.Violations, Violation{Key: "STUCK", Msg: "the driver is blocked forever and nothing is enabled (an operation it called never returned); parked: " + strings.Join(ps, "; ")})
		}
		ex = nil
	})
	return res
}

func (t *Thread) info() ThreadInfo {
	return ThreadInfo{ID: t.id, Name: t.name, Op: opNames[t.kind], Sub: t.sub, Site: t.site, SpawnSite: t.spawnSite}
}

func (e *Exec) newThread(parent *Thread, name, site string) *Thread {
	t := &Thread{idx: e.nthreads, name: name, wake: make(chan int8, 1), spawnSite: site}
	e.nthreads++
	if parent == nil {
		t.id = "0"
	} else {
		t.id = fmt.Sprintf("%s.%d", parent.id, parent.nspawn)
		parent.nspawn++
	}
	e.threads = append(e.threads, t)
	if e.race != nil && parent != nil {
		e.race.spawn(parent, t)
	}
	return t
}

func (e *Exec) threadMain(t *Thread, body func(), isRoot bool) {
	defer func() {
		r := recover()
		if e.killing {
			t.exited = true
			e.exitCh <- struct{}{}
			return
		}
		if r != nil {
			if _, ok := r.(engineError); ok {
				// engine errors propagate: crash the worker loudly
				panic(r)
			}
			buf := make([]byte, 16384)
			buf = buf[:runtime.Stack(buf, false)]
			e.res.Panic = fmt.Sprintf("panic(%#v)", r)
			e.res.PanicStack = trimStack(string(buf))
			t.exited = true
			t.kind = opNone
			e.finish("panic")
			return
		}
		t.exited = true
		t.kind = opNone
		if isRoot {
			e.finish("done")
			return
		}
		e.forget(t)
		// pass the baton
		e.schedule(t)
	}()
	if !isRoot {
		sig := <-t.wake
		if sig == sigKill {
			e.killingExit()
		}
	}
	body()
}

// forget drops an exited thread from the scan list (long histories spawn
// many short-lived threads).
func (e *Exec) forget(t *Thread) {
	for i, o := range e.threads {
		if o == t {
			copy(e.threads[i:], e.threads[i+1:])
			e.threads[len(e.threads)-1] = nil
			e.threads = e.threads[:len(e.threads)-1]
			return
		}
	}
}

func (e *Exec) killingExit() {
	runtime.Goexit()
}

func trimStack(s string) string {
	lines := strings.Split(s, "\n")
	var out []string
	for i := 0; i < len(lines); i++ {
		l := lines[i]
		if strings.Contains(l, "/vrt/vsched") || strings.HasPrefix(l, "panic(") || strings.Contains(l, "runtime/panic.go") || strings.Contains(l, "vsched.") {
			continue
		}
		out = append(out, l)
		if len(out) > 40 {
			break
		}
	}
	return strings.Join(out, "\n")
}

// finish ends the execution; called by the thread that holds the baton.
func (e *Exec) finish(why string) {
	if e.ended {
		return
	}
	e.ended = true
	e.end = why
	e.finished <- struct{}{}
}

type engineError string

func engineFail(format string, a ...any) {
	panic(engineError(fmt.Sprintf("ENGINE-ERROR: "+format, a...)))
}

// ---------------------------------------------------------------- scheduling

// schedule is called by the current thread t after it has published its
// pending operation (or after it exited).  It returns when t's operation has
// been performed and t has been chosen to run.
func (e *Exec) schedule(t *Thread) {
	if e.ended {
		// execution is over; park until killed
		if t.exited {
			return
		}
		e.parkForever(t)
	}
	e.seq++
	t.parkSeq = e.seq
	for {
		e.steps++
		if e.steps > e.cfg.MaxSteps {
			e.finish("horizon")
			if t.exited {
				return
			}
			e.parkForever(t)
		}
		alts := e.enabled()
		if len(alts) == 0 {
			if e.root.kind == opQuiesce {
				alts = append(alts, alt{t: e.root, owner: e.root})
			} else if e.advance() {
				continue
			} else {
				e.finish("deadlock")
				if t.exited {
					return
				}
				e.parkForever(t)
			}
		}
		choice := 0
		if len(alts) > 1 && e.exploring {
			choice = e.choose(t, alts)
		}
		a := alts[choice]
		if e.cfg.Verbose {
			e.traceStep(t, alts, choice)
		}
		e.perform(a)
		next := a.owner
		if next == t && !t.exited {
			e.cur = t
			return
		}
		e.cur = next
		next.wake <- sigGo
		if t.exited {
			return
		}
		if sig := <-t.wake; sig == sigKill {
			e.killingExit()
		}
		return
	}
}

func (e *Exec) parkForever(t *Thread) {
	for {
		if sig := <-t.wake; sig == sigKill {
			e.killingExit()
		}
	}
}

func (e *Exec) choose(t *Thread, alts []alt) int {
	n := len(alts)
	if n > 32 {
		n = 32 // more than 32 alternatives at one point: the tail is not explored (reported via Defaults? no: engine cap)
	}
	var costs uint32
	first := alts[0].owner
	curEnabled := first == t && !t.exited
	for i := 1; i < n; i++ {
		c := false
		if alts[i].t == alts[0].t && alts[i].owner == first {
			// another ready case of the same operation of the same thread
			c = e.cfg.SelectCost
		} else if curEnabled {
			c = true
		} else {
			c = !e.cfg.PreemptCost
		}
		if c {
			costs |= 1 << uint(i)
		}
	}
	sig := uint32(2166136261)
	mix := func(x uint32) { sig = (sig ^ x) * 16777619 }
	mix(uint32(t.idx))
	mix(uint32(t.kind))
	mix(uint32(n))
	for i := 0; i < n; i++ {
		mix(uint32(alts[i].t.idx)<<8 | uint32(uint8(alts[i].c)))
	}
	choice := 0
	if e.pos < len(e.cfg.Prefix) {
		choice = e.cfg.Prefix[e.pos]
		if choice < 0 || choice >= n {
			e.res.Nondet = fmt.Sprintf("replay: choice %d out of range (%d alternatives) at point %d", choice, n, e.pos)
			choice = 0
		}
	}
	e.pos++
	e.res.Points = append(e.res.Points, Point{N: uint8(n), Chosen: uint8(choice), Costs: costs, Sig: sig})
	return choice
}

// enabled lists the enabled transitions in canonical order: the current
// thread's first, then the others in creation order.
func (e *Exec) enabled() []alt {
	alts := e.altbuf[:0]
	cur := e.cur
	if cur != nil && !cur.exited {
		alts = e.threadAlts(alts, cur)
	}
	// the others in the order in which they arrived at their pending
	// operation (FIFO, like a run queue): no thread is starved by the default
	// schedule
	others := e.obuf[:0]
	for _, t := range e.threads {
		if t == cur || t.exited || t.kind == opNone {
			continue
		}
		others = append(others, t)
	}
	for i := 1; i < len(others); i++ {
		for j := i; j > 0 && others[j].parkSeq < others[j-1].parkSeq; j-- {
			others[j], others[j-1] = others[j-1], others[j]
		}
	}
	e.obuf = others
	for _, t := range others {
		alts = e.threadAlts(alts, t)
	}
	// a rendezvous in which the current thread is the receiver is listed under
	// its sender; make the current thread's transitions come first
	if cur != nil && !cur.exited {
		k := 0
		for i := range alts {
			if alts[i].owner == cur {
				if i != k {
					a := alts[i]
					copy(alts[k+1:i+1], alts[k:i])
					alts[k] = a
				}
				k++
			}
		}
	}
	e.altbuf = alts
	return alts
}

func (e *Exec) threadAlts(alts []alt, t *Thread) []alt {
	switch t.kind {
	case opStart, opContinue, opYield:
		alts = append(alts, alt{t: t, owner: t})
	case opLock:
		if !t.mu.locked {
			alts = append(alts, alt{t: t, owner: t})
		}
	case opRLock:
		if !t.rw.w {
			alts = append(alts, alt{t: t, owner: t})
		}
	case opWLock:
		if !t.rw.w && t.rw.r == 0 {
			alts = append(alts, alt{t: t, owner: t})
		}
	case opWait:
		if t.wg.n <= 0 {
			alts = append(alts, alt{t: t, owner: t})
		}
	case opSelect:
		n0 := len(alts)
		for ci := range t.cases {
			c := &t.cases[ci]
			if c.key == nil {
				continue
			}
			st := e.chanOf(c)
			if c.send {
				if st.closed {
					alts = append(alts, alt{t: t, c: ci, owner: t}) // will panic
					continue
				}
				if c.capn > 0 {
					if c.lenf() < c.capn {
						alts = append(alts, alt{t: t, c: ci, owner: t})
					}
					continue
				}
				// unbuffered: earliest pending receiver in another thread
				if p, pc := e.partner(t, c.key, false); p != nil {
					owner := t
					if p == e.cur {
						owner = p
					}
					alts = append(alts, alt{t: t, c: ci, p: p, pc: pc, owner: owner})
				}
			} else {
				if st.closed || c.lenf() > 0 || e.probeClosed(c, st) {
					alts = append(alts, alt{t: t, c: ci, owner: t})
				}
				// rendezvous with a sender is listed from the sender's side
			}
		}
		if t.hasDefault && len(alts) == n0 {
			// default is enabled iff none of the thread's own cases is ready.  A
			// pending (not yet arrived) unbuffered partner leaves both the
			// rendezvous (listed under the sender) and the default possible.
			alts = append(alts, alt{t: t, c: -1, owner: t})
		}
	}
	return alts
}

// partner finds the earliest-parked thread other than t with a pending case
// on channel key in the wanted direction.
func (e *Exec) partner(t *Thread, key unsafe.Pointer, wantSend bool) (*Thread, int) {
	var best *Thread
	bc := 0
	for _, o := range e.threads {
		if o == t || o.exited || o.kind != opSelect {
			continue
		}
		for ci := range o.cases {
			c := &o.cases[ci]
			if c.key == key && c.send == wantSend {
				if best == nil || o.parkSeq < best.parkSeq {
					best, bc = o, ci
				}
				break
			}
		}
	}
	return best, bc
}

func (e *Exec) chanOf(c *Case) *chanState {
	st := e.chans[c.key]
	if st == nil {
		st = &chanState{ref: c.ref}
		e.chans[c.key] = st
	}
	return st
}

// probeClosed detects a channel closed by uninstrumented code (ctx.Done()).
// Managed threads never really block in a send, and buffered data was ruled
// out by the caller, so a successful non-blocking receive can only mean
// "closed".
func (e *Exec) probeClosed(c *Case, st *chanState) bool {
	_, ok, got := c.tryRecv()
	if !got {
		return false
	}
	if ok {
		engineFail("real value received from channel with len 0 (timer channel or uninstrumented sender?)")
	}
	st.closed = true
	return true
}

// perform executes the chosen transition.
func (e *Exec) perform(a alt) {
	t := a.t
	switch t.kind {
	case opStart, opContinue, opYield, opQuiesce:
	case opLock:
		t.mu.locked = true
		if e.race != nil {
			e.race.acquire(t, t.mu)
		}
	case opRLock:
		t.rw.r++
		if e.race != nil {
			e.race.acquire(t, t.rw)
		}
	case opWLock:
		t.rw.w = true
		if e.race != nil {
			e.race.acquire(t, t.rw)
		}
	case opWait:
		if e.race != nil {
			e.race.acquire(t, t.wg)
		}
	case opSelect:
		t.rcase = a.c
		if a.c >= 0 {
			c := &t.cases[a.c]
			st := e.chanOf(c)
			if c.send {
				if st.closed {
					t.rpanic = "send on closed channel"
				} else if c.capn > 0 {
					if !c.doSend(c.val) {
						engineFail("buffered send would block")
					}
					if e.race != nil {
						e.race.chq[c.key] = append(e.race.chq[c.key], e.race.of(t).copyOf())
						e.race.tick(t)
					}
				} else {
					p := a.p
					if e.race != nil {
						// rendezvous: both sides learn what the other knew
						j := e.race.of(t).copyOf().join(e.race.of(p))
						e.race.vc[t] = j.copyOf()
						e.race.vc[p] = j.copyOf()
						e.race.tick(t)
						e.race.tick(p)
					}
					p.rcase = a.pc
					p.rval = c.val
					p.rok = true
					p.clearOp()
					p.kind = opContinue
				}
			} else {
				if c.lenf() > 0 {
					v, ok, got := c.tryRecv()
					if !got {
						engineFail("buffered receive would block")
					}
					t.rval, t.rok = v, ok
					if e.race != nil {
						if q := e.race.chq[c.key]; len(q) > 0 {
							e.race.vc[t] = e.race.of(t).join(q[0])
							e.race.chq[c.key] = q[1:]
						}
					}
				} else {
					t.rval, t.rok = nil, false // closed
					if e.race != nil {
						if _, ok := e.race.objs[c.key]; ok {
							e.race.acquire(t, c.key) // closed by instrumented code
						} else {
							e.race.vc[t] = e.race.of(t).join(e.race.cancel) // a context's Done channel
						}
					}
				}
			}
		}
	}
	if a.owner == t {
		t.clearOp()
		t.kind = opNone
	} else {
		// the partner (current thread, receiver) keeps running; the sender's
		// operation is complete and it becomes runnable
		t.clearOp()
		t.kind = opContinue
		a.owner.kind = opNone
	}
}

func (t *Thread) clearOp() {
	t.mu, t.rw, t.wg = nil, nil, nil
	t.cases = nil
	t.hasDefault = false
}

// advance moves the fake clock to the next registered instant.
func (e *Exec) advance() bool {
	for len(e.instants) > 0 {
		at := e.instants[0]
		e.instants = e.instants[1:]
		d := time.Until(at)
		if d < 0 {
			continue
		}
		if at.Sub(e.start) > e.cfg.Horizon {
			return false
		}
		e.advancing = true
		if d > 0 {
			time.Sleep(d)
		}
		synctest.Wait()
		e.advancing = false
		e.fireTimers()
		if e.race != nil {
			e.race.barrier(e.threads)
		}
		if e.cfg.Verbose {
			e.res.Trace = append(e.res.Trace, fmt.Sprintf("-- clock advanced to +%v", time.Since(e.start)))
		}
		return true
	}
	return false
}

type timerEntry struct {
	at time.Time
	ch chan time.Time
}

// After stands in for time.After in instrumented code: the channel receives
// the time once the scheduler has moved the fake clock to it.
func After(d time.Duration) <-chan time.Time {
	e := ex
	if e == nil || e.killing {
		return time.After(d)
	}
	ch := make(chan time.Time, 1)
	at := time.Now().Add(d)
	if d <= 0 {
		ch <- at
		return ch
	}
	e.timers = append(e.timers, timerEntry{at, ch})
	AddInstant(at)
	return ch
}

// SleepFor stands in for time.Sleep in instrumented code.
func SleepFor(site string, d time.Duration) {
	if ex == nil || ex.killing {
		return
	}
	Recv(site, After(d))
}

func (e *Exec) fireTimers() {
	now := time.Now()
	k := 0
	for _, t := range e.timers {
		if !t.at.After(now) {
			select {
			case t.ch <- t.at:
			default:
			}
			continue
		}
		e.timers[k] = t
		k++
	}
	e.timers = e.timers[:k]
}

// AddInstant registers an instant at which something may become enabled.
func AddInstant(at time.Time) {
	e := ex
	if e == nil || e.killing {
		return
	}
	i := sort.Search(len(e.instants), func(i int) bool { return !e.instants[i].Before(at) })
	if i < len(e.instants) && e.instants[i].Equal(at) {
		return
	}
	e.instants = append(e.instants, time.Time{})
	copy(e.instants[i+1:], e.instants[i:])
	e.instants[i] = at
}

func (e *Exec) traceStep(t *Thread, alts []alt, choice int) {
	a := alts[choice]
	desc := fmt.Sprintf("T%s(%s) %s", a.t.id, a.t.name, opNames[a.t.kind])
	if a.t.sub != "" {
		desc += " " + a.t.sub
	}
	if a.t.kind == opSelect {
		if a.c < 0 {
			desc += " default"
		} else if a.t.cases[a.c].send {
			desc += fmt.Sprintf(" send#%d", a.c)
		} else {
			desc += fmt.Sprintf(" recv#%d", a.c)
		}
		if a.p != nil {
			desc += fmt.Sprintf(" <-> T%s(%s)", a.p.id, a.p.name)
		}
	}
	if a.t.site != "" {
		desc += " @" + a.t.site
	}
	tag := "  "
	if len(alts) > 1 && e.exploring {
		tag = fmt.Sprintf("%d/%d", choice, len(alts))
	}
	e.res.Trace = append(e.res.Trace, fmt.Sprintf("[%s] %s", tag, desc))
}

// ---------------------------------------------------------------- thread API

// point publishes the current thread's pending op and schedules.
func (e *Exec) point(kind opKind, sub, site string) *Thread {
	t := e.cur
	t.kind = kind
	t.sub = sub
	t.site = site
	t.rpanic = nil
	e.schedule(t)
	return t
}

func (e *Exec) inKill() bool {
	if e.killing {
		e.killOps++
		if e.killOps > 100000 {
			panic("vsched: runaway deferred code during tear-down")
		}
		return true
	}
	return false
}

// Go starts f as a new managed thread.
func Go(site string, f func()) {
	e := ex
	if e == nil {
		go f()
		return
	}
	if e.inKill() {
		return
	}
	parent := e.cur
	t := e.newThread(parent, "", site)
	t.kind = opStart
	t.site = site
	e.seq++
	t.parkSeq = e.seq
	go e.threadMain(t, f, false)
	if unlockPoint || e.cfg.UnlockPoints {
		// fine-grained mode: a scheduling point right after every go statement of the code under test, so that
		// "the new goroutine runs before its parent's next plain statement" is explored (a WaitGroup.Add placed
		// after the go statement, a field filled in after it)
		e.point(opYield, "spawned", site)
	}
}

// GoNamed is Go with a name for traces (harness use).
func GoNamed(name string, f func()) {
	e := ex
	if e == nil {
		go f()
		return
	}
	if e.inKill() {
		return
	}
	t := e.newThread(e.cur, name, name)
	t.kind = opStart
	t.site = name
	e.seq++
	t.parkSeq = e.seq
	go e.threadMain(t, f, false)
}

// Yield is an always-enabled scheduling point.
func Yield(sub string) {
	e := ex
	if e == nil || e.inKill() || e.advancing {
		return
	}
	e.point(opYield, sub, callerSite(2))
}

// YieldSkip is Yield whose site is skip frames further up (runtime wrappers).
func YieldSkip(sub string, skip int) {
	e := ex
	if e == nil || e.inKill() || e.advancing {
		return
	}
	site := e.cur.nextSite
	e.cur.nextSite = ""
	if site == "" {
		site = callerSite(2 + skip)
	}
	e.point(opYield, sub, site)
}

// At records the source position of the synchronisation call that follows
// (inserted by the instrumenter before Lock/RLock/Wait statements).
func At(site string) {
	if e := ex; e != nil && !e.killing {
		e.cur.nextSite = site
	}
}

// YieldAt is Yield with a precomputed site.
func YieldAt(sub, site string) {
	e := ex
	if e == nil || e.inKill() || e.advancing {
		return
	}
	e.point(opYield, sub, site)
}

var siteCache = map[uintptr]string{}

func callerSite(skip int) string {
	var pcs [1]uintptr
	if runtime.Callers(skip+1, pcs[:]) == 0 {
		return ""
	}
	if s, ok := siteCache[pcs[0]]; ok {
		return s
	}
	fr, _ := runtime.CallersFrames(pcs[:]).Next()
	file := fr.File
	if i := strings.LastIndex(file, "/"); i >= 0 {
		file = file[i+1:]
	}
	s := fmt.Sprintf("%s:%d", file, fr.Line)
	siteCache[pcs[0]] = s
	return s
}

// ---------------------------------------------------------------- root API

// Settle runs everything that is runnable, under the default schedule and
// without recording, until nothing but the root can run.
func Settle() {
	e := ex
	was := e.exploring
	e.exploring = false
	e.point(opQuiesce, "settle", "")
	e.exploring = was
}

// Explore turns recording/exploration of scheduling points on or off.
func Explore(on bool) { ex.exploring = on }

// Exploring reports whether scheduling points are currently recorded/explored.
func Exploring() bool { return ex.exploring }

// Quiesce blocks the root until no other thread can make progress without a
// clock advance.
func Quiesce() {
	e := ex
	e.point(opQuiesce, "quiesce", "")
}

// Advance moves the clock to the next registered instant (root only, at
// quiescence) and reports whether there was one.
func Advance() bool { return ex.advance() }

// QuiesceTime is Quiesce, but lets the clock run (registered instants within
// the horizon) until nothing is left to happen.
func QuiesceTime() {
	for {
		Quiesce()
		if !ex.advance() {
			return
		}
	}
}

// Choose is an environment choice point with n alternatives, enumerated
// exhaustively by the explorer at no deviation cost (fault positions,
// arrival orders).
func Choose(n int) int {
	e := ex
	if e == nil || e.killing || n <= 1 {
		return 0
	}
	if n > 32 {
		engineFail("Choose(%d): more than 32 alternatives", n)
	}
	sig := uint32(2166136261)
	sig = (sig ^ 0xC4005E) * 16777619
	sig = (sig ^ uint32(n)) * 16777619
	choice := 0
	if e.pos < len(e.cfg.Prefix) {
		choice = e.cfg.Prefix[e.pos]
		if choice < 0 || choice >= n {
			e.res.Nondet = fmt.Sprintf("replay: environment choice %d out of range (%d) at point %d", choice, n, e.pos)
			choice = 0
		}
	}
	e.pos++
	e.res.Points = append(e.res.Points, Point{N: uint8(n), Chosen: uint8(choice), Costs: 0, Sig: sig})
	if e.cfg.Verbose {
		e.res.Trace = append(e.res.Trace, fmt.Sprintf("[%d/%d] environment choice", choice, n))
	}
	return choice
}

// Count adds to a named counter of the execution (enumeration sizes).
func Count(name string, n int64) {
	if ex == nil {
		return
	}
	if ex.res.Counters == nil {
		ex.res.Counters = map[string]int64{}
	}
	ex.res.Counters[name] += n
}

// Sleep lets fake time pass for the calling thread (everything else is
// parked, so the bubble's clock jumps), then waits for timer goroutines.
func Sleep(d time.Duration) {
	e := ex
	if e == nil || e.killing || d <= 0 {
		return
	}
	e.advancing = true
	time.Sleep(d)
	synctest.Wait()
	e.advancing = false
	e.fireTimers()
}

// Obs appends to the execution's observation log.
func Obs(format string, a ...any) {
	if ex == nil {
		return
	}
	ex.res.Obs = append(ex.res.Obs, fmt.Sprintf(format, a...))
}

// Fail reports a property violation found by a scenario oracle.
func Fail(key, format string, a ...any) {
	if ex == nil {
		return
	}
	ex.res.Violations = append(ex.res.Violations, Violation{Key: key, Msg: fmt.Sprintf(format, a...)})
}

// SetWire stores a rendering of the wire history for replay artefacts.
func SetWire(lines []string) {
	if ex != nil && ex.cfg.Verbose {
		ex.res.Wire = lines
	}
}

// Threads returns the live (not exited) threads other than the root.
func Threads() []ThreadInfo {
	var out []ThreadInfo
	for _, t := range ex.threads {
		if t.exited || t == ex.root {
			continue
		}
		out = append(out, t.info())
	}
	return out
}

// Elapsed is the fake time since the execution started.
func Elapsed() time.Duration { return time.Since(ex.start) }

// DefaultTaken is recorded whenever a select's default arm is taken.
func (e *Exec) defaultTaken(site string) {
	e.res.Defaults = append(e.res.Defaults, site)
}

// DefaultsTaken lists the source positions of select statements whose default
// arm was taken so far in this execution (a proxy's drop site shows up here).
func DefaultsTaken() []string { return ex.res.Defaults }

// NextObjID hands out small deterministic ids for harness objects.
func NextObjID() int { ex.objseq++; return ex.objseq }

// MapKeysSorted returns the keys of m in sorted order (harness loops).
func MapKeysSorted[M ~map[K]V, K comparable, V any](m M) []K {
	keys := make([]K, 0, len(m))
	for k := range m {
		keys = append(keys, k)
	}
	sort.Slice(keys, func(i, j int) bool { return lessAny(keys[i], keys[j]) })
	return keys
}

// MapKeys stands in for the iteration order of `for … range <map>` in goat's
// own code. Go leaves that order unspecified; the model offers every rotation
// of the sorted order (so every key can come first), the non-default ones at
// the cost of one deviation, while the scenario is exploring.
func MapKeys[M ~map[K]V, K comparable, V any](m M) []K {
	keys := MapKeysSorted(m)
	e := ex
	if e == nil || !e.exploring || e.killing || len(keys) < 2 {
		return keys
	}
	n := len(keys)
	if n > 8 {
		n = 8
	}
	r := chooseCosted(n)
	if r == 0 {
		return keys
	}
	return append(append([]K{}, keys[r:]...), keys[:r]...)
}

// chooseCosted is Choose with every non-default alternative costing one deviation.
func chooseCosted(n int) int {
	e := ex
	sig := uint32(2166136261)
	sig = (sig ^ 0xC057ED) * 16777619
	sig = (sig ^ uint32(n)) * 16777619
	choice := 0
	if e.pos < len(e.cfg.Prefix) {
		choice = e.cfg.Prefix[e.pos]
		if choice < 0 || choice >= n {
			e.res.Nondet = fmt.Sprintf("replay: map-order choice %d out of range (%d) at point %d", choice, n, e.pos)
			choice = 0
		}
	}
	e.pos++
	e.res.Points = append(e.res.Points, Point{N: uint8(n), Chosen: uint8(choice), Costs: (uint32(1)<<uint(n) - 1) &^ 1, Sig: sig})
	if e.cfg.Verbose {
		e.res.Trace = append(e.res.Trace, fmt.Sprintf("[%d/%d] map iteration starts at key #%d", choice, n, choice))
	}
	return choice
}

func lessAny(a, b any) bool {
	switch x := a.(type) {
	case string:
		return x < b.(string)
	case uint64:
		return x < b.(uint64)
	case int:
		return x < b.(int)
	case int64:
		return x < b.(int64)
	case uint32:
		return x < b.(uint32)
	case int32:
		return x < b.(int32)
	}
	return fmt.Sprint(a) < fmt.Sprint(b)
}
