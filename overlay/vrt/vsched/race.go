package vsched

import (
	"fmt"
	"sort"
	"unsafe"
)

// Happens-before race detection (C15).  The scheduler serialises threads, so
// the Go race detector sees nothing under it; instead the scheduler itself
// keeps vector clocks over the synchronisation operations it models, the
// instrumenter routes goat's struct-field and map accesses through R/W, and
// every explored schedule is checked for pairs of conflicting accesses that
// are not ordered by happens-before.  Extra (over-approximated) edges can only
// hide races, never invent them.

type vclock []uint32

func (a vclock) join(b vclock) vclock {
	if len(b) > len(a) {
		n := make(vclock, len(b))
		copy(n, a)
		a = n
	}
	for i, v := range b {
		if v > a[i] {
			a[i] = v
		}
	}
	return a
}

func (a vclock) copyOf() vclock { return append(vclock(nil), a...) }

func (a vclock) get(i int) uint32 {
	if i < len(a) {
		return a[i]
	}
	return 0
}

type accessRec struct {
	thread int
	clock  uint32
	site   string
}

type shadow struct {
	w     accessRec
	hasW  bool
	reads []accessRec
	aw    accessRec // last atomic store / read-modify-write of the word
	hasAW bool
}

type raceState struct {
	on     bool
	vc     map[*Thread]vclock
	objs   map[any]vclock // mutexes, waitgroups, channels (by key), atomic words
	chq    map[unsafe.Pointer][]vclock
	mem    map[unsafe.Pointer]*shadow
	cancel vclock // join of every canceller / closer of uninstrumented channels
	races  map[string]string
}

func (e *Exec) raceInit() {
	e.race = &raceState{on: true, vc: map[*Thread]vclock{}, objs: map[any]vclock{}, chq: map[unsafe.Pointer][]vclock{}, mem: map[unsafe.Pointer]*shadow{}, races: map[string]string{}}
}

func (r *raceState) of(t *Thread) vclock {
	v := r.vc[t]
	if len(v) <= t.idx {
		n := make(vclock, t.idx+1)
		copy(n, v)
		v = n
	}
	if v[t.idx] == 0 {
		v[t.idx] = 1
	}
	r.vc[t] = v
	return v
}

func (r *raceState) tick(t *Thread) {
	v := r.of(t)
	v[t.idx]++
}

// release: the thread's knowledge flows into obj.
func (r *raceState) release(t *Thread, obj any) {
	r.objs[obj] = r.objs[obj].join(r.of(t))
	r.tick(t)
}

// acquire: obj's knowledge flows into the thread.
func (r *raceState) acquire(t *Thread, obj any) {
	if o, ok := r.objs[obj]; ok {
		r.vc[t] = r.of(t).join(o)
	}
}

func (r *raceState) spawn(parent, child *Thread) {
	r.vc[child] = r.of(parent).copyOf()
	r.of(child)
	r.tick(parent)
}

// everything before happens before everything after (clock advance)
func (r *raceState) barrier(threads []*Thread) {
	var all vclock
	for _, t := range threads {
		all = all.join(r.of(t))
	}
	for _, t := range threads {
		r.vc[t] = r.of(t).join(all)
		r.tick(t)
	}
}

func (r *raceState) access(t *Thread, p unsafe.Pointer, write bool, site string) {
	vc := r.of(t)
	s := r.mem[p]
	if s == nil {
		s = &shadow{}
		r.mem[p] = s
	}
	me := accessRec{t.idx, vc[t.idx], site}
	if s.hasW && s.w.thread != t.idx && s.w.clock > vc.get(s.w.thread) {
		r.report(s.w, true, me, write)
	}
	if s.hasAW && s.aw.thread != t.idx && s.aw.clock > vc.get(s.aw.thread) {
		r.report(s.aw, true, me, write) // a plain access not ordered after an atomic write of the word
	}
	if write {
		for _, rd := range s.reads {
			if rd.thread != t.idx && rd.clock > vc.get(rd.thread) {
				r.report(rd, false, me, true)
			}
		}
		s.w, s.hasW = me, true
		s.reads = s.reads[:0]
		return
	}
	for i := range s.reads {
		if s.reads[i].thread == t.idx {
			s.reads[i] = me
			return
		}
	}
	s.reads = append(s.reads, me)
}

func (r *raceState) report(a accessRec, aw bool, b accessRec, bw bool) {
	k := func(w bool) string {
		if w {
			return "write"
		}
		return "read"
	}
	sites := []string{a.site, b.site}
	sort.Strings(sites)
	key := sites[0] + "~" + sites[1]
	if _, ok := r.races[key]; !ok {
		r.races[key] = fmt.Sprintf("unsynchronised %s at %s and %s at %s (threads %d and %d, not ordered by happens-before)", k(aw), a.site, k(bw), b.site, a.thread, b.thread)
	}
}

// R / W are what the instrumenter wraps struct-field and map accesses in.
func R[T any](p *T, site string) *T {
	if e := ex; e != nil && e.race != nil && !e.killing && !e.advancing {
		e.race.access(e.cur, unsafe.Pointer(p), false, site)
	}
	return p
}

func W[T any](p *T, site string) *T {
	if e := ex; e != nil && e.race != nil && !e.killing && !e.advancing {
		e.race.access(e.cur, unsafe.Pointer(p), true, site)
	}
	return p
}

// Races returns the races found so far in this execution (key -> description).
func Races() map[string]string {
	if ex == nil || ex.race == nil {
		return nil
	}
	return ex.race.races
}

// AtomicSync makes an atomic operation on addr a release+acquire.
func AtomicSync(addr unsafe.Pointer) {
	if e := ex; e != nil && e.race != nil && !e.killing {
		e.race.acquire(e.cur, addr)
		e.race.release(e.cur, addr)
	}
}

// AtomicSyncR / AtomicSyncW: an atomic load / an atomic store or read-modify-write of the word at addr.
// Besides being a release+acquire, the operation is an access to that word: it conflicts with PLAIN
// accesses to the same word that happens-before does not order (an atomic add outside a lock and a plain
// read inside it is a data race), never with other atomic operations.
func AtomicSyncR(addr unsafe.Pointer) {
	AtomicSync(addr)
	if e := ex; e != nil && e.race != nil && !e.killing && !e.advancing {
		e.race.atomicAccess(e.cur, addr, false)
	}
}

func AtomicSyncW(addr unsafe.Pointer) {
	AtomicSync(addr)
	if e := ex; e != nil && e.race != nil && !e.killing && !e.advancing {
		e.race.atomicAccess(e.cur, addr, true)
	}
}

func (r *raceState) atomicAccess(t *Thread, p unsafe.Pointer, write bool) {
	vc := r.of(t)
	s := r.mem[p]
	if s == nil {
		s = &shadow{}
		r.mem[p] = s
	}
	me := accessRec{t.idx, vc[t.idx], "(an atomic operation on the same word)"}
	if s.hasW && s.w.thread != t.idx && s.w.clock > vc.get(s.w.thread) {
		r.report(s.w, true, me, write) // not ordered after a plain write of the word
	}
	if !write {
		return
	}
	for _, rd := range s.reads {
		if rd.thread != t.idx && rd.clock > vc.get(rd.thread) {
			r.report(rd, false, me, true) // an atomic write not ordered after a plain read of the word
		}
	}
	s.aw, s.hasAW = me, true
}

// NoteCancel is called by vctx before a context is cancelled: whatever the
// canceller did happens before any observation of the cancellation.
func NoteCancel() {
	if e := ex; e != nil && e.race != nil && !e.killing {
		e.race.cancel = e.race.cancel.join(e.race.of(e.cur))
		e.race.tick(e.cur)
	}
}

// NoteObserveCancel is called when a thread sees a context done / an
// uninstrumented channel closed.
func NoteObserveCancel() {
	if e := ex; e != nil && e.race != nil && !e.killing {
		e.race.vc[e.cur] = e.race.of(e.cur).join(e.race.cancel)
	}
}

// RegisterGlobal is called (from generated init functions) for every package-level variable of the
// code under test: Run puts each back to the value it had after package initialisation before an
// execution starts, so executions stay independent of each other.
var globalResets []func()

func RegisterGlobal[T any](p *T) {
	init := *p
	globalResets = append(globalResets, func() { *p = init })
}
