// Package explore is the stateless explorer: deviation-bounded depth-first
// search over the scheduler's recorded choice vectors.  It runs outside the
// synctest bubbles and is not instrumented.
package explore

import (
	"crypto/sha256"
	"encoding/hex"
	"fmt"
	"sort"
	"strings"
	"testing"
	"time"

	"github.com/avos-io/goat/vrt/vsched"
)

// Scenario is one closed driver + oracle.
type Scenario struct {
	Name           string // unique, includes parameters
	Family         string // scenario family (for violation keys / reporting)
	Prop           string // property whose oracle keys ("<Prop>/…") this scenario reports; others are ignored
	Bound          int    // deviation bound to complete (0,1,2,…)
	PreemptCost    bool
	SelectCost     bool
	Deepen         int // thorough tier: keep raising the bound up to this value while the deepening slice lasts
	MaxExecs       int // cap on executions (0 = default)
	MaxSteps       int
	UnlockPoints   bool                                                         // scheduling points after every Unlock too (finer granularity, 1.5-3x the tree)
	Race           bool                                                         // happens-before race detection on goat's field/map accesses (C15)
	ExpectOutcomes []string                                                     // engine self-test: the exact set of observation logs over all executions
	ExpectRace     string                                                       // engine self-test: "race" = some execution must report a race, "norace" = none may
	Once           bool                                                         // pure enumeration inside the body: execute exactly once, no schedule search
	RawRun         func() (viol []vsched.Violation, obs []string, inputs int64) // runs outside the scheduler (real sockets): input enumeration only
	Horizon        time.Duration
	Run            func()
	// Shards > 1: this scenario is one of Shards copies that split the schedule tree between
	// them: the alternatives branching off the default execution are numbered in DFS order and
	// copy Shard explores those with number % Shards == Shard (each with its whole subtree);
	// every copy runs the default execution itself. The union of the copies is the full search.
	Shard, Shards int
}

// Sharded splits one scenario into n copies that together explore the same schedule tree
// (one worker process each).
func Sharded(sc *Scenario, n int) []*Scenario {
	if n <= 1 {
		return []*Scenario{sc}
	}
	var out []*Scenario
	for i := 0; i < n; i++ {
		c := *sc
		c.Shard, c.Shards = i, n
		c.Name = fmt.Sprintf("%s#shard=%d/%d", sc.Name, i, n)
		out = append(out, &c)
	}
	return out
}

// Found is a violation with everything needed to replay it.
type Found struct {
	Scenario string              `json:"scenario"`
	Family   string              `json:"family"`
	Key      string              `json:"key"`
	Msg      string              `json:"msg"`
	Choices  []int               `json:"choices"`
	Bound    int                 `json:"bound"`
	Trace    []string            `json:"trace,omitempty"`
	Obs      []string            `json:"obs,omitempty"`
	Parked   []vsched.ThreadInfo `json:"parked,omitempty"`
	Wire     []string            `json:"wire,omitempty"`
	Panic    string              `json:"panic,omitempty"`
	Stack    string              `json:"stack,omitempty"`
	End      string              `json:"end"`
}

// Report is the outcome of exploring one scenario.
type Report struct {
	Scenario    string           `json:"scenario"`
	Family      string           `json:"family"`
	Bound       int              `json:"bound"`      // requested
	BoundDone   int              `json:"bound_done"` // largest bound completed (-1: none)
	Executions  int              `json:"executions"`
	Nodes       int              `json:"nodes"` // distinct schedule-tree nodes visited
	Steps       int              `json:"steps"` // scheduling steps executed
	MaxPoints   int              `json:"max_points"`
	Outcomes    int              `json:"outcomes"`   // distinct observation logs
	Exhaustive  bool             `json:"exhaustive"` // bound completed without hitting a cap
	Cap         string           `json:"cap,omitempty"`
	Deepened    string           `json:"deepened,omitempty"`
	Found       []Found          `json:"found,omitempty"`
	EngineError string           `json:"engine_error,omitempty"`
	WallS       float64          `json:"wall_s"`
	SampleObs   []string         `json:"sample_obs,omitempty"`
	SampleTrace []string         `json:"sample_trace,omitempty"`
	OutcomeList []string         `json:"outcome_list,omitempty"`
	Extra       map[string]int64 `json:"extra,omitempty"`
}

type Options struct {
	Deadline    time.Time       // stop (exhaustive=false) when passed
	MaxFound    int             // stop after this many distinct violation keys (known findings not counted)
	KnownKeys   map[string]bool // keys of recorded known findings: reported, but never a reason to stop exploring
	KeepSample  bool
	DeepenSlice time.Duration
}

type explorer struct {
	t            *testing.T
	sc           *Scenario
	opt          Options
	rep          *Report
	outcomes     map[[32]byte]struct{}
	keys         map[string]bool
	stop         bool
	selfOutcomes map[string]bool
	selfRace     bool
	maxExecs     int
	bound        int
}

func cfgOf(sc *Scenario, prefix []int, verbose bool) vsched.Config {
	return vsched.Config{Prefix: prefix, MaxSteps: sc.MaxSteps, Verbose: verbose, Horizon: sc.Horizon,
		PreemptCost: sc.PreemptCost, SelectCost: sc.SelectCost, Race: sc.Race, UnlockPoints: sc.UnlockPoints}
}

// Explore runs the scenario under every schedule within its bound.
func Explore(t *testing.T, sc *Scenario, opt Options) *Report {
	start := time.Now()
	rep := &Report{Scenario: sc.Name, Family: sc.Family, Bound: sc.Bound, BoundDone: -1}
	x := &explorer{t: t, sc: sc, opt: opt, rep: rep, outcomes: map[[32]byte]struct{}{}, keys: map[string]bool{}}
	x.maxExecs = sc.MaxExecs
	if x.maxExecs == 0 {
		x.maxExecs = 2000000
	}
	if opt.MaxFound == 0 {
		x.opt.MaxFound = 3
	}
	if sc.RawRun != nil {
		viol, obs, inputs := sc.RawRun()
		rep.Executions, rep.Steps, rep.Nodes, rep.BoundDone = 1, 1, 1, 0
		rep.SampleObs = obs
		rep.Outcomes = 1
		rep.Extra = map[string]int64{"inputs": inputs}
		for _, v := range viol {
			if !x.keys[v.Key] {
				x.keys[v.Key] = true
				rep.Found = append(rep.Found, Found{Scenario: sc.Name, Family: sc.Family, Key: v.Key, Msg: v.Msg, End: "raw", Obs: obs})
			}
		}
		rep.Exhaustive = true
		rep.WallS = time.Since(start).Seconds()
		return rep
	}
	if sc.Once {
		res := vsched.Run(t, cfgOf(sc, nil, false), sc.Run)
		x.rep.Executions, x.rep.Steps, x.rep.Nodes = 1, res.Steps+1, 1
		x.onceCheck(res)
		rep.SampleObs = res.Obs
		rep.BoundDone = 0
		rep.Outcomes = len(x.outcomes)
		rep.Extra = res.Counters
		rep.Exhaustive = rep.Cap == "" && rep.EngineError == ""
		rep.WallS = time.Since(start).Seconds()
		return rep
	}
	// determinism self-check: the default schedule twice, identical observations and points
	a := vsched.Run(t, cfgOf(sc, nil, true), sc.Run)
	b := vsched.Run(t, cfgOf(sc, nil, false), sc.Run)
	if d := diffRuns(a, b); d != "" {
		rep.EngineError = "NONDETERMINISM (default schedule run twice): " + d
		rep.WallS = time.Since(start).Seconds()
		return rep
	}
	if opt.KeepSample {
		rep.SampleObs = a.Obs
		rep.SampleTrace = a.Trace
		if len(rep.SampleTrace) > 400 {
			rep.SampleTrace = rep.SampleTrace[:400]
		}
	}
	for b := 0; b <= sc.Bound && !x.stop; b++ {
		x.bound = b
		// each bound is a complete search of everything with <= b deviations
		x.rep.Nodes = 0
		x.dfs(nil, 0)
		if x.stop {
			break
		}
		rep.BoundDone = b
		if x.newFound() > 0 {
			break // minimal-deviation counterexamples found; deeper bounds add nothing
		}
	}
	// optional deepening beyond the required bound, within a time slice: a bound
	// that does not complete in the slice is abandoned and does not count
	if sc.Deepen > sc.Bound && rep.BoundDone == sc.Bound && rep.Cap == "" && x.newFound() == 0 && opt.DeepenSlice > 0 {
		saved := x.opt.Deadline
		slice := time.Now().Add(opt.DeepenSlice)
		if !saved.IsZero() && saved.Before(slice) {
			slice = saved
		}
		x.opt.Deadline = slice
		for b := sc.Bound + 1; b <= sc.Deepen; b++ {
			x.bound = b
			nodes := x.rep.Nodes
			x.rep.Nodes = 0
			x.dfs(nil, 0)
			if x.stop && x.newFound() == 0 {
				// ran out of slice: forget the partial bound
				x.stop = false
				rep.Cap = ""
				rep.Deepened = fmt.Sprintf("deviation bound %d completed; bound %d abandoned after the %v deepening slice", rep.BoundDone, b, opt.DeepenSlice)
				x.rep.Nodes = nodes
				break
			}
			if x.stop {
				break
			}
			rep.BoundDone = b
			if x.newFound() > 0 {
				break
			}
		}
		x.opt.Deadline = saved
	}
	rep.Outcomes = len(x.outcomes)
	rep.Exhaustive = rep.BoundDone >= sc.Bound && rep.Cap == ""
	if rep.EngineError == "" && rep.Exhaustive {
		if sc.ExpectOutcomes != nil {
			var got []string
			for o := range x.selfOutcomes {
				got = append(got, o)
			}
			sort.Strings(got)
			want := append([]string{}, sc.ExpectOutcomes...)
			sort.Strings(want)
			if strings.Join(got, ",") != strings.Join(want, ",") {
				rep.EngineError = fmt.Sprintf("SELF-TEST %s: outcomes over all executions with <=%d deviations are %v, Go's semantics give %v", sc.Name, sc.Bound, got, want)
			}
		}
		if sc.ExpectRace == "race" && !x.selfRace {
			rep.EngineError = fmt.Sprintf("SELF-TEST %s: the race detector reported nothing for a program with a data race", sc.Name)
		}
		if sc.ExpectRace == "norace" && x.selfRace {
			rep.EngineError = fmt.Sprintf("SELF-TEST %s: the race detector reported a race in a correctly synchronised program", sc.Name)
		}
	}
	rep.WallS = time.Since(start).Seconds()
	return rep
}

func diffRuns(a, b *vsched.Result) string {
	if strings.Join(a.Obs, "\n") != strings.Join(b.Obs, "\n") {
		return fmt.Sprintf("observations differ:\n%v\nvs\n%v", a.Obs, b.Obs)
	}
	if len(a.Points) != len(b.Points) {
		return fmt.Sprintf("point counts differ: %d vs %d", len(a.Points), len(b.Points))
	}
	for i := range a.Points {
		if a.Points[i] != b.Points[i] {
			return fmt.Sprintf("point %d differs", i)
		}
	}
	if a.End != b.End {
		return "end differs: " + a.End + " vs " + b.End
	}
	return ""
}

func (x *explorer) dfs(prefix []int, used int) {
	if x.stop {
		return
	}
	if x.rep.Executions >= x.maxExecs {
		x.rep.Cap = fmt.Sprintf("execution cap %d reached at bound %d", x.maxExecs, x.bound)
		x.stop = true
		return
	}
	if !x.opt.Deadline.IsZero() && x.rep.Executions%64 == 0 && time.Now().After(x.opt.Deadline) {
		x.rep.Cap = fmt.Sprintf("time budget reached at bound %d", x.bound)
		x.stop = true
		return
	}
	res := vsched.Run(x.t, cfgOf(x.sc, prefix, false), x.sc.Run)
	x.rep.Executions++
	x.rep.Steps += res.Steps
	if len(res.Points) > x.rep.MaxPoints {
		x.rep.MaxPoints = len(res.Points)
	}
	if res.Nondet != "" {
		x.rep.EngineError = "NONDETERMINISM: " + res.Nondet
		x.stop = true
		return
	}
	if len(res.Points) < len(prefix) {
		x.rep.EngineError = fmt.Sprintf("NONDETERMINISM: replay of a %d-choice prefix produced only %d points", len(prefix), len(res.Points))
		x.stop = true
		return
	}
	x.rep.Nodes += len(res.Points) - len(prefix) + 1
	x.check(prefix, res)
	if x.stop {
		return
	}
	choices := make([]int, len(res.Points))
	for i, p := range res.Points {
		choices[i] = int(p.Chosen)
	}
	branch := 0
	for i := len(prefix); i < len(res.Points); i++ {
		p := res.Points[i]
		for alt := 1; alt < int(p.N); alt++ {
			if prefix == nil && x.sc.Shards > 1 {
				branch++
				if (branch-1)%x.sc.Shards != x.sc.Shard {
					continue
				}
			}
			c := used
			if p.Costs&(1<<uint(alt)) != 0 {
				c++
			}
			if c > x.bound {
				continue
			}
			np := make([]int, i+1)
			copy(np, choices[:i])
			np[i] = alt
			x.dfs(np, c)
			if x.stop {
				return
			}
		}
	}
}

// stuckKey: the scheduler reports a blocked driver as "STUCK"; it becomes a clause of the scenario's family.
func (x *explorer) stuckKey(res *vsched.Result) {
	for i := range res.Violations {
		if res.Violations[i].Key == "STUCK" {
			// reported under the property the scenario runs for (a donor scenario's own
			// oracles never ran either)
			fam := x.sc.Family
			if j := strings.Index(fam, "/"); j >= 0 && x.sc.Prop != "" {
				fam = x.sc.Prop + fam[j:]
			}
			res.Violations[i].Key = fam + "|driver-stuck"
		}
	}
}

func (x *explorer) check(prefix []int, res *vsched.Result) {
	x.stuckKey(res)
	if x.sc.ExpectOutcomes != nil || x.sc.ExpectRace != "" {
		if x.selfOutcomes == nil {
			x.selfOutcomes = map[string]bool{}
		}
		x.selfOutcomes[strings.Join(res.Obs, " | ")] = true
		for _, v := range res.Violations {
			if strings.HasPrefix(v.Key, "C15/race|") {
				x.selfRace = true
			}
		}
	}
	h := sha256.Sum256([]byte(strings.Join(res.Obs, "\n") + "\n" + res.End))
	if _, ok := x.outcomes[h]; !ok {
		x.outcomes[h] = struct{}{}
		if len(x.rep.OutcomeList) < 12 {
			x.rep.OutcomeList = append(x.rep.OutcomeList, strings.Join(res.Obs, " | "))
		}
	}
	viol := res.Violations
	if res.Panic != "" {
		viol = append(viol, vsched.Violation{Key: "panic|" + firstGoatFrame(res.PanicStack), Msg: "a goroutine panicked (the process would crash): " + res.Panic})
	}
	if res.End == "horizon" {
		if x.rep.Cap == "" {
			x.rep.Cap = "step horizon reached in at least one execution"
		}
	}
	for _, v := range viol {
		if x.sc.Prop != "" && !strings.HasPrefix(v.Key, x.sc.Prop+"/") && !strings.HasPrefix(v.Key, "panic|") && !strings.HasPrefix(v.Key, "dispatch|") {
			continue
		}
		if x.keys[v.Key] {
			continue
		}
		x.keys[v.Key] = true
		choices := make([]int, len(res.Points))
		for i, p := range res.Points {
			choices[i] = int(p.Chosen)
		}
		f := Found{Scenario: x.sc.Name, Family: x.sc.Family, Key: v.Key, Msg: v.Msg, Choices: choices, Bound: x.bound, End: res.End}
		// reproduce 5x from the recorded choice vector, verbosely
		okRepro := true
		for k := 0; k < 5; k++ {
			r2 := vsched.Run(x.t, cfgOf(x.sc, choices, k == 0), x.sc.Run)
			x.stuckKey(r2)
			same := false
			if k == 0 {
				f.Wire = r2.Wire
			}
			for _, v2 := range r2.Violations {
				if v2.Key == v.Key {
					same = true
				}
			}
			if r2.Panic != "" && strings.HasPrefix(v.Key, "panic|") {
				same = true
			}
			if !same || r2.Nondet != "" {
				okRepro = false
				break
			}
			if k == 0 {
				f.Trace, f.Obs, f.Parked, f.Panic, f.Stack = r2.Trace, r2.Obs, r2.Parked, r2.Panic, r2.PanicStack
			}
		}
		if !okRepro {
			x.rep.EngineError = "NONDETERMINISM: violation " + v.Key + " did not reproduce from its choice vector"
			x.stop = true
			return
		}
		x.rep.Found = append(x.rep.Found, f)
		if x.newFound() >= x.opt.MaxFound {
			x.stop = true
			x.rep.Cap = "stopped after reaching the violation limit"
		}
	}
}

// newFound counts the violations found so far that are not recorded known findings.
func (x *explorer) newFound() int {
	n := 0
	for _, f := range x.rep.Found {
		if !x.opt.KnownKeys[f.Key] {
			n++
		}
	}
	return n
}

// onceCheck records violations of a run-once enumeration (each is reproduced once).
func (x *explorer) onceCheck(res *vsched.Result) {
	x.stuckKey(res)
	viol := res.Violations
	if res.Panic != "" {
		viol = append(viol, vsched.Violation{Key: "panic|" + firstGoatFrame(res.PanicStack), Msg: "panicked: " + res.Panic})
	}
	x.outcomes[sha256.Sum256([]byte(strings.Join(res.Obs, "\n")))] = struct{}{}
	for _, v := range viol {
		if x.sc.Prop != "" && !strings.HasPrefix(v.Key, x.sc.Prop+"/") && !strings.HasPrefix(v.Key, "panic|") && !strings.HasPrefix(v.Key, "dispatch|") {
			continue
		}
		if x.keys[v.Key] {
			continue
		}
		x.keys[v.Key] = true
		r2 := vsched.Run(x.t, cfgOf(x.sc, nil, false), x.sc.Run)
		x.stuckKey(r2)
		same := r2.Panic != "" && strings.HasPrefix(v.Key, "panic|")
		for _, v2 := range r2.Violations {
			if v2.Key == v.Key {
				same = true
			}
		}
		if !same {
			x.rep.EngineError = "NONDETERMINISM: violation " + v.Key + " did not reproduce"
			return
		}
		x.rep.Found = append(x.rep.Found, Found{Scenario: x.sc.Name, Family: x.sc.Family, Key: v.Key, Msg: v.Msg, End: res.End, Obs: res.Obs, Panic: res.Panic, Stack: res.PanicStack})
	}
}

func firstGoatFrame(stack string) string {
	for _, l := range strings.Split(stack, "\n") {
		l = strings.TrimSpace(l)
		if strings.HasPrefix(l, "github.com/avos-io/goat") && !strings.Contains(l, "/vrt/") && !strings.Contains(l, "/vh/") {
			// "github.com/avos-io/goat.(*ClientConn).invoke(0x…" -> ".(*ClientConn).invoke"
			l = strings.TrimPrefix(l, "github.com/avos-io/goat")
			if i := strings.Index(l, "(0x"); i > 0 {
				l = l[:i]
			} else if i := strings.LastIndex(l, "("); i > 0 {
				l = l[:i]
			}
			return l
		}
	}
	return "?"
}

// Replay re-executes one recorded schedule verbosely.
func Replay(t *testing.T, sc *Scenario, choices []int) *vsched.Result {
	return vsched.Run(t, cfgOf(sc, choices, true), sc.Run)
}

// HashID is a short stable id for file names.
func HashID(s string) string {
	h := sha256.Sum256([]byte(s))
	return hex.EncodeToString(h[:6])
}
