// Package verrgroup stands in for golang.org/x/sync/errgroup.
package verrgroup

import (
	"github.com/avos-io/goat/vrt/vctx"
	"github.com/avos-io/goat/vrt/vsched"
)

type Group struct {
	cancel func(error)
	wg     vsched.WaitGroup
	done   bool
	err    error
}

func WithContext(ctx vctx.Context) (*Group, vctx.Context) {
	ctx, cancel := vctx.WithCancelCause(ctx)
	return &Group{cancel: cancel}, ctx
}

func (g *Group) Wait() error {
	g.wg.Wait()
	if g.cancel != nil {
		g.cancel(g.err)
	}
	return g.err
}

func (g *Group) Go(f func() error) {
	g.wg.Add(1)
	vsched.Go("errgroup.Go", func() {
		defer g.wg.Done()
		if err := f(); err != nil {
			if !g.done {
				g.done = true
				g.err = err
				if g.cancel != nil {
					g.cancel(g.err)
				}
			}
		}
	})
}
