// Package vctx stands in for "context" in instrumented sources.  Contexts are
// std contexts wrapped in a forwarding *Ctx so that (a) cancel functions are
// scheduling points, (b) Err() on a not-yet-done context is a scheduling point
// (its answer can change), (c) deadlines are known to the scheduler, which
// owns the fake clock.  std still recognises the inner cancelCtx through the
// wrapper (Value(&cancelCtxKey) is forwarded and Done() is the same channel),
// so children never start a propagation goroutine.
package vctx

import (
	"context"
	"reflect"
	"strings"
	"time"

	"github.com/avos-io/goat/vrt/vsched"
)

type (
	Context         = context.Context
	CancelFunc      = context.CancelFunc
	CancelCauseFunc = context.CancelCauseFunc
)

var (
	Canceled         = context.Canceled
	DeadlineExceeded = context.DeadlineExceeded
)

func Background() Context                   { return context.Background() }
func TODO() Context                         { return context.TODO() }
func WithValue(p Context, k, v any) Context { return context.WithValue(p, k, v) }
func Cause(c Context) error                 { return context.Cause(c) }
func WithoutCancel(p Context) Context       { return context.WithoutCancel(p) }

// AfterFunc is modelled with a managed thread that waits for ctx or stop.
func AfterFunc(ctx Context, f func()) (stop func() bool) {
	if !vsched.Active() {
		return context.AfterFunc(ctx, f)
	}
	stopCh := make(chan struct{})
	state := 0 // 0 pending, 1 started, 2 stopped
	vsched.Go("context.AfterFunc", func() {
		if vsched.Select("context.AfterFunc", false, vsched.RecvCase(ctx.Done()), vsched.RecvCase((<-chan struct{})(stopCh))) == 0 && state == 0 {
			state = 1
			f()
		}
	})
	return func() bool {
		if state != 0 {
			return false
		}
		state = 2
		vsched.Close("context.AfterFunc.stop", stopCh)
		return true
	}
}

// Ctx forwards to a std context.
type Ctx struct {
	inner context.Context
}

func (c *Ctx) Deadline() (time.Time, bool) { return c.inner.Deadline() }
func (c *Ctx) Done() <-chan struct{}       { return c.inner.Done() }
func (c *Ctx) Value(k any) any             { return c.inner.Value(k) }
func (c *Ctx) Err() error {
	if err := c.inner.Err(); err != nil {
		vsched.NoteObserveCancel()
		return err // stable: independent of every other operation
	}
	vsched.YieldSkip("ctx.Err", 1)
	err := c.inner.Err()
	if err != nil {
		vsched.NoteObserveCancel()
	}
	return err
}

func wrap(inner context.Context) Context { return &Ctx{inner: inner} }

// foreignRoot: parent is (or, under std value contexts, rests on) a Context implementation that
// is neither ours nor one of package context's: std would then start an unmanaged goroutine to
// carry its cancellation to a child. We start a managed thread instead, so that "who notices the
// parent's end first" is a choice of the explorer like any other.
func foreignRoot(parent Context) bool {
	c := parent
	for i := 0; i < 64 && c != nil; i++ {
		if _, ok := c.(*Ctx); ok {
			return false
		}
		t := reflect.TypeOf(c)
		name := t.String()
		switch name {
		case "*context.valueCtx", "*context.withoutCancelCtx":
			f := reflect.ValueOf(c).Elem().Field(0)
			next, ok := f.Interface().(Context)
			if !ok {
				return false
			}
			if name == "*context.withoutCancelCtx" {
				return false // never cancelled at all
			}
			c = next
			continue
		}
		return !strings.HasPrefix(name, "*context.") && !strings.HasPrefix(name, "context.")
	}
	return false
}

// detach: a std context carrying parent's values but not its cancellation, plus a managed thread
// that forwards parent's end to cancel.
func propagate(parent Context, inner Context, cancel func()) {
	if !vsched.Active() {
		context.AfterFunc(parent, cancel)
		return
	}
	vsched.Go("context.propagate", func() {
		if vsched.Select("context.propagate", false, vsched.RecvCase(parent.Done()), vsched.RecvCase(inner.Done())) == 0 {
			vsched.NoteCancel()
			cancel()
		}
	})
}

func WithCancel(parent Context) (Context, CancelFunc) {
	if foreignRoot(parent) && parent.Done() != nil {
		base := context.WithoutCancel(parent)
		var inner Context
		var cancel context.CancelFunc
		if d, ok := parent.Deadline(); ok {
			inner, cancel = context.WithDeadline(base, d)
			vsched.AddInstant(d)
		} else {
			inner, cancel = context.WithCancel(base)
		}
		propagate(parent, inner, cancel)
		return wrap(inner), func() {
			if inner.Err() == nil {
				vsched.YieldSkip("cancel", 1)
			}
			vsched.NoteCancel()
			cancel()
		}
	}
	inner, cancel := context.WithCancel(parent)
	return wrap(inner), func() {
		if inner.Err() == nil {
			vsched.YieldSkip("cancel", 1)
		}
		vsched.NoteCancel()
		cancel()
	}
}

func WithCancelCause(parent Context) (Context, CancelCauseFunc) {
	inner, cancel := context.WithCancelCause(parent)
	return wrap(inner), func(cause error) {
		if inner.Err() == nil {
			vsched.YieldSkip("cancel", 1)
		}
		vsched.NoteCancel()
		cancel(cause)
	}
}

func WithDeadline(parent Context, d time.Time) (Context, CancelFunc) {
	if foreignRoot(parent) && parent.Done() != nil {
		base := context.WithoutCancel(parent)
		if pd, ok := parent.Deadline(); ok && pd.Before(d) {
			d = pd
		}
		inner, cancel := context.WithDeadline(base, d)
		if inner.Err() == nil {
			vsched.AddInstant(d)
		}
		propagate(parent, inner, cancel)
		return wrap(inner), func() {
			if inner.Err() == nil {
				vsched.YieldSkip("cancel", 1)
			}
			vsched.NoteCancel()
			cancel()
		}
	}
	inner, cancel := context.WithDeadline(parent, d)
	if inner.Err() == nil {
		vsched.AddInstant(d)
	}
	return wrap(inner), func() {
		if inner.Err() == nil {
			vsched.YieldSkip("cancel", 1)
		}
		vsched.NoteCancel()
		cancel()
	}
}

func WithTimeout(parent Context, d time.Duration) (Context, CancelFunc) {
	return WithDeadline(parent, time.Now().Add(d))
}

func WithDeadlineCause(parent Context, d time.Time, cause error) (Context, CancelFunc) {
	inner, cancel := context.WithDeadlineCause(parent, d, cause)
	if inner.Err() == nil {
		vsched.AddInstant(d)
	}
	return wrap(inner), func() {
		if inner.Err() == nil {
			vsched.YieldSkip("cancel", 1)
		}
		vsched.NoteCancel()
		cancel()
	}
}

func WithTimeoutCause(parent Context, d time.Duration, cause error) (Context, CancelFunc) {
	return WithDeadlineCause(parent, time.Now().Add(d), cause)
}

// IsDone reports whether ctx is done without a scheduling point (harness
// transports use it for their entry check).
func IsDone(ctx Context) bool {
	select {
	case <-ctx.Done():
		return true
	default:
		return false
	}
}

// RawErr is ctx.Err() without a scheduling point.
func RawErr(ctx Context) error {
	if c, ok := ctx.(*Ctx); ok {
		return c.inner.Err()
	}
	return ctx.Err()
}
