package litmus

// A package added to goat's module through the build overlay only (never present in
// /repo): concurrency litmus programs with known outcome sets. They are
// instrumented exactly like goat's own code (scheduling points, race hooks)
// and let the engine be checked against Go's semantics.

import (
	"context"
	"sync"
	"sync/atomic"
	"time"
)

// package-level state: shared by every goroutine, and put back to these values before every execution
var (
	verifWarned  bool
	verifScratch []byte
	verifCount   = 7
)

type verifLitmus struct {
	mu   sync.Mutex
	rw   sync.RWMutex
	n    int
	m    map[string]int
	flag atomic.Int32
	cnt  int64
}

// Run runs the named program and returns its observable outcome.
func Run(name string) string {
	l := &verifLitmus{m: map[string]int{}}
	var wg sync.WaitGroup
	switch name {
	case "lost-update": // unsynchronised read-modify-write: 1 or 2
		for i := 0; i < 2; i++ {
			wg.Add(1)
			go func() {
				defer wg.Done()
				v := l.n
				l.flag.Add(1) // a scheduling point between the read and the write
				l.n = v + 1
			}()
		}
		wg.Wait()
		return itoa(l.n)
	case "mutex-update": // the same under a mutex: always 2
		for i := 0; i < 2; i++ {
			wg.Add(1)
			go func() {
				defer wg.Done()
				l.mu.Lock()
				v := l.n
				l.flag.Add(1)
				l.n = v + 1
				l.mu.Unlock()
			}()
		}
		wg.Wait()
		return itoa(l.n)
	case "select-both-ready": // either case may be taken
		a, b := make(chan int, 1), make(chan int, 1)
		a <- 1
		b <- 2
		select {
		case v := <-a:
			return itoa(v)
		case v := <-b:
			return itoa(v)
		}
	case "rendezvous-order": // two senders on an unbuffered channel: either order
		c := make(chan int)
		for i := 1; i <= 2; i++ {
			i := i
			go func() { c <- i }()
		}
		x := <-c
		y := <-c
		return itoa(x) + itoa(y)
	case "lock-order-deadlock": // AB / BA: completes or deadlocks
		var a, b sync.Mutex
		done := make(chan struct{}, 2)
		go func() { a.Lock(); b.Lock(); b.Unlock(); a.Unlock(); done <- struct{}{} }()
		go func() { b.Lock(); a.Lock(); a.Unlock(); b.Unlock(); done <- struct{}{} }()
		<-done
		<-done
		return "completed"
	case "cancel-vs-send": // a cancellation racing with a send: either wins
		ctx, cancel := context.WithCancel(context.Background())
		c := make(chan int)
		go cancel()
		go func() {
			select {
			case c <- 1:
			case <-ctx.Done():
			}
		}()
		select {
		case <-c:
			return "sent"
		case <-ctx.Done():
			return "cancelled"
		}
	case "timer-vs-message": // a 1 s timer against a message that arrives first: the message wins unless nobody sends
		c := make(chan int, 1)
		c <- 1
		select {
		case <-c:
			return "message"
		case <-time.After(time.Second):
			return "timeout"
		}
	case "timer-alone":
		c := make(chan int)
		select {
		case <-c:
			return "message"
		case <-time.After(time.Second):
			return "timeout"
		}
	case "once": // sync.Once under contention: the function runs once
		var o sync.Once
		for i := 0; i < 3; i++ {
			wg.Add(1)
			go func() { defer wg.Done(); o.Do(func() { l.n++ }) }()
		}
		wg.Wait()
		return itoa(l.n)
	case "rwmutex": // readers share, the writer excludes: the readers see 0 or 2, never 1
		res := make(chan int, 2)
		go func() { l.rw.Lock(); l.n = 1; l.flag.Add(1); l.n = 2; l.rw.Unlock() }()
		for i := 0; i < 2; i++ {
			go func() { l.rw.RLock(); v := l.n; l.rw.RUnlock(); res <- v }()
		}
		x, y := <-res, <-res
		if x > y {
			x, y = y, x
		}
		return itoa(x) + itoa(y)
	case "afterfunc": // context.AfterFunc runs after cancel, in its own goroutine
		ctx, cancel := context.WithCancel(context.Background())
		ran := make(chan struct{})
		context.AfterFunc(ctx, func() { close(ran) })
		select {
		case <-ran:
			return "early"
		default:
		}
		cancel()
		<-ran
		return "ran"
	case "map-order": // Go does not specify the iteration order: every key can come first
		l.m["a"], l.m["b"], l.m["c"] = 1, 2, 3
		for k := range l.m {
			return k
		}
	case "close-wakes-all": // closing a channel releases every receiver
		c := make(chan int)
		for i := 0; i < 2; i++ {
			wg.Add(1)
			go func() { defer wg.Done(); <-c; l.flag.Add(1) }()
		}
		close(c)
		wg.Wait()
		return itoa(int(l.flag.Load()))
	case "buffered-capacity": // the third send on a 2-slot channel blocks until a receive
		c := make(chan int, 2)
		go func() { c <- 1; c <- 2; c <- 3; l.flag.Store(9) }()
		for l.flag.Load() == 0 && len(c) < 2 {
			time.Sleep(time.Millisecond)
		}
		time.Sleep(time.Millisecond)
		if l.flag.Load() == 9 {
			return "overfull"
		}
		x := <-c
		y := <-c
		z := <-c
		return itoa(x) + itoa(y) + itoa(z)
	case "send-on-closed": // sending on a closed channel panics, also from a select with a default arm
		c := make(chan int, 1)
		close(c)
		res := ""
		func() {
			defer func() {
				if recover() != nil {
					res += "P"
				}
			}()
			c <- 1
			res += "ok"
		}()
		func() {
			defer func() {
				if recover() != nil {
					res += "P"
				}
			}()
			select {
			case c <- 1:
				res += "sent"
			default:
				res += "default"
			}
		}()
		return res
	case "recv-on-closed": // receiving from a closed channel yields the buffered values, then zero values with ok=false
		c := make(chan int, 2)
		c <- 7
		close(c)
		a, ok1 := <-c
		b, ok2 := <-c
		res := itoa(a) + itoa(b)
		if ok1 {
			res += "t"
		} else {
			res += "f"
		}
		if ok2 {
			res += "t"
		} else {
			res += "f"
		}
		return res
	case "close-closed": // closing twice panics
		c := make(chan int)
		close(c)
		res := "ok"
		func() {
			defer func() {
				if recover() != nil {
					res = "P"
				}
			}()
			close(c)
		}()
		return res
	// ---- race-detector litmus: the outcome is irrelevant, the report matters
	case "race-global": // "warn once" on a plain package-level flag: check-then-set from two goroutines
		for i := 0; i < 2; i++ {
			wg.Add(1)
			go func() {
				defer wg.Done()
				if !verifWarned {
					verifWarned = true
				}
			}()
		}
		wg.Wait()
	case "global-fresh": // what one execution leaves in package-level variables is not seen by the next
		seen := "fresh"
		if verifWarned || verifScratch != nil || verifCount != 7 {
			seen = "stale"
		}
		l.mu.Lock()
		verifWarned = true
		verifScratch = append(verifScratch, 1)
		verifCount++
		l.mu.Unlock()
		return seen
	case "add-after-go": // WaitGroup.Add placed after the go statement: the goroutine's Done may come first (fine-grained mode only)
		var late sync.WaitGroup
		res := "ok"
		func() {
			defer func() {
				if recover() != nil {
					res = "negative"
				}
			}()
			done := make(chan struct{})
			go func() {
				defer close(done)
				defer func() {
					if recover() != nil {
						res = "negative"
					}
				}()
				late.Done()
			}()
			late.Add(1)
			<-done
		}()
		return res
	case "race-atomic-plain": // an atomic add outside the lock, a plain read of the same word inside it
		wg.Add(2)
		go func() { defer wg.Done(); atomic.AddInt64(&l.cnt, 1) }()
		go func() { defer wg.Done(); l.mu.Lock(); _ = l.cnt; l.mu.Unlock() }()
		wg.Wait()
	case "norace-atomic-atomic": // atomic add and atomic load of one word from two goroutines; a plain read after both joined
		wg.Add(2)
		go func() { defer wg.Done(); atomic.AddInt64(&l.cnt, 1) }()
		go func() { defer wg.Done(); _ = atomic.LoadInt64(&l.cnt) }()
		wg.Wait()
		_ = l.cnt
	case "race-plain": // two unsynchronised writers
		for i := 0; i < 2; i++ {
			wg.Add(1)
			go func() { defer wg.Done(); l.n = i }()
		}
		wg.Wait()
	case "race-map": // unsynchronised map write vs read
		wg.Add(2)
		go func() { defer wg.Done(); l.m["k"] = 1 }()
		go func() { defer wg.Done(); _ = l.m["k"] }()
		wg.Wait()
	case "race-map-range": // ranging over a map while another goroutine inserts
		l.m["a"] = 1
		wg.Add(2)
		go func() {
			defer wg.Done()
			for range l.m {
			}
		}()
		go func() { defer wg.Done(); l.m["b"] = 2 }()
		wg.Wait()
	case "race-delete": // delete vs lookup
		l.m["a"] = 1
		wg.Add(2)
		go func() { defer wg.Done(); delete(l.m, "a") }()
		go func() { defer wg.Done(); _, _ = l.m["a"] }()
		wg.Wait()
	case "norace-mutex":
		for i := 0; i < 2; i++ {
			wg.Add(1)
			go func() { defer wg.Done(); l.mu.Lock(); l.n++; l.mu.Unlock() }()
		}
		wg.Wait()
	case "norace-channel": // hand-off through a channel orders the accesses
		c := make(chan struct{})
		go func() { l.n = 1; c <- struct{}{} }()
		<-c
		l.n = 2
	case "norace-atomic-publish": // write, atomic store / atomic load, read
		go func() { l.n = 7; l.flag.Store(1) }()
		for l.flag.Load() == 0 {
			time.Sleep(time.Millisecond)
		}
		_ = l.n
	case "race-after-unlock": // one access inside the critical section, the other outside
		wg.Add(2)
		go func() { defer wg.Done(); l.mu.Lock(); l.n = 1; l.mu.Unlock() }()
		go func() { defer wg.Done(); l.mu.Lock(); l.mu.Unlock(); l.n = 2 }()
		wg.Wait()
	case "norace-cancel-publish": // write, cancel / observe Done, read
		ctx, cancel := context.WithCancel(context.Background())
		go func() { l.n = 3; cancel() }()
		<-ctx.Done()
		_ = l.n
	}
	return ""
}

func itoa(v int) string { return string(rune('0' + v)) }
