package env

import (
	"fmt"
	"strings"

	"github.com/avos-io/goat/vrt/vsched"
)

// idState is the protocol automaton state of one stream id on one wire.
type idState struct {
	id       uint64
	unary    bool
	method   string
	src, dst string
	tag      string

	// client -> server
	cOpen, cBodies, cTrailers, cResets, cReqs int
	cAfterReset                               bool
	// server -> client
	sEnvelopes, sBodies, sTrailers, sResets, sHdrOnly, sResps int
	sSeen                                                     bool
	sTrailerBeforeReset                                       bool
}

func describe(r *Rpc) string {
	var parts []string
	parts = append(parts, fmt.Sprintf("id=%d", r.GetId()))
	if r.Header == nil {
		parts = append(parts, "NOHEADER")
	} else {
		parts = append(parts, r.Header.Method)
		if len(r.Header.Headers) > 0 {
			parts = append(parts, fmt.Sprintf("md=%d", len(r.Header.Headers)))
		}
	}
	if r.Body != nil {
		parts = append(parts, fmt.Sprintf("body(%d)", len(r.Body.Data)))
	}
	if r.Status != nil {
		parts = append(parts, fmt.Sprintf("status=%d", r.Status.Code))
	}
	if r.Trailer != nil {
		parts = append(parts, "trailer")
	}
	if r.Reset_ != nil {
		parts = append(parts, "RESET")
	}
	return strings.Join(parts, " ")
}

// WireLog renders the tap of one wire for observation logs / replay files.
func (t *Tap) WireLog(wire string) []string {
	var out []string
	for _, e := range t.Events {
		if e.Wire == wire {
			out = append(out, e.Dir+": "+describe(e.Rpc))
		}
	}
	return out
}

// CheckWire runs the documented-protocol automaton (C06) and the id
// uniqueness rule (C05) over everything that crossed one client<->server
// wire.  c2s is the direction label of client-to-server envelopes.  alive: no
// fault was injected and nothing was stopped, so trailer obligations hold.
// returned reports whether the handler of the stream tagged t has returned.
func CheckWire(tap *Tap, wire, c2s string, alive bool, w *World) {
	ids := map[uint64]*idState{}
	get := func(id uint64) *idState {
		s := ids[id]
		if s == nil {
			s = &idState{id: id}
			ids[id] = s
		}
		return s
	}
	fail := func(clause, f string, a ...any) {
		vsched.Fail("C06/wire|"+clause, f+"   wire: %v", append(a, tap.WireLog(wire))...)
	}
	for _, e := range tap.Events {
		if e.Wire != wire {
			continue
		}
		r := e.Rpc
		if on, lost := tap.LostOn[r.GetId()]; lost && on != wire {
			continue
		}
		if e.Dir == c2s {
			s := get(r.GetId())
			if r.Header == nil {
				fail("client-no-header", "client envelope without header: %s", describe(r))
				continue
			}
			first := s.cOpen+s.cReqs == 0 && s.cBodies+s.cTrailers+s.cResets == 0
			if first {
				s.method, s.src, s.dst = r.Header.Method, r.Header.Source, r.Header.Destination
				s.unary = strings.HasSuffix(r.Header.Method, "/Unary")
				for _, kv := range r.Header.Headers {
					if strings.ToLower(kv.Key) == "tag" {
						s.tag = kv.Value
					}
				}
			} else if r.Header.Method != s.method || r.Header.Source != s.src || r.Header.Destination != s.dst {
				fail("client-header-changed", "id %d: header fields changed mid-stream: %s", s.id, describe(r))
			}
			if s.cResets > 0 {
				what := "open"
				switch {
				case r.Reset_ != nil:
					what = "second-reset"
				case r.Trailer != nil:
					what = "trailer"
				case r.Body != nil:
					what = "body"
				}
				fail("client-"+what+"-after-reset", "id %d: client envelope after its (final) reset: %s", s.id, describe(r))
			}
			switch {
			case r.Reset_ != nil:
				s.cResets++
				if s.cOpen == 0 {
					fail("client-reset-before-open", "id %d: a reset is the first thing the client sends on this id (the stream was never opened)", s.id)
				}
			case s.unary:
				s.cReqs++
				if r.Body == nil || r.Trailer != nil {
					fail("unary-request-shape", "id %d: unary request must be header+body: %s", s.id, describe(r))
				}
				if s.cReqs > 1 {
					vsched.Fail("C05/ids|duplicate-id", "id %d used by two unary requests on one connection   wire: %v", s.id, tap.WireLog(wire))
				}
			case r.Trailer != nil:
				s.cTrailers++
				if s.cOpen == 0 {
					fail("client-trailer-before-open", "id %d: trailer before the stream was opened", s.id)
				}
				if s.cTrailers > 1 {
					fail("client-second-trailer", "id %d: client sent a second trailer", s.id)
				}
			case r.Body != nil:
				s.cBodies++
				if s.cOpen == 0 {
					fail("client-body-before-open", "id %d: body before the header-only open", s.id)
				}
				if s.cTrailers > 0 {
					fail("client-body-after-trailer", "id %d: client body after its trailer", s.id)
				}
			default:
				s.cOpen++
				if s.cOpen > 1 {
					vsched.Fail("C05/ids|duplicate-id", "id %d opened twice on one connection   wire: %v", s.id, tap.WireLog(wire))
				}
				if s.cBodies+s.cTrailers > 0 {
					fail("client-open-late", "id %d: header-only envelope after bodies/trailer", s.id)
				}
			}
			continue
		}
		// server -> client
		s, known := ids[r.GetId()]
		if !known {
			fail("server-unknown-id", "server emitted an envelope for id %d which it never received: %s", r.GetId(), describe(r))
			continue
		}
		if r.Header == nil {
			fail("server-no-header", "server envelope without header: %s", describe(r))
			continue
		}
		if r.Header.Source != s.dst || r.Header.Destination != s.src {
			fail("server-addresses", "id %d: response source/destination %q->%q are not the swapped request's %q->%q", s.id, r.Header.Source, r.Header.Destination, s.src, s.dst)
		}
		if r.Header.Method != s.method && strings.TrimPrefix(r.Header.Method, "/") != strings.TrimPrefix(s.method, "/") {
			fail("server-method", "id %d: response method %q differs from request's %q", s.id, r.Header.Method, s.method)
		}
		if s.sEnvelopes > 0 && len(r.Header.Headers) > 0 {
			fail("server-late-metadata", "id %d: response metadata on an envelope that is not the first response: %s", s.id, describe(r))
		}
		s.sEnvelopes++
		switch {
		case r.Reset_ != nil:
			s.sResets++
			if s.unary {
				fail("server-reset-unary", "id %d: reset for a unary call", s.id)
			}
			if s.sResets > s.cBodies {
				fail("server-reset-unprovoked", "id %d: %d server resets but only %d client bodies", s.id, s.sResets, s.cBodies)
			}
			if s.sTrailers == 0 {
				s.sTrailerBeforeReset = false
				// is a trailer still to come? decided after the loop
			}
		case s.unary:
			s.sResps++
			if s.sResps > 1 {
				fail("unary-second-response", "id %d: second response to a unary call", s.id)
			}
			if r.Trailer == nil {
				fail("unary-response-shape", "id %d: unary response without trailer: %s", s.id, describe(r))
			}
			if r.Body == nil && (r.Status == nil || r.Status.Code == 0) {
				fail("unary-response-shape", "id %d: unary response with neither body nor non-OK status: %s", s.id, describe(r))
			}
		case r.Trailer != nil:
			s.sTrailers++
			if s.sResets > 0 {
				fail("reset-overtook-trailer", "id %d: the server's reset went out before the stream's trailer", s.id)
			}
			if s.sTrailers > 1 {
				fail("server-second-trailer", "id %d: second trailer", s.id)
			}
			if r.Status == nil {
				fail("server-trailer-no-status", "id %d: trailer without status", s.id)
			}
			if r.Body != nil {
				fail("server-trailer-body", "id %d: trailer envelope carries a body", s.id)
			}
		case r.Body != nil:
			s.sBodies++
			if s.sTrailers > 0 {
				fail("server-body-after-trailer", "id %d: body after trailer", s.id)
			}
		default:
			s.sHdrOnly++
			if s.sHdrOnly > 1 || s.sBodies > 0 || s.sTrailers > 0 {
				fail("server-header-late", "id %d: header-only response envelope not first", s.id)
			}
		}
	}
	if !alive || w == nil {
		return
	}
	// obligations
	for _, s := range ids {
		if s.tag == "" {
			continue
		}
		rec := w.Recs[s.tag]
		if rec == nil {
			continue
		}
		if s.unary {
			if rec.HReturned && s.sResps != 1 {
				fail("unary-no-response", "id %d (%s): handler returned but %d responses are on the wire", s.id, s.tag, s.sResps)
			}
			continue
		}
		if rec.HReturned && s.cResets == 0 && s.sTrailers == 0 {
			fail("missing-trailer", "id %d (%s): handler returned, the caller never reset and the connection is alive, but no trailer was sent", s.id, s.tag)
		}
	}
}
