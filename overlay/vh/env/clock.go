package env

import (
	"time"

	"github.com/jonboulle/clockwork"
)

// Clock is a clockwork.Clock driven by the harness: Advance moves it and
// fires its tickers like time.Ticker does (a tick is dropped if the previous
// one has not been taken).
type Clock struct {
	now     time.Time
	tickers []*ticker
}

type ticker struct {
	c       *Clock
	ch      chan time.Time
	every   time.Duration
	next    time.Time
	stopped bool
}

func NewClock() *Clock { return &Clock{now: time.Unix(1_700_000_000, 0)} }

func (c *Clock) Now() time.Time                  { return c.now }
func (c *Clock) Since(t time.Time) time.Duration { return c.now.Sub(t) }
func (c *Clock) NewTicker(d time.Duration) clockwork.Ticker {
	t := &ticker{c: c, ch: make(chan time.Time, 1), every: d, next: c.now.Add(d)}
	c.tickers = append(c.tickers, t)
	return t
}
func (c *Clock) After(d time.Duration) <-chan time.Time   { panic("env.Clock: After not modelled") }
func (c *Clock) Sleep(d time.Duration)                    { panic("env.Clock: Sleep not modelled") }
func (c *Clock) NewTimer(d time.Duration) clockwork.Timer { panic("env.Clock: NewTimer not modelled") }
func (c *Clock) AfterFunc(d time.Duration, f func()) clockwork.Timer {
	panic("env.Clock: AfterFunc not modelled")
}

// Advance moves the clock and delivers due ticks.
func (c *Clock) Advance(d time.Duration) {
	c.now = c.now.Add(d)
	for _, t := range c.tickers {
		for !t.stopped && !t.next.After(c.now) {
			select {
			case t.ch <- t.next:
			default:
			}
			t.next = t.next.Add(t.every)
		}
	}
}

func (t *ticker) Chan() <-chan time.Time { return t.ch }
func (t *ticker) Reset(d time.Duration)  { t.every, t.next = d, t.c.now.Add(d) }
func (t *ticker) Stop()                  { t.stopped = true }
