package env

import (
	"bytes"

	"github.com/rs/zerolog"
	"github.com/rs/zerolog/log"
)

// A slow log sink is part of the environment: goat logs through zerolog's global logger, and a write to
// it may take arbitrarily long (a full pipe, a slow disk). HoldLog installs a sink that calls hook for every
// line containing match - the hook typically parks on a gate the scenario opens once everything else has
// come to rest - and returns the function that restores the previous logger.
func HoldLog(match string, hook func()) (restore func()) {
	prev := log.Logger
	log.Logger = zerolog.New(&logSink{match: []byte(match), hook: hook})
	zerolog.SetGlobalLevel(zerolog.InfoLevel) // (the harness runs with logging disabled otherwise)
	return func() {
		log.Logger = prev
		zerolog.SetGlobalLevel(zerolog.Disabled)
	}
}

type logSink struct {
	match []byte
	hook  func()
}

func (s *logSink) Write(p []byte) (int, error) {
	if bytes.Contains(p, s.match) {
		s.hook()
	}
	return len(p), nil
}
