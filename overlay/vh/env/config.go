package env

import (
	"context"
	"strings"

	goat "github.com/avos-io/goat"
	"google.golang.org/grpc"
	"google.golang.org/grpc/codes"
	"google.golang.org/grpc/stats"
	"google.golang.org/grpc/status"
)

// Config, when set, makes the next NewDirect build its client and server with additional,
// behaviour-neutral features switched on, so that a scenario written for the default
// configuration also runs with features combined ("+"-separated):
//
//	stats         one passive stats handler on each side
//	stats2        two on each side
//	interceptors  pass-through unary and stream interceptors on both sides (native options)
//	chain         the server's interceptors installed through Chain*Interceptor (two each)
//	services      decoy services registered next to verif.Svc (same method names, other service names)
//	serialize     the transport serialises envelopes (flipped if the scenario already does)
//	demux         client - Demux(by source) - Serve instead of client - Serve
//	via-proxy, via-rewriting-proxy[-nocallback]  client - Proxy - Demux - Serve; "rewriting": the client dials a
//	              name that the proxy's address-rewriting callback translates; "nocallback": no disconnect callback
//
// Feature kinds are added only on a side for which the scenario passes no options of its own.
var Config string

var ConfigKinds = []string{"stats", "stats2+interceptors", "chain+stats", "services", "serialize+interceptors", "stats2+chain+services+serialize", "demux", "via-proxy", "via-rewriting-proxy", "via-rewriting-proxy-nocallback+stats", "demux+stats2+chain"}

type passiveSH struct{ n int }

// ConfigUses counts how often the neutral features were actually exercised (self-check of the wrapper).
var ConfigUses = map[string]int{}

type passiveKey struct{ n int }

func (p *passiveSH) TagRPC(ctx context.Context, _ *stats.RPCTagInfo) context.Context {
	ConfigUses["stats"]++
	return context.WithValue(ctx, passiveKey{p.n}, true)
}
func (p *passiveSH) HandleRPC(context.Context, stats.RPCStats) {}
func (p *passiveSH) TagConn(ctx context.Context, _ *stats.ConnTagInfo) context.Context {
	return ctx
}
func (p *passiveSH) HandleConn(context.Context, stats.ConnStats) {}

func passUnaryServer(ctx context.Context, req any, info *grpc.UnaryServerInfo, h grpc.UnaryHandler) (any, error) {
	ConfigUses["interceptor"]++
	return h(ctx, req)
}
func passStreamServer(srv any, ss grpc.ServerStream, info *grpc.StreamServerInfo, h grpc.StreamHandler) error {
	ConfigUses["interceptor"]++
	return h(srv, ss)
}
func passUnaryClient(ctx context.Context, method string, req, reply any, cc *grpc.ClientConn, inv grpc.UnaryInvoker, opts ...grpc.CallOption) error {
	return inv(ctx, method, req, reply, cc, opts...)
}
func passStreamClient(ctx context.Context, desc *grpc.StreamDesc, cc *grpc.ClientConn, method string, st grpc.Streamer, opts ...grpc.CallOption) (grpc.ClientStream, error) {
	return st(ctx, desc, cc, method, opts...)
}

// decoy services: same method names under other service names; a call that reaches one of
// them was routed to the wrong service
type decoy struct {
	name string
	w    *World
}

func (d *decoy) Unary(ctx context.Context, in *Msg) (*Msg, error) {
	if d.w != nil {
		d.w.Stray = append(d.w.Stray, "decoy-service:"+d.name+":unary")
	}
	return nil, status.Error(codes.Internal, "decoy service "+d.name+" was called")
}
func (d *decoy) Stream(kind string, ss grpc.ServerStream) error {
	if d.w != nil {
		d.w.Stray = append(d.w.Stray, "decoy-service:"+d.name+":"+kind)
	}
	return status.Error(codes.Internal, "decoy service "+d.name+" was called")
}

func decoyDesc(name string) *grpc.ServiceDesc {
	d := ServiceDesc
	d.ServiceName = name
	return &d
}

func applyConfig(o DirectOpts, cfg string) (DirectOpts, []string) {
	// feature kinds only on a side for which the scenario passes no options of its own (it may
	// count events or calls there); topology kinds always
	ownServer, ownDial := len(o.ServerOpts) > 0, len(o.DialOpts) > 0
	var services []string
	for _, k := range strings.Split(cfg, "+") {
		switch k {
		case "stats", "stats2":
			n := 1
			if k == "stats2" {
				n = 2
			}
			for i := 0; i < n; i++ {
				if !ownServer {
					o.ServerOpts = append(o.ServerOpts, goat.StatsHandler(&passiveSH{i}))
				}
				if !ownDial {
					o.DialOpts = append(o.DialOpts, goat.WithStatsHandler(&passiveSH{10 + i}))
				}
			}
		case "interceptors":
			if !ownServer {
				o.ServerOpts = append(o.ServerOpts, goat.UnaryInterceptor(passUnaryServer), goat.StreamInterceptor(passStreamServer))
			}
			if !ownDial {
				o.DialOpts = append(o.DialOpts, goat.WithUnaryInterceptor(passUnaryClient), goat.WithStreamInterceptor(passStreamClient))
			}
		case "chain":
			if !ownServer {
				o.ServerOpts = append(o.ServerOpts, goat.ChainUnaryInterceptor(passUnaryServer, passUnaryServer), goat.ChainStreamInterceptor(passStreamServer, passStreamServer))
			}
			if !ownDial {
				o.DialOpts = append(o.DialOpts, goat.WithUnaryInterceptor(passUnaryClient), goat.WithStreamInterceptor(passStreamClient))
			}
		case "services":
			services = []string{"verif.Sv", "verif.Svc0", "verif.Svc.Sub", "Svc", "verif"}
		case "serialize":
			o.Pipe.Serialize = !o.Pipe.Serialize
		case "demux":
			if !o.NoServer && !o.NoClient {
				o.Demux = true
			}
		case "via-proxy", "via-rewriting-proxy", "via-rewriting-proxy-nocallback":
			if !o.NoServer && !o.NoClient {
				o.ViaProxy = map[string]string{"via-proxy": "plain", "via-rewriting-proxy": "rewriting", "via-rewriting-proxy-nocallback": "rewriting-nocallback"}[k]
			}
		}
	}
	return o, services
}
