package env

import (
	"google.golang.org/protobuf/proto"

	"github.com/avos-io/goat/gen/goatorepo"
)

// Envelope builders for scripted peers.

func hdr(method, tag string) *goatorepo.RequestHeader {
	h := &goatorepo.RequestHeader{Method: method, Source: "cli", Destination: "srv"}
	if tag != "" {
		h.Headers = []*goatorepo.KeyValue{{Key: "tag", Value: tag}}
	}
	return h
}

func marshalMsg(data string) []byte {
	b, _ := proto.Marshal(S(data))
	return b
}

// ReqUnary is a well-formed unary request whose payload is "<tag>|<data>".
func ReqUnary(id uint64, tag, data string) *Rpc {
	return &Rpc{Id: id, Header: hdr(MUnary, ""), Body: &goatorepo.Body{Data: marshalMsg(tag + "|" + data)}}
}

func ReqOpen(id uint64, method, tag string) *Rpc { return &Rpc{Id: id, Header: hdr(method, tag)} }

func ReqBody(id uint64, method, data string) *Rpc {
	return &Rpc{Id: id, Header: hdr(method, ""), Body: &goatorepo.Body{Data: marshalMsg(data)}}
}

func ReqTrailer(id uint64, method string) *Rpc {
	return &Rpc{Id: id, Header: hdr(method, ""), Status: &goatorepo.ResponseStatus{Code: 0, Message: "OK"}, Trailer: &goatorepo.Trailer{}}
}

func ReqReset(id uint64, method string) *Rpc {
	return &Rpc{Id: id, Header: hdr(method, ""), Reset_: &goatorepo.Reset{Type: "RST_STREAM"}}
}

// Responses (server -> client), for scripted servers.
func rhdr(method string) *goatorepo.RequestHeader {
	return &goatorepo.RequestHeader{Method: method, Source: "srv", Destination: "cli"}
}

func RespBody(id uint64, method, data string) *Rpc {
	return &Rpc{Id: id, Header: rhdr(method), Body: &goatorepo.Body{Data: marshalMsg(data)}}
}

func RespTrailer(id uint64, method string, code int32, msg string) *Rpc {
	return &Rpc{Id: id, Header: rhdr(method), Status: &goatorepo.ResponseStatus{Code: code, Message: msg}, Trailer: &goatorepo.Trailer{}}
}

func RespUnary(id uint64, data string) *Rpc {
	return &Rpc{Id: id, Header: rhdr(MUnary), Body: &goatorepo.Body{Data: marshalMsg(data)}, Trailer: &goatorepo.Trailer{}}
}

func RespUnaryErr(id uint64, code int32, msg string) *Rpc {
	return &Rpc{Id: id, Header: rhdr(MUnary), Status: &goatorepo.ResponseStatus{Code: code, Message: msg}, Trailer: &goatorepo.Trailer{}}
}

func RespReset(id uint64, method string) *Rpc {
	return &Rpc{Id: id, Header: rhdr(method), Reset_: &goatorepo.Reset{Type: "RST_STREAM"}, Trailer: &goatorepo.Trailer{}}
}
