package env

import (
	"context"
	"io"

	"google.golang.org/grpc"
	"google.golang.org/protobuf/types/known/wrapperspb"
)

type Msg = wrapperspb.BytesValue

func B(b []byte) *Msg { return &wrapperspb.BytesValue{Value: b} }
func S(s string) *Msg { return &wrapperspb.BytesValue{Value: []byte(s)} }

const (
	MUnary   = "/verif.Svc/Unary"
	MBidi    = "/verif.Svc/Bidi"
	MSStream = "/verif.Svc/SStream"
	MCStream = "/verif.Svc/CStream"
)

var (
	BidiDesc    = grpc.StreamDesc{StreamName: "Bidi", ServerStreams: true, ClientStreams: true}
	SStreamDesc = grpc.StreamDesc{StreamName: "SStream", ServerStreams: true}
	CStreamDesc = grpc.StreamDesc{StreamName: "CStream", ClientStreams: true}
)

// SvcServer is what a scenario implements.
type SvcServer interface {
	Unary(ctx context.Context, in *Msg) (*Msg, error)
	Stream(kind string, ss grpc.ServerStream) error
}

// Svc adapts two funcs to SvcServer.
type Svc struct {
	UnaryFn  func(ctx context.Context, in *Msg) (*Msg, error)
	StreamFn func(kind string, ss grpc.ServerStream) error
}

func (s *Svc) Unary(ctx context.Context, in *Msg) (*Msg, error) { return s.UnaryFn(ctx, in) }
func (s *Svc) Stream(kind string, ss grpc.ServerStream) error   { return s.StreamFn(kind, ss) }

func unaryHandler(srv any, ctx context.Context, dec func(any) error, interceptor grpc.UnaryServerInterceptor) (any, error) {
	in := new(Msg)
	if err := dec(in); err != nil {
		return nil, err
	}
	if interceptor == nil {
		return srv.(SvcServer).Unary(ctx, in)
	}
	info := &grpc.UnaryServerInfo{Server: srv, FullMethod: MUnary}
	handler := func(ctx context.Context, req any) (any, error) {
		return srv.(SvcServer).Unary(ctx, req.(*Msg))
	}
	return interceptor(ctx, in, info, handler)
}

func streamHandler(kind string) grpc.StreamHandler {
	return func(srv any, ss grpc.ServerStream) error { return srv.(SvcServer).Stream(kind, ss) }
}

// ServiceDesc is the hand-written descriptor of verif.Svc.
var ServiceDesc = grpc.ServiceDesc{
	ServiceName: "verif.Svc",
	HandlerType: (*SvcServer)(nil),
	Methods:     []grpc.MethodDesc{{MethodName: "Unary", Handler: unaryHandler}},
	Streams: []grpc.StreamDesc{
		{StreamName: "Bidi", Handler: streamHandler("Bidi"), ServerStreams: true, ClientStreams: true},
		{StreamName: "SStream", Handler: streamHandler("SStream"), ServerStreams: true},
		{StreamName: "CStream", Handler: streamHandler("CStream"), ClientStreams: true},
	},
	Metadata: "verif",
}

// RecvAll reads messages until an error; returns payloads and the terminal error.
func RecvAll(recv func(any) error) ([]string, error) {
	var out []string
	for {
		m := new(Msg)
		if err := recv(m); err != nil {
			return out, err
		}
		out = append(out, string(m.Value))
	}
}

var _ = io.EOF
