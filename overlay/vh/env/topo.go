package env

import (
	"context"

	goat "github.com/avos-io/goat"
	"github.com/avos-io/goat/vrt/vsched"
)

// Direct is client --pipe-- server.
type Direct struct {
	Tap       *Tap
	Pipe      *Pipe
	CC        *goat.ClientConn
	Srv       *goat.Server
	ServeDone bool
	ServeErr  error
	ServeCtx  context.Context
	StopServe context.CancelFunc
}

type DirectOpts struct {
	Pipe       PipeOpts
	ServerOpts []goat.ServerOption
	DialOpts   []goat.DialOption
	NoClient   bool
	NoServer   bool
}

// NewDirect builds the topology; the server's Serve runs in its own thread.
func NewDirect(impl SvcServer, o DirectOpts) *Direct {
	d := &Direct{Tap: &Tap{}}
	if o.Pipe.Name == "" {
		o.Pipe.Name = "w"
	}
	d.Pipe = NewPipe(d.Tap, o.Pipe)
	if !o.NoServer {
		d.Srv = goat.NewServer("srv", o.ServerOpts...)
		d.Srv.RegisterService(&ServiceDesc, impl)
		d.ServeCtx, d.StopServe = context.WithCancel(context.Background())
		vsched.GoNamed("serve", func() {
			d.ServeErr = d.Srv.Serve(d.ServeCtx, d.Pipe.B)
			d.ServeDone = true
		})
	}
	if !o.NoClient {
		d.CC = goat.NewClientConn(d.Pipe.A, "cli", "srv", o.DialOpts...)
	}
	return d
}
