package env

import (
	"context"
	"fmt"
	"github.com/avos-io/goat/gen/goatorepo"
	"time"

	goat "github.com/avos-io/goat"
	"github.com/avos-io/goat/vrt/vsched"
)

// Direct is client --pipe-- server.
type Direct struct {
	Tap         *Tap
	Pipe        *Pipe
	CC          *goat.ClientConn
	Srv         *goat.Server
	ServeDone   bool
	ServeErr    error
	ServeCtx    context.Context
	StopServe   context.CancelFunc
	Demux       *goat.Demux
	Virtual     bool // the client's pipe does not end at the server (a demultiplexer or a proxy is in between)
	Proxy       *goat.Proxy
	Link        *Pipe // proxy -- server link (ViaProxy)
	Rewriting   bool  // the proxy in between translates the name the client dials: on the client's pipe requests and responses carry different names by design
	Disconnects []string
}

type DirectOpts struct {
	Pipe         PipeOpts
	ServerOpts   []goat.ServerOption
	DialOpts     []goat.DialOption
	NoClient     bool
	NoServer     bool
	ServeTimeout time.Duration // >0: the context handed to Serve has this deadline (bounding the connection's lifetime)
	Demux        bool          // client --pipe-- Demux(by source) -- one Serve per logical connection
	ViaProxy     string        // "plain" | "rewriting" | "rewriting-nocallback": client --pipe-- Proxy --link-- Demux(by source) -- Serve; with "rewriting" the client dials a name the proxy's address-rewriting callback translates
}

// NewDirect builds the topology; the server's Serve runs in its own thread.
func NewDirect(impl SvcServer, o DirectOpts) *Direct {
	d := &Direct{Tap: &Tap{}}
	var decoys []string
	if Config != "" {
		o, decoys = applyConfig(o, Config)
		Config = ""
	}
	if o.Pipe.Name == "" {
		o.Pipe.Name = "w"
	}
	d.Pipe = NewPipe(d.Tap, o.Pipe)
	if !o.NoServer {
		d.Srv = goat.NewServer("srv", o.ServerOpts...)
		w0, _ := impl.(*World)
		for i, n := range decoys {
			if i%2 == 0 {
				d.Srv.RegisterService(decoyDesc(n), &decoy{n, w0}) // some before, some after the real one
			}
		}
		d.Srv.RegisterService(&ServiceDesc, impl)
		for i, n := range decoys {
			if i%2 == 1 {
				d.Srv.RegisterService(decoyDesc(n), &decoy{n, w0})
			}
		}
		d.ServeCtx, d.StopServe = context.WithCancel(context.Background())
		if o.ServeTimeout > 0 {
			d.ServeCtx, d.StopServe = context.WithTimeout(context.Background(), o.ServeTimeout)
		}
		if o.ViaProxy != "" {
			d.Virtual = true
			d.Link = NewPipe(d.Tap, PipeOpts{Name: "srvlink", Cap: o.Pipe.Cap, Serialize: o.Pipe.Serialize})
			var ic goat.RpcIntercepter
			if o.ViaProxy != "plain" {
				d.Rewriting = true
				ic = func(h *goatorepo.RequestHeader) error {
					if h.Destination == "svc-by-name" {
						h.Destination = "srv"
					}
					return nil
				}
			}
			var cb goat.ClientDisconnect
			if o.ViaProxy != "rewriting-nocallback" {
				cb = func(id string, reason error) { d.Disconnects = append(d.Disconnects, id) }
			}
			d.Proxy = goat.NewProxy(d.ServeCtx, "proxy", func(id string) (goat.RpcReadWriter, error) {
				if id == "srv" {
					return d.Link.A, nil
				}
				return nil, ErrClosed
			}, ic, cb)
			d.Proxy.AddClient("cli", d.Pipe.B)
			d.Demux = goat.NewDemux(d.ServeCtx, d.Link.B, func(r *Rpc) string { return r.GetHeader().GetSource() }, func(rw goat.RpcReadWriter) {
				d.ServeErr = d.Srv.Serve(d.ServeCtx, rw)
				d.ServeDone = true
			})
			vsched.GoNamed("demux", func() { d.Demux.Run() })
			vsched.GoNamed("proxy", func() { d.Proxy.Serve() })
		} else if o.Demux {
			d.Virtual = true
			d.Demux = goat.NewDemux(d.ServeCtx, d.Pipe.B, func(r *Rpc) string { return r.GetHeader().GetSource() }, func(rw goat.RpcReadWriter) {
				d.ServeErr = d.Srv.Serve(d.ServeCtx, rw)
				d.ServeDone = true
			})
			vsched.GoNamed("demux", func() { d.Demux.Run() })
		} else {
			vsched.GoNamed("serve", func() {
				d.ServeErr = d.Srv.Serve(d.ServeCtx, d.Pipe.B)
				d.ServeDone = true
			})
		}
	}
	if !o.NoClient {
		dest := "srv"
		if o.ViaProxy != "" && o.ViaProxy != "plain" {
			dest = "svc-by-name"
		}
		d.CC = goat.NewClientConn(d.Pipe.A, "cli", dest, o.DialOpts...)
	}
	if Preamble != "" {
		k := Preamble
		Preamble = ""
		runPreamble(d, impl, k)
	}
	return d
}

// ProxyTopo is clients -- proxy -- demux(by source) -- one Serve per client.
type ProxyTopo struct {
	Tap          *Tap
	Proxy        *goat.Proxy
	Ctx          context.Context
	Cancel       context.CancelFunc
	CPipes       []*Pipe
	CCs          []*goat.ClientConn
	SPipe        *Pipe
	Demux        *goat.Demux
	Srv          *goat.Server
	Disconnects  []string
	OnDisconnect func(id string) // called from the proxy's disconnect callback (e.g. a reconnect policy)
	Dialed       []string
	ProxyDone    bool
	DemuxDone    bool
	Serves       int
	ServesDone   int
	DialErr      map[string]error
	Extra        map[string]*Pipe         // further dialable raw peers by name (proxy side = A)
	SlowDial     map[string]chan struct{} // dialling these names blocks until the channel is closed
	moreServers  map[string]*Pipe
	gens         []*Pipe
	HasCallback  bool
}

type ProxyOpts struct {
	Clients     int
	PreAttach   bool // server attached with AddClient instead of dialled on demand
	Cap         int
	Intercept   goat.RpcIntercepter
	NoServer    bool
	NoGoatPeers bool // raw pipes only: clients are scripted (CCs stay nil)
	NoCallback  bool // the proxy is built without a disconnect callback (nil)
	NoDemux     bool // the server serves the proxy link directly (one connection for all clients: fine for unary calls; streams of different clients would share the id space)
	Servers     int  // >1: further servers "srv1", "srv2", ... (own transport, Demux and Server object each); client i talks to server i % Servers
}

func NewProxyTopo(impl SvcServer, o ProxyOpts) *ProxyTopo {
	t := &ProxyTopo{Tap: &Tap{}, DialErr: map[string]error{}, Extra: map[string]*Pipe{}}
	t.Ctx, t.Cancel = context.WithCancel(context.Background())
	t.SPipe = NewPipe(t.Tap, PipeOpts{Name: "srv", Cap: o.Cap})
	dial := func(id string) (goat.RpcReadWriter, error) {
		if t.HasCallback {
			// the proxy dials a name again only after the connection it had under that name has gone - and the
			// application has been told so: a report that arrives after the replacement is up describes the wrong connection
			dials, reports := 0, 0
			for _, x := range t.Dialed {
				if x == id {
					dials++
				}
			}
			for _, x := range t.Disconnects {
				if x == id {
					reports++
				}
			}
			if reports < dials {
				vsched.Fail("C17/order|redial-before-report", "the proxy dials %q for the %d. time but only %d of its earlier connections under that name have been reported to the disconnect callback (dialled %v, reported %v)", id, dials+1, reports, t.Dialed, t.Disconnects)
			}
		}
		t.Dialed = append(t.Dialed, id)
		if ch := t.SlowDial[id]; ch != nil {
			<-ch
		}
		if err := t.DialErr[id]; err != nil {
			return nil, err
		}
		if id == "srv" && !o.NoServer {
			return t.SPipe.A, nil
		}
		if p := t.Extra[id]; p != nil {
			return p.A, nil
		}
		if p := t.moreServers[id]; p != nil {
			return p.A, nil
		}
		return nil, ErrClosed
	}
	var cb goat.ClientDisconnect
	if !o.NoCallback && !ProxyNoCallback {
		t.HasCallback = true
		cb = func(id string, reason error) {
			t.Disconnects = append(t.Disconnects, id)
			if t.OnDisconnect != nil {
				t.OnDisconnect(id)
			}
		}
	}
	ProxyNoCallback = false
	t.Proxy = goat.NewProxy(t.Ctx, "proxy", dial, o.Intercept, cb)
	if !o.NoServer {
		t.Srv = goat.NewServer("srv")
		t.Srv.RegisterService(&ServiceDesc, impl)
		if o.NoDemux {
			vsched.GoNamed("serve", func() {
				t.Serves++
				t.Srv.Serve(t.Ctx, t.SPipe.B)
				t.ServesDone++
			})
		} else {
			t.Demux = goat.NewDemux(t.Ctx, t.SPipe.B, func(r *Rpc) string { return r.GetHeader().GetSource() }, func(rw goat.RpcReadWriter) {
				t.Serves++
				t.Srv.Serve(t.Ctx, rw)
				t.ServesDone++
			})
			vsched.GoNamed("demux", func() { t.Demux.Run(); t.DemuxDone = true })
		}
		if o.PreAttach {
			t.Proxy.AddClient("srv", t.SPipe.A)
		}
	}
	t.moreServers = map[string]*Pipe{}
	for k := 1; k < o.Servers && !o.NoServer; k++ {
		sname := fmt.Sprintf("srv%d", k)
		sp := NewPipe(t.Tap, PipeOpts{Name: sname, Cap: o.Cap})
		t.moreServers[sname] = sp
		srv := goat.NewServer(sname)
		srv.RegisterService(&ServiceDesc, impl)
		dm := goat.NewDemux(t.Ctx, sp.B, func(r *Rpc) string { return r.GetHeader().GetSource() }, func(rw goat.RpcReadWriter) {
			t.Serves++
			srv.Serve(t.Ctx, rw)
			t.ServesDone++
		})
		vsched.GoNamed("demux-"+sname, func() { dm.Run() })
		if o.PreAttach {
			t.Proxy.AddClient(sname, sp.A)
		}
	}
	for i := 0; i < o.Clients; i++ {
		name := fmt.Sprintf("cli%d", i)
		p := NewPipe(t.Tap, PipeOpts{Name: name, Cap: o.Cap})
		t.CPipes = append(t.CPipes, p)
		t.Proxy.AddClient(name, p.B)
		dest := "srv"
		if o.Servers > 1 && i%o.Servers > 0 {
			dest = fmt.Sprintf("srv%d", i%o.Servers)
		}
		if !o.NoGoatPeers {
			t.CCs = append(t.CCs, goat.NewClientConn(p.A, name, dest))
		}
	}
	vsched.GoNamed("proxy", func() { t.Proxy.Serve(); t.ProxyDone = true })
	return t
}

// ReattachServer: the server comes back on a new link under its old name while the proxy's end
// of the old link has not failed (half-open): a new Demux and Serve on the new link, attached
// with AddClient. The old link's server side stops reading (its Demux is stopped).
func (t *ProxyTopo) ReattachServer(capn int) *Pipe {
	if t.Demux != nil {
		t.Demux.Stop()
	}
	np := NewPipe(t.Tap, PipeOpts{Name: fmt.Sprintf("srv-gen%d", len(t.gens)+2), Cap: capn})
	t.gens = append(t.gens, np)
	dm := goat.NewDemux(t.Ctx, np.B, func(r *Rpc) string { return r.GetHeader().GetSource() }, func(rw goat.RpcReadWriter) {
		t.Serves++
		t.Srv.Serve(t.Ctx, rw)
		t.ServesDone++
	})
	t.Demux = dm
	vsched.GoNamed("demux-"+np.Opts.Name, func() { dm.Run() })
	t.Proxy.AddClient("srv", np.A)
	return np
}

// ProxyNoCallback makes the next NewProxyTopo build its proxy without a disconnect callback.
var ProxyNoCallback bool
