// Package env is the closed environment goat runs in during exploration: a
// reliable ordered in-memory transport with a wire tap and fault plan, a
// scriptable gRPC service, and topologies.  It is instrumented like goat.
package env

import (
	"context"
	"errors"
	"fmt"

	"github.com/rs/zerolog"
	"google.golang.org/protobuf/proto"

	"github.com/avos-io/goat/gen/goatorepo"
	"github.com/avos-io/goat/vrt/vctx"
	"github.com/avos-io/goat/vrt/vsched"
)

func init() { zerolog.SetGlobalLevel(zerolog.Disabled) }

type Rpc = goatorepo.Rpc

var (
	ErrReadFault  = errors.New("env: injected transport read failure")
	ErrWriteFault = errors.New("env: injected transport write failure")
	ErrClosed     = errors.New("env: transport closed")
)

// TapEvent is one envelope seen on a wire.
type TapEvent struct {
	Seq  int
	Wire string // pipe name
	Dir  string // "a2b" or "b2a"
	Rpc  *Rpc   // private copy
}

// Tap records every envelope accepted by any pipe of the execution.
type Tap struct {
	Events []TapEvent
	// LostOn: ids of which an envelope was dropped in transit by a scenario's fault plan, and the
	// wire it was dropped on. Such an id is judged on that wire only (where the emission is
	// recorded): further downstream the history has a hole the scenario itself made.
	LostOn map[uint64]string
}

func (t *Tap) Dir(wire, dir string) []*Rpc {
	var out []*Rpc
	for _, e := range t.Events {
		if e.Wire == wire && e.Dir == dir {
			out = append(out, e.Rpc)
		}
	}
	return out
}

// PipeOpts configures a pipe.
type PipeOpts struct {
	Name      string
	Cap       int  // queue capacity per direction; 0 = rendezvous
	Serialize bool // marshal/unmarshal on the way through (else the same pointer is delivered)
	CtxRace   bool // true: like goat's channel transport, a done ctx only competes with the queue
}

// Pipe is a bidirectional reliable ordered transport.
type Pipe struct {
	Opts PipeOpts
	Tap  *Tap
	A, B *End
	// OnEvent runs inline, in the thread that put the n-th envelope (1-based,
	// both directions counted together) on this wire.
	OnEvent func(n int, dir string, rpc *Rpc)
	nEvents int
}

// End is one side of a pipe; it implements goat.RpcReadWriter.
type End struct {
	p    *Pipe
	dir  string // direction of writes from this end
	in   chan *Rpc
	out  chan *Rpc
	brk  chan struct{}
	down bool

	NRead, NWritten int
	// fault plan
	ReadFailAfter      int   // >=0: Read fails once this many envelopes were delivered
	ReadFailErr        error // the error the failing Read returns (nil: ErrReadFault); real transports fail with io.EOF, wrapped errors, ...
	WriteFailAt        int   // >=0: the k-th Write (0-based) and all later ones fail
	WriteFailErr       error // the error a Write refused by WriteFailAt / FailNextWrites returns (nil: ErrWriteFault); real transports report wrapped context errors, io errors, ...
	DropWriteAt        int   // the k-th envelope written on this end is accepted and silently lost (-1: none)
	DeliverThenFailAt  int   // the k-th envelope written on this end IS delivered, but the Write reports an error (-1: none)
	FailNextWrites     int   // the next n Writes fail (then the plan continues)
	WriteFailsWithRead bool  // once a Read has failed by plan, Writes fail too
	ReadFailed         bool
	WriteFaulted       bool // a Write call was refused by WriteFailAt
	// hooks run inline in the calling thread
	readBrk  chan struct{}
	readDown bool
	// HoldIf: a Write call for which it returns true stays inside the transport (it does not see
	// its context end: a kernel buffer, a peer that has stopped reading) until ReleaseHeld; it
	// then fails (ReleaseHeld(true)) or goes on normally. Holding counts the calls held now.
	HoldIf      func(k int, rpc *Rpc) bool
	Holding     int
	holdGate    chan struct{}
	holdFail    bool
	OnWrite     func(k int, rpc *Rpc) // before the k-th envelope is enqueued
	OnWriteCall func(k int, rpc *Rpc) // at the start of every Write call, before any injected failure
	OnRead      func(k int, rpc *Rpc) // after the k-th envelope was dequeued
}

func NewPipe(tap *Tap, o PipeOpts) *Pipe {
	if o.Name == "" {
		o.Name = fmt.Sprintf("pipe%d", vsched.NextObjID())
	}
	ab := make(chan *Rpc, o.Cap)
	ba := make(chan *Rpc, o.Cap)
	p := &Pipe{Opts: o, Tap: tap}
	p.A = &End{p: p, dir: "a2b", in: ba, out: ab, brk: make(chan struct{}), readBrk: make(chan struct{}), ReadFailAfter: -1, WriteFailAt: -1, DropWriteAt: -1, DeliverThenFailAt: -1}
	p.B = &End{p: p, dir: "b2a", in: ab, out: ba, brk: make(chan struct{}), readBrk: make(chan struct{}), ReadFailAfter: -1, WriteFailAt: -1, DropWriteAt: -1, DeliverThenFailAt: -1}
	return p
}

func (p *Pipe) tap(dir string, rpc *Rpc) {
	p.nEvents++
	if p.OnEvent != nil {
		defer p.OnEvent(p.nEvents, dir, rpc)
	}
	if p.Tap != nil {
		p.Tap.Events = append(p.Tap.Events, TapEvent{Seq: len(p.Tap.Events), Wire: p.Opts.Name, Dir: dir, Rpc: proto.Clone(rpc).(*Rpc)})
	}
}

// Queued is the number of envelopes sitting in the queue of a direction.
func (p *Pipe) Queued(dir string) int {
	if dir == "a2b" {
		return len(p.A.out)
	}
	return len(p.B.out)
}

// Break makes this end's pending and future Reads and Writes fail (the
// transport went away).
func (e *End) Break() {
	if !e.down {
		e.down = true
		close(e.brk)
	}
}

func (e *End) readErr() error {
	if e.ReadFailErr != nil {
		return e.ReadFailErr
	}
	return ErrReadFault
}

// ReleaseHeld lets the Write calls held by HoldIf go on: they fail if fail is set, else proceed.
func (e *End) ReleaseHeld(fail bool) {
	e.holdFail = fail
	if e.holdGate != nil {
		close(e.holdGate)
		e.holdGate = nil
	}
}

// FailReads makes the pending Read (if any) and every later Read of this end fail, at the
// moment the scenario decides; the write direction is unaffected.
func (e *End) FailReads() {
	if !e.readDown {
		e.readDown = true
		close(e.readBrk)
	}
}

func (e *End) Read(ctx context.Context) (*Rpc, error) {
	if e.ReadFailAfter >= 0 && e.NRead >= e.ReadFailAfter {
		e.ReadFailed = true
		if e.ReadFailErr != nil {
			return nil, e.ReadFailErr
		}
		return nil, ErrReadFault
	}
	if e.down {
		return nil, ErrClosed
	}
	if e.readDown {
		e.ReadFailed = true
		return nil, e.readErr()
	}
	if !e.p.Opts.CtxRace && vctx.IsDone(ctx) {
		return nil, vctx.RawErr(ctx)
	}
	select {
	case <-e.readBrk:
		e.ReadFailed = true
		return nil, e.readErr()
	case rpc := <-e.in:
		k := e.NRead
		e.NRead++
		if e.p.Opts.Cap == 0 {
			// rendezvous: the dequeue order is the wire order
			if e.dir == "a2b" {
				e.p.tap("b2a", rpc)
			} else {
				e.p.tap("a2b", rpc)
			}
		}
		if e.OnRead != nil {
			e.OnRead(k, rpc)
		}
		return rpc, nil
	case <-ctx.Done():
		return nil, vctx.RawErr(ctx)
	case <-e.brk:
		return nil, ErrClosed
	}
}

func (e *End) Write(ctx context.Context, rpc *Rpc) error {
	k := e.NWritten
	if e.OnWriteCall != nil {
		e.OnWriteCall(k, rpc)
	}
	if e.HoldIf != nil && e.HoldIf(k, rpc) {
		if e.holdGate == nil {
			e.holdGate = make(chan struct{})
		}
		g := e.holdGate
		e.Holding++
		<-g
		e.Holding--
		if e.holdFail {
			return ErrWriteFault
		}
	}
	if e.WriteFailAt >= 0 && k >= e.WriteFailAt {
		e.WriteFaulted = true
		if e.WriteFailErr != nil {
			return e.WriteFailErr
		}
		return ErrWriteFault
	}
	if e.WriteFailsWithRead && e.ReadFailed {
		return ErrWriteFault
	}
	if e.FailNextWrites > 0 {
		e.FailNextWrites--
		if e.WriteFailErr != nil {
			return e.WriteFailErr
		}
		return ErrWriteFault
	}
	if e.down {
		return ErrClosed
	}
	if !e.p.Opts.CtxRace && vctx.IsDone(ctx) {
		return vctx.RawErr(ctx)
	}
	if e.OnWrite != nil {
		e.OnWrite(k, rpc)
	}
	if e.DropWriteAt >= 0 && k == e.DropWriteAt {
		e.NWritten++
		e.p.tap(e.dir, rpc) // the writer did emit it (the wire automaton judges emissions); it is lost in transit
		if e.p.Tap != nil {
			if e.p.Tap.LostOn == nil {
				e.p.Tap.LostOn = map[uint64]string{}
			}
			e.p.Tap.LostOn[rpc.GetId()] = e.p.Opts.Name
		}
		return nil
	}
	msg := rpc
	if e.p.Opts.Serialize {
		b, err := proto.Marshal(rpc)
		if err != nil {
			return err
		}
		msg = new(Rpc)
		if err := proto.Unmarshal(b, msg); err != nil {
			return err
		}
	}
	select {
	case e.out <- msg:
		e.NWritten++
		if e.p.Opts.Cap > 0 {
			e.p.tap(e.dir, rpc)
		}
		if e.DeliverThenFailAt >= 0 && k == e.DeliverThenFailAt {
			return ErrWriteFault
		}
		return nil
	case <-ctx.Done():
		return vctx.RawErr(ctx)
	case <-e.brk:
		return ErrClosed
	}
}

// Inject puts an envelope into this end's outgoing queue as a scripted peer
// would (blocking like a Write with a background context).
func (e *End) Inject(rpc *Rpc) error { return e.Write(context.Background(), rpc) }
