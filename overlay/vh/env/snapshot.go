package env

import (
	"context"
	"fmt"
	"reflect"
	"sort"
	"strings"
	"unsafe"

	"github.com/avos-io/goat/vrt/vctx"
	"github.com/avos-io/goat/vrt/vsched"
)

var (
	errType = reflect.TypeOf((*error)(nil)).Elem()
	ctxType = reflect.TypeOf((*context.Context)(nil)).Elem()
)

// Snapshot is a generic, field-name-agnostic summary of the state reachable
// from a goat object: the length of every map, channel and slice, nil-ness of
// every error, done-ness of every context, lockedness of every mutex.  Plain
// numbers are left out (ids are opaque).
func Snapshot(root any) []string {
	var out []string
	seen := map[unsafe.Pointer]bool{}
	var walk func(v reflect.Value, path string, depth int)
	walk = func(v reflect.Value, path string, depth int) {
		if depth > 6 || !v.IsValid() {
			return
		}
		t := v.Type()
		switch {
		case t.Implements(errType) && t.Kind() == reflect.Interface:
			out = append(out, fmt.Sprintf("%s:err-nil=%v", path, v.IsNil()))
			return
		case t == ctxType:
			if !v.IsNil() {
				out = append(out, fmt.Sprintf("%s:ctx-done=%v", path, vctx.IsDone(v.Interface().(context.Context))))
			}
			return
		}
		switch v.Kind() {
		case reflect.Ptr:
			if v.IsNil() {
				return
			}
			p := v.UnsafePointer()
			if seen[p] {
				return
			}
			seen[p] = true
			walk(v.Elem(), path, depth+1)
		case reflect.Interface:
			if v.IsNil() {
				return
			}
			walk(v.Elem(), path, depth+1)
		case reflect.Map:
			out = append(out, fmt.Sprintf("%s:map-len=%d", path, v.Len()))
		case reflect.Chan:
			if !v.IsNil() {
				out = append(out, fmt.Sprintf("%s:chan-len=%d", path, v.Len()))
			}
		case reflect.Slice:
			if t.Elem().Kind() != reflect.Uint8 {
				out = append(out, fmt.Sprintf("%s:slice-len=%d", path, v.Len()))
			}
		case reflect.Struct:
			pp := t.PkgPath()
			if t == reflect.TypeOf(vsched.Mutex{}) {
				out = append(out, fmt.Sprintf("%s:mutex=%v", path, v.Field(0).Bool()))
				return
			}
			if !strings.HasPrefix(pp, "github.com/avos-io/goat") || strings.Contains(pp, "/vh/") || strings.Contains(pp, "/gen/") || strings.Contains(pp, "/vrt/") {
				return
			}
			if !v.CanAddr() {
				return
			}
			for i := 0; i < t.NumField(); i++ {
				f := v.Field(i)
				f = reflect.NewAt(f.Type(), unsafe.Pointer(f.UnsafeAddr())).Elem()
				walk(f, path+"."+fmt.Sprint(i), depth+1)
			}
		}
	}
	walk(reflect.ValueOf(root), reflect.TypeOf(root).String(), 0)
	sort.Strings(out)
	return out
}

// ThreadProfile is the multiset of live threads as (spawn site, parked op, park site).
func ThreadProfile() []string {
	var out []string
	for _, t := range vsched.Threads() {
		out = append(out, fmt.Sprintf("%s/%s/%s@%s", t.Name, t.SpawnSite, t.Op, t.Site))
	}
	sort.Strings(out)
	return out
}
