package env

import (
	"context"
	"errors"

	"github.com/avos-io/goat/vrt/vsched"
	"google.golang.org/grpc"
	"google.golang.org/grpc/codes"
	"google.golang.org/grpc/status"
)

// Preamble, when set, makes the next NewDirect run a short history on the fresh connection
// before it returns (under the default schedule, not explored): the scenario that follows then
// starts from the state ordinary use reaches after that history instead of from a new object.
//
//	unary-ok      a unary call that succeeds
//	unary-herr    a unary call whose handler fails
//	unary-cancel  a unary call cancelled while its handler runs
//	stream-ok     a bidi stream that completes
//	stream-cancel a bidi stream cancelled by its caller after one exchange
//	stream-herr   a bidi stream whose handler fails after one message
//	stream-reset  a bidi stream the server resets (its opening envelope is lost)
//	write-fail    a unary call whose request write fails in the transport
//	close         ClientConn.Close() was called (the documented effect: the stats handlers are told)
//	mixed         all of the above, one after the other
var Preamble string

var PreambleKinds = []string{"unary-ok", "unary-herr", "unary-cancel", "stream-ok", "stream-cancel", "stream-herr", "stream-reset", "write-fail", "close", "mixed"}

var preN int

func runPreamble(d *Direct, impl SvcServer, kind string) {
	w, ok := impl.(*World)
	if !ok || d.CC == nil || d.Srv == nil {
		return
	}
	was := vsched.Exploring()
	vsched.Explore(false)
	defer vsched.Explore(was)
	vsched.Settle()
	kinds := []string{kind}
	if kind == "mixed" {
		kinds = PreambleKinds[:len(PreambleKinds)-1]
	}
	for _, k := range kinds {
		preN++
		tag := "pre" + k
		if kind == "mixed" {
			tag = "prem-" + k
		}
		if k == "close" {
			d.CC.Close()
			vsched.Settle()
			continue
		}
		switch k {
		case "unary-ok", "unary-herr", "unary-cancel", "write-fail":
			r := w.Rec(tag, "Unary")
			ctx, cancel := context.WithCancel(context.Background())
			switch k {
			case "unary-herr":
				w.Unaries[tag] = func(r *Rec, hctx context.Context, in string) (string, error) {
					return "", status.Error(codes.Aborted, "earlier failure")
				}
			case "unary-cancel":
				w.Unaries[tag] = func(r *Rec, hctx context.Context, in string) (string, error) {
					cancel()
					return "late", nil
				}
			case "write-fail":
				d.Pipe.A.FailNextWrites = 1
			}
			vsched.GoNamed("history-"+tag, func() { w.CallUnary(d.CC, ctx, r, "x") })
			vsched.Settle()
			cancel()
		default:
			r := w.Rec(tag, "Bidi")
			ctx, cancel := context.WithCancel(context.Background())
			switch k {
			case "stream-herr":
				w.Handlers[tag] = HReturnAfter(1, status.Error(codes.FailedPrecondition, "earlier failure"))
			case "stream-reset":
				d.Pipe.A.DropWriteAt = d.Pipe.A.NWritten
			case "stream-cancel":
				w.Handlers[tag] = func(r *Rec, ss grpc.ServerStream) error {
					HEcho(r, ss)
					return errors.New("cancelled")
				}
			}
			vsched.GoNamed("history-"+tag, func() {
				defer func() { r.CDone = true }()
				cs := w.Open(d.CC, ctx, r)
				if cs == nil {
					return
				}
				switch k {
				case "stream-ok":
					PPingPong(2)(r, cs)
				case "stream-cancel":
					CSend(r, cs, "h0")
					CRecvOne(r, cs)
					cancel()
					CRecvOne(r, cs)
				default:
					CSend(r, cs, "h0")
					CRecvAll(r, cs)
				}
			})
			vsched.Settle()
			cancel()
			vsched.Settle()
			d.Pipe.A.DropWriteAt = -1
		}
	}
	vsched.Settle()
	for _, k := range kinds {
		tag := "pre" + k
		if kind == "mixed" {
			tag = "prem-" + k
		}
		if r := w.Recs[tag]; r != nil {
			vsched.Obs("history %s: done=%v err=%s handler-starts=%d", k, r.CDone, ErrStr(r.CErr), r.HStarts)
			if !r.CDone {
				panic("harness: the history preamble " + k + " did not run to completion")
			}
			want := map[string]bool{"unary-ok": false, "stream-ok": false}
			if _, okKind := want[k]; okKind && r.CErr != nil && r.CErr.Error() != "EOF" {
				panic("harness: the history preamble " + k + " failed: " + r.CErr.Error())
			}
			if !okKind(k) && (r.CErr == nil || r.CErr.Error() == "EOF") && k != "unary-cancel" {
				panic("harness: the history preamble " + k + " was meant to fail but did not")
			}
		}
	}
}

func okKind(k string) bool { return k == "unary-ok" || k == "stream-ok" }
