package env

import (
	"context"
	"fmt"
	"io"
	"strings"

	"google.golang.org/grpc"
	"google.golang.org/grpc/codes"
	"google.golang.org/grpc/metadata"
	"google.golang.org/grpc/status"
)

// Rec is everything observed about one RPC, on both sides.
type Rec struct {
	Tag  string
	Kind string // Unary, Bidi, SStream, CStream

	// caller side
	CSent     []string
	CSendErrs []string // error of each failed SendMsg/CloseSend, in order
	CClosed   bool
	CRecv     []string
	CErr      error // terminal error of the receive side (io.EOF = clean end); for unary: Invoke's error
	CDone     bool  // the client program ran to its end
	Runaway   bool  // RecvMsg returned nil thousands of times: it reports success without data
	COpenErr  error
	CHeader   metadata.MD
	CHeaderOK bool
	CTrailer  metadata.MD
	CReply    string // unary
	CStream   grpc.ClientStream
	Cancel    context.CancelFunc
	CLog      []string // ordered log of caller-side results after a marker (C07)

	// handler side
	HStarts   int
	HReq      []string // every request payload seen by a handler invocation (unary)
	HRecv     []string
	HRecvErr  error // terminal error seen by the handler's receive side
	HSent     []string
	HSendErr  error
	HRet      error
	HReturned bool
	HCtx      context.Context
	HMD       metadata.MD
	hTarget   *Msg
	cTarget   *Msg
}

// World is the scripted service plus the book-keeping shared with oracles.
type World struct {
	Recs     map[string]*Rec
	Order    []string
	Handlers map[string]func(r *Rec, ss grpc.ServerStream) error
	Unaries  map[string]func(r *Rec, ctx context.Context, in string) (string, error)
	Stray    []string // handler invocations whose tag is unknown
}

func NewWorld() *World {
	return &World{Recs: map[string]*Rec{}, Handlers: map[string]func(*Rec, grpc.ServerStream) error{},
		Unaries: map[string]func(*Rec, context.Context, string) (string, error){}}
}

func (w *World) Rec(tag, kind string) *Rec {
	r := w.Recs[tag]
	if r == nil {
		r = &Rec{Tag: tag, Kind: kind}
		w.Recs[tag] = r
		w.Order = append(w.Order, tag)
	}
	return r
}

func tagOf(ctx context.Context) string {
	md, _ := metadata.FromIncomingContext(ctx)
	if v := md.Get("tag"); len(v) > 0 {
		return v[0]
	}
	return ""
}

// Unary implements SvcServer: the request payload is "<tag>|<data>".
func (w *World) Unary(ctx context.Context, in *Msg) (*Msg, error) {
	s := string(in.Value)
	tag := s
	if i := strings.IndexByte(s, '|'); i >= 0 {
		tag = s[:i]
	}
	r := w.Recs[tag]
	if r == nil {
		w.Stray = append(w.Stray, "unary:"+s)
		return S("stray"), nil
	}
	if r.Kind != "Unary" {
		vsched.Fail("dispatch|wrong-method", "call %s was made to method %s, the server ran the unary handler", tag, r.Kind)
	}
	r.HStarts++
	r.HReq = append(r.HReq, s)
	r.HCtx = ctx
	r.HMD, _ = metadata.FromIncomingContext(ctx)
	fn := w.Unaries[tag]
	if fn == nil {
		fn = func(r *Rec, ctx context.Context, in string) (string, error) { return "R:" + in, nil }
	}
	out, err := fn(r, ctx, s)
	r.HRet = err
	r.HReturned = true
	if err != nil {
		return nil, err
	}
	if out == NilReply {
		return nil, nil // a handler may return no reply object at all with a nil error: an empty reply
	}
	return S(out), nil
}

// NilReply: a Unaries function returning this makes the service return (nil, nil).
const NilReply = "\x00nil-reply"

// Stream implements SvcServer.
func (w *World) Stream(kind string, ss grpc.ServerStream) error {
	tag := tagOf(ss.Context())
	r := w.Recs[tag]
	if r == nil {
		// a handler invocation nobody asked for: behave like an ordinary handler
		// that reads its stream to the end (so that it shows up as held state)
		w.Stray = append(w.Stray, "stream:"+kind+":"+tag)
		for {
			if err := ss.RecvMsg(new(Msg)); err != nil {
				if err == io.EOF {
					return nil
				}
				return err
			}
		}
	}
	if r.Kind != kind {
		// the handler of another method was invoked for this call (the tag travels with the call's
		// metadata, the kind with the method the server dispatched to)
		vsched.Fail("dispatch|wrong-method", "call %s was made to method %s, the server ran the handler of method %s", tag, r.Kind, kind)
	}
	r.HStarts++
	r.HCtx = ss.Context()
	r.HMD, _ = metadata.FromIncomingContext(ss.Context())
	h := w.Handlers[tag]
	if h == nil {
		h = HEcho
	}
	err := h(r, ss)
	r.HRet = err
	r.HReturned = true
	return err
}

// ---------------------------------------------------------------- handler programs

func hRecv(r *Rec, ss grpc.ServerStream) (string, error) {
	// one receive target per handler invocation, reused for every message (a hand-written
	// receive loop): a message must fully replace what the previous one left in it
	if r.hTarget == nil {
		r.hTarget = new(Msg)
	}
	m := r.hTarget
	if err := ss.RecvMsg(m); err != nil {
		r.HRecvErr = err
		return "", err
	}
	r.HRecv = append(r.HRecv, string(m.Value))
	return string(m.Value), nil
}

func hSend(r *Rec, ss grpc.ServerStream, s string) error {
	if err := ss.SendMsg(S(s)); err != nil {
		r.HSendErr = err
		return err
	}
	r.HSent = append(r.HSent, s)
	return nil
}

// HEcho echoes every message and returns nil at end of stream.
func HEcho(r *Rec, ss grpc.ServerStream) error {
	for {
		s, err := hRecv(r, ss)
		if err == io.EOF {
			return nil
		}
		if err != nil {
			return err
		}
		if err := hSend(r, ss, "e:"+s); err != nil {
			return err
		}
	}
}

// HBurst reads one request, sends n messages, returns nil (server-streaming shape).
func HBurst(n int) func(*Rec, grpc.ServerStream) error {
	return func(r *Rec, ss grpc.ServerStream) error {
		if _, err := hRecv(r, ss); err != nil && err != io.EOF {
			return err
		}
		for i := 0; i < n; i++ {
			if err := hSend(r, ss, Pad(fmt.Sprintf("%s.b%d", r.Tag, i))); err != nil {
				return err
			}
		}
		return nil
	}
}

// HConcurrent sends n messages while a second goroutine of the handler
// receives until the stream ends ("it is safe to have a goroutine calling
// SendMsg and another goroutine calling RecvMsg on the same stream").  With
// wait, the handler returns after the receiver saw the end of the stream;
// without, straight after its last send, the receiver still pending.
func HConcurrent(n int, wait bool) func(*Rec, grpc.ServerStream) error {
	return func(r *Rec, ss grpc.ServerStream) error {
		done := make(chan struct{})
		returned := false
		vsched.GoNamed("hrecv-"+r.Tag, func() {
			defer close(done)
			for {
				m := new(Msg)
				err := ss.RecvMsg(m)
				if returned {
					// the handler has returned: the stream must not be used any more, and
					// what a left-over receive yields is not part of the stream's contract
					return
				}
				if err != nil {
					r.HRecvErr = err
					return
				}
				r.HRecv = append(r.HRecv, string(m.Value))
			}
		})
		defer func() { returned = true }()
		for i := 0; i < n; i++ {
			if err := hSend(r, ss, Pad(fmt.Sprintf("%s.c%d", r.Tag, i))); err != nil {
				return err
			}
		}
		if wait {
			<-done
		}
		return nil
	}
}

// HCollect reads until end of stream, then replies once (client-streaming shape).
func HCollect(r *Rec, ss grpc.ServerStream) error {
	n := 0
	for {
		_, err := hRecv(r, ss)
		if err == io.EOF {
			break
		}
		if err != nil {
			return err
		}
		n++
	}
	return hSend(r, ss, fmt.Sprintf("got%d", n))
}

// HReturnAfter reads k messages and returns ret without reading the rest.
func HReturnAfter(k int, ret error) func(*Rec, grpc.ServerStream) error {
	return func(r *Rec, ss grpc.ServerStream) error {
		for i := 0; i < k; i++ {
			if _, err := hRecv(r, ss); err != nil {
				if err == io.EOF {
					return ret
				}
				return err
			}
		}
		return ret
	}
}

// HSendThenReturn sends n messages (without reading) and returns ret.
func HSendThenReturn(n int, ret error) func(*Rec, grpc.ServerStream) error {
	return func(r *Rec, ss grpc.ServerStream) error {
		for i := 0; i < n; i++ {
			if err := hSend(r, ss, Pad(fmt.Sprintf("%s.b%d", r.Tag, i))); err != nil {
				return err
			}
		}
		return ret
	}
}

// HBlock blocks until its context is done and returns the context's error as a status.
func HBlock(r *Rec, ss grpc.ServerStream) error {
	<-ss.Context().Done()
	return status.FromContextError(ss.Context().Err()).Err()
}

// HRecvUntilErr reads until any error (EOF → nil).
func HRecvUntilErr(r *Rec, ss grpc.ServerStream) error {
	for {
		_, err := hRecv(r, ss)
		if err == io.EOF {
			return nil
		}
		if err != nil {
			return status.Error(codes.Aborted, "recv: "+err.Error())
		}
	}
}

// ---------------------------------------------------------------- caller programs

func descOf(kind string) (*grpc.StreamDesc, string) {
	switch kind {
	case "SStream":
		return &SStreamDesc, MSStream
	case "CStream":
		return &CStreamDesc, MCStream
	}
	return &BidiDesc, MBidi
}

// Open starts a stream for r on cc.
func (w *World) Open(cc grpc.ClientConnInterface, ctx context.Context, r *Rec) grpc.ClientStream {
	ctx = metadata.AppendToOutgoingContext(ctx, "tag", r.Tag)
	desc, method := descOf(r.Kind)
	cs, err := cc.NewStream(ctx, desc, method)
	if err != nil {
		r.COpenErr = err
		r.CErr = err
		return nil
	}
	r.CStream = cs
	return cs
}

func CSend(r *Rec, cs grpc.ClientStream, s string) error {
	if err := cs.SendMsg(S(s)); err != nil {
		r.CSendErrs = append(r.CSendErrs, err.Error())
		return err
	}
	r.CSent = append(r.CSent, s)
	return nil
}

func CClose(r *Rec, cs grpc.ClientStream) error {
	if err := cs.CloseSend(); err != nil {
		r.CSendErrs = append(r.CSendErrs, "close:"+err.Error())
		return err
	}
	r.CClosed = true
	return nil
}

// CRecvOne receives one message; on error it records the terminal error.
func CRecvOne(r *Rec, cs grpc.ClientStream) error {
	if r.cTarget == nil {
		r.cTarget = new(Msg) // reused for every message of the stream, like hRecv's
	}
	m := r.cTarget
	if err := cs.RecvMsg(m); err != nil {
		r.CErr = err
		r.CTrailer = cs.Trailer() // permitted once RecvMsg has returned an error
		return err
	}
	r.CRecv = append(r.CRecv, string(m.Value))
	return nil
}

func CRecvAll(r *Rec, cs grpc.ClientStream) {
	for i := 0; CRecvOne(r, cs) == nil; i++ {
		if i > 2000 {
			// RecvMsg keeps reporting success: no peer in any scenario sends this much
			r.Runaway = true
			return
		}
	}
}

// MsgSize pads every message the standard programs send to at least this many
// bytes (0: short messages).  Payloads above 1 KiB go through the codec's
// pooled buffers.
var MsgSize int

// Pad extends s to MsgSize bytes with filler that depends on s, so that two
// different messages never share content.
func Pad(s string) string {
	if MsgSize < 0 {
		return "" // messages that encode to zero bytes
	}
	if len(s) >= MsgSize {
		return s
	}
	b := make([]byte, MsgSize)
	copy(b, s)
	b[len(s)] = '#'
	h := uint32(2166136261)
	for i := 0; i < len(s); i++ {
		h = (h ^ uint32(s[i])) * 16777619
	}
	for i := len(s) + 1; i < len(b); i++ {
		h = h*1664525 + 1013904223
		b[i] = 'a' + byte(h>>24)%26
	}
	return string(b)
}

func msgs(tag string, n int) []string {
	var out []string
	for i := 0; i < n; i++ {
		out = append(out, Pad(fmt.Sprintf("%s.m%d", tag, i)))
	}
	return out
}

// PSendAllThenRecv: send n, half-close, then receive to the end.
func PSendAllThenRecv(n int) func(*Rec, grpc.ClientStream) {
	return func(r *Rec, cs grpc.ClientStream) {
		for _, m := range msgs(r.Tag, n) {
			if CSend(r, cs, m) != nil {
				break
			}
		}
		CClose(r, cs)
		CRecvAll(r, cs)
		r.CDone = true
	}
}

// PPingPong: n rounds of send-one/receive-one, half-close, receive to the end.
func PPingPong(n int) func(*Rec, grpc.ClientStream) {
	return func(r *Rec, cs grpc.ClientStream) {
		for _, m := range msgs(r.Tag, n) {
			if CSend(r, cs, m) != nil {
				break
			}
			if CRecvOne(r, cs) != nil {
				r.CDone = true
				return
			}
		}
		CClose(r, cs)
		CRecvAll(r, cs)
		r.CDone = true
	}
}

// PEarlyClose: half-close at once, then receive to the end.
func PEarlyClose(r *Rec, cs grpc.ClientStream) {
	CClose(r, cs)
	CRecvAll(r, cs)
	r.CDone = true
}

// Unary issues one unary call for r.
func (w *World) CallUnary(cc grpc.ClientConnInterface, ctx context.Context, r *Rec, data string) {
	// the reply object is not fresh (an application may reuse one): a successful call replaces what it held
	out := &Msg{Value: []byte("stale reply of an earlier call")}
	req := r.Tag + "|" + data
	r.CSent = append(r.CSent, req)
	err := cc.Invoke(ctx, MUnary, S(req), out)
	r.CErr = err
	r.CReply = string(out.Value)
	if err != nil {
		r.CReply = ""
	}
	r.CDone = true
}

func ErrStr(err error) string {
	if err == nil {
		return "<nil>"
	}
	if err == io.EOF {
		return "EOF"
	}
	if st, ok := status.FromError(err); ok {
		return fmt.Sprintf("%s:%s", st.Code(), st.Message())
	}
	return "err:" + err.Error()
}

// Summary is the canonical observation line for r.
func (r *Rec) Summary() string {
	return fmt.Sprintf("%s[%s] open=%s csent=%v closed=%v crecv=%v cerr=%s cdone=%v senderrs=%v | hstarts=%d hrecv=%v hrecverr=%s hsent=%v hret=%s returned=%v",
		r.Tag, r.Kind, ErrStr(r.COpenErr), r.CSent, r.CClosed, r.CRecv, ErrStr(r.CErr), r.CDone, r.CSendErrs,
		r.HStarts, r.HRecv, ErrStr(r.HRecvErr), r.HSent, ErrStr(r.HRet), r.HReturned)
}
