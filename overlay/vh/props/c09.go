package props

import (
	"bytes"
	"context"
	"fmt"
	"google.golang.org/grpc"
	"io"

	"github.com/avos-io/goat/vh/env"
	"github.com/avos-io/goat/vrt/explore"
	"github.com/avos-io/goat/vrt/vsched"
)

func init() { register("C09", c09) }

// c09 workloads: what is in flight when the client's transport read fails.
var c09Loads = map[string]struct {
	unary, streams, responses int
}{
	"1u":   {1, 0, 1},
	"2u":   {2, 0, 2},
	"1s":   {0, 1, 3}, // ping-pong x2 with echo: 2 bodies + trailer
	"1u1s": {1, 1, 4},
}

func c09(tier string) []*explore.Scenario {
	var out []*explore.Scenario
	bound := 2
	for _, load := range []string{"1u", "2u", "1s", "1u1s"} {
		l := c09Loads[load]
		for k := 0; k <= l.responses; k++ {
			for _, wf := range []bool{false, true} {
				b := bound
				if load == "1u1s" && tier != "thorough" {
					b = 1
				}
				out = append(out, c09One(load, k, wf, 64, b))
				if tier == "thorough" || k <= 1 {
					out = append(out, c09One(load, k, wf, 0, b))
				}
				// the error value the transport's read fails with (what net.Conn-like transports return)
				for _, ev := range []string{"eof", "wrapped-eof", "unexpected-eof", "canceled", "deadline"} {
					out = append(out, c09OneE(load, k, wf, 64, b-1, ev))
				}
			}
		}
	}
	// many calls in flight when the read side fails (the statement puts no bound on their number)
	for _, wf := range []bool{false, true} {
		out = append(out, c09Many(40, 8, wf, 0), c09Many(64, 0, wf, 0), c09Many(0, 40, wf, 0), c09Many(3, 2, wf, 1))
	}
	out = append(out, withHistory(historyKinds(tier), c09One("1u1s", 1, false, 64, 1), c09One("2u", 1, true, 64, 1), c09One("1s", 2, false, 0, 1), c09One("1s", 0, false, 64, 1), c09One("1u1s", 0, true, 0, 1), c09Many(20, 4, false, 0))...)
	out = append(out, withConfig(configKinds(tier), c09One("1u1s", 1, false, 64, 1), c09One("2u", 1, true, 64, 1), c09One("1s", 2, false, 0, 1), c09One("1s", 0, false, 64, 1), c09One("1u1s", 0, true, 0, 1), c09Many(20, 4, false, 0))...)
	out = append(out, opInWriteAll("C09", 0)...)
	out = append(out, c09AfterFailedWrite(false, 2), c09AfterFailedWrite(true, 1))
	// finer granularity (a scheduling point after every Unlock as well) on the small core scenarios
	out = append(out, fineGrained(c09One("2u", 1, false, 64, 1), c09Many(3, 2, false, 1))...)
	return out
}

func c09One(load string, k int, writeFails bool, capn, bound int) *explore.Scenario {
	return c09OneE(load, k, writeFails, capn, bound, "")
}

var c09Errs = map[string]error{
	"eof":            io.EOF,
	"wrapped-eof":    fmt.Errorf("read tcp: %w", io.EOF),
	"unexpected-eof": io.ErrUnexpectedEOF,
	"canceled":       context.Canceled,
	"deadline":       context.DeadlineExceeded,
}

func c09OneE(load string, k int, writeFails bool, capn, bound int, errv string) *explore.Scenario {
	return c09OneEP("C09", load, k, writeFails, capn, bound, errv)
}

func c09OneEP(prop, load string, k int, writeFails bool, capn, bound int, errv string) *explore.Scenario {
	l := c09Loads[load]
	fam := prop + "/readfail"
	name := fmt.Sprintf("%s/%s/failafter=%d/writefails=%v/cap=%d", prop, load, k, writeFails, capn)
	if errv != "" {
		name += "/err=" + errv
	}
	return &explore.Scenario{
		Name:   name,
		Family: fam, Prop: prop, Bound: bound,
		Run: func() {
			w := env.NewWorld()
			d := env.NewDirect(w, env.DirectOpts{Pipe: env.PipeOpts{Cap: capn}})
			d.Pipe.A.ReadFailAfter = k
			d.Pipe.A.ReadFailErr = c09Errs[errv]
			d.Pipe.A.WriteFailsWithRead = writeFails
			vsched.Settle()
			vsched.Explore(true)
			var us, ss []*env.Rec
			hdrWaiters := 0
			for i := 0; i < l.unary; i++ {
				r := w.Rec(fmt.Sprintf("u%d", i), "Unary")
				us = append(us, r)
				vsched.GoNamed("caller-"+r.Tag, func() { w.CallUnary(d.CC, context.Background(), r, "x") })
			}
			for i := 0; i < l.streams; i++ {
				r := w.Rec(fmt.Sprintf("s%d", i), "Bidi")
				ss = append(ss, r)
				vsched.GoNamed("caller-"+r.Tag, func() {
					cs := w.Open(d.CC, context.Background(), r)
					if cs != nil {
						// someone also waits for the response header, as the API allows
						hdrWaiters++
						vsched.GoNamed("header-"+r.Tag, func() { cs.Header(); hdrWaiters-- })
						env.PPingPong(2)(r, cs)
						// an application may call RecvMsg again after it reported the stream's end: the answer stays the same kind
						if first := r.CErr; first != nil && first != io.EOF {
							for j := 0; j < 2; j++ {
								if err := cs.RecvMsg(new(env.Msg)); err == nil || err == io.EOF {
									vsched.Fail(fam+"|fabricated", "stream %s: RecvMsg reported %v; called again it returned %v (a clean end / a message that nobody sent)", r.Tag, first, err)
								}
							}
						}
					}
					r.CDone = true
				})
			}
			vsched.Quiesce()
			if hdrWaiters != 0 {
				vsched.Fail(fam+"|hang", "a Header() call on a stream is blocked forever after the transport read failed at position %d (write side fails=%v)", k, writeFails)
			}
			failed := d.Pipe.A.ReadFailed
			// calls started after the failure
			ua := w.Rec("ua", "Unary")
			sa := w.Rec("sa", "Bidi")
			vsched.GoNamed("caller-ua", func() { w.CallUnary(d.CC, context.Background(), ua, "x") })
			vsched.GoNamed("caller-sa", func() {
				cs := w.Open(d.CC, context.Background(), sa)
				if cs != nil {
					env.PPingPong(1)(sa, cs)
				}
				sa.CDone = true
			})
			vsched.Quiesce()
			for _, r := range append(append(us, ua), append(ss, sa)...) {
				vsched.Obs("%s", r.Summary())
				if !r.CDone {
					vsched.Fail(fam+"|hang", "call %s is blocked forever after the transport read failed at position %d (write side fails=%v): %s", r.Tag, k, writeFails, r.Summary())
					continue
				}
				if r.Kind == "Unary" {
					if r.CErr == nil && r.CReply != "R:"+r.Tag+"|x" {
						vsched.Fail(fam+"|fabricated", "call %s reports success with reply %q", r.Tag, r.CReply)
					}
					if r.CErr == nil && r.HStarts != 1 {
						vsched.Fail(fam+"|fabricated", "call %s reports success but its handler ran %d times", r.Tag, r.HStarts)
					}
				} else {
					if r.CErr == nil && r.COpenErr == nil {
						vsched.Fail(fam+"|no-terminal", "stream %s finished its program without a terminal result", r.Tag)
					}
					// (io.EOF means "ended successfully" only as the result of a receive on an open
					// stream; a failed open is a failure whatever error value it carries)
					if r.COpenErr == nil && r.CErr == io.EOF && (!r.HReturned || r.HRet != nil || !eqStrs(r.CRecv, r.HSent)) {
						vsched.Fail(fam+"|fabricated", "stream %s reports a clean end but the handler did not complete / messages are missing: %s", r.Tag, r.Summary())
					}
					if !isPrefix(r.CRecv, r.HSent) {
						vsched.Fail(fam+"|fabricated", "stream %s received %v, handler sent %v", r.Tag, r.CRecv, r.HSent)
					}
				}
			}
			if failed {
				for _, r := range []*env.Rec{ua, sa} {
					if r.CDone && r.CErr == nil {
						vsched.Fail(fam+"|late-call-succeeded", "call %s started after the read failure did not fail", r.Tag)
					}
					if r.CDone && r.Kind != "Unary" && r.COpenErr == nil && r.CErr == io.EOF {
						vsched.Fail(fam+"|late-call-succeeded", "stream %s started after the read failure ended cleanly", r.Tag)
					}
				}
			}
			finishDirect(d, w, false)
		},
	}
}

// c09Many: nu unary calls (their handlers wait) and ns open streams are in flight when the
// transport's read side fails (the write side fails too or stays writable); more calls are
// started at that very moment and afterwards. Every one of them returns, none with a success.
func c09Many(nu, ns int, writeFails bool, bound int) *explore.Scenario {
	fam := "C09/many"
	return &explore.Scenario{
		Name: fmt.Sprintf("C09/many/unary=%d/streams=%d/writefails=%v", nu, ns, writeFails), Family: fam, Prop: "C09", Bound: bound, SelectCost: true,
		Run: func() {
			w := env.NewWorld()
			d := env.NewDirect(w, env.DirectOpts{Pipe: env.PipeOpts{Cap: 256}})
			d.Pipe.A.WriteFailsWithRead = writeFails
			vsched.Settle()
			gate := make(chan struct{})
			var rs []*env.Rec
			unary := func(tag string) {
				r := w.Rec(tag, "Unary")
				rs = append(rs, r)
				w.Unaries[tag] = func(r *env.Rec, ctx context.Context, in string) (string, error) {
					select {
					case <-gate:
					case <-ctx.Done():
					}
					return "late", nil
				}
				vsched.GoNamed("caller-"+tag, func() { w.CallUnary(d.CC, context.Background(), r, "x") })
			}
			stream := func(tag string) {
				r := w.Rec(tag, "Bidi")
				rs = append(rs, r)
				vsched.GoNamed("caller-"+tag, func() {
					cs := w.Open(d.CC, context.Background(), r)
					if cs != nil {
						if env.CSend(r, cs, r.Tag+".m0") != nil {
							env.CRecvOne(r, cs) // the send was refused: the receive side tells how the stream ended
						} else if env.CRecvOne(r, cs) == nil {
							env.CRecvOne(r, cs) // waits for more without half-closing: only the failure can end it
						}
					}
					r.CDone = true
				})
			}
			for i := 0; i < nu; i++ {
				unary(fmt.Sprintf("u%d", i))
			}
			for i := 0; i < ns; i++ {
				w.Handlers[fmt.Sprintf("s%d", i)] = func(r *env.Rec, ss grpc.ServerStream) error {
					env.HEcho(r, ss)
					return nil
				}
				stream(fmt.Sprintf("s%d", i))
			}
			vsched.Quiesce()
			vsched.Explore(true)
			// the failure, racing with calls that start at the same moment
			vsched.GoNamed("fail", func() { d.Pipe.A.FailReads() })
			unary("race-u")
			stream("race-s")
			vsched.Quiesce()
			unary("late-u")
			stream("late-s")
			vsched.Quiesce()
			hung := 0
			for _, r := range rs {
				if !r.CDone {
					hung++
					if hung <= 3 {
						vsched.Fail(fam+"|hang", "%d unary calls and %d streams in flight when the read side failed (write side fails=%v): call %s is blocked forever; %s", nu, ns, writeFails, r.Tag, r.Summary())
					}
					continue
				}
				if r.Kind == "Unary" && r.CErr == nil {
					vsched.Fail(fam+"|fabricated", "call %s reports success (reply %q) although no reply can have arrived", r.Tag, r.CReply)
				}
				if r.Kind != "Unary" && r.COpenErr == nil && (r.CErr == nil || r.CErr == io.EOF) {
					vsched.Fail(fam+"|fabricated", "stream %s ended without an error (%v) although its handler never finished: %s", r.Tag, r.CErr, r.Summary())
				}
			}
			vsched.Obs("in flight %d+%d: hung=%d", nu, ns, hung)
			close(gate)
			vsched.Quiesce()
			finishDirect(d, w, false) // (ids on the wire stay pairwise distinct whatever the failure does to calls being started)
		},
	}
}

// c09AfterFailedWrite: the request write of an older call (a) fails while a newer call (b) is in flight;
// a third call (c) then runs to completion; then the read side fails with b still waiting. b (and a
// call started afterwards) must fail - whatever the failed write did to the connection's bookkeeping.
func c09AfterFailedWrite(writeFails bool, bound int) *explore.Scenario {
	fam := "C09/after-failed-write"
	return &explore.Scenario{
		Name: fmt.Sprintf("C09/after-failed-write/writefails=%v/d=%d", writeFails, bound), Family: fam, Prop: "C09", Bound: bound,
		Run: func() {
			w := env.NewWorld()
			d := env.NewDirect(w, env.DirectOpts{Pipe: env.PipeOpts{Cap: 64}})
			d.Pipe.A.WriteFailsWithRead = writeFails
			vsched.Settle()
			gateA, release := make(chan struct{}), make(chan struct{})
			d.Pipe.A.OnWriteCall = func(k int, rpc *env.Rpc) {
				if b := rpc.GetBody(); b != nil && bytes.Contains(b.GetData(), []byte("a|x")) {
					<-gateA
					d.Pipe.A.FailNextWrites = 1
				}
			}
			vsched.Explore(true)
			a, b, c, late := w.Rec("a", "Unary"), w.Rec("b", "Unary"), w.Rec("c", "Unary"), w.Rec("late", "Unary")
			w.Unaries["b"] = func(r *env.Rec, ctx context.Context, in string) (string, error) {
				select {
				case <-release:
				case <-ctx.Done():
				}
				return "R:" + in, nil
			}
			vsched.GoNamed("caller-a", func() { w.CallUnary(d.CC, context.Background(), a, "x") })
			vsched.Quiesce()
			vsched.GoNamed("caller-b", func() { w.CallUnary(d.CC, context.Background(), b, "x") })
			vsched.Quiesce()
			close(gateA)
			vsched.Quiesce()
			vsched.GoNamed("caller-c", func() { w.CallUnary(d.CC, context.Background(), c, "y") })
			vsched.Quiesce()
			if !a.CDone || a.CErr == nil {
				vsched.Fail(fam+"|harness", "the call whose request write failed: done=%v err=%v", a.CDone, a.CErr)
			}
			if c.CDone && c.CErr == nil {
				checkUnary(c, "y", fam)
			}
			d.Pipe.A.FailReads()
			vsched.Quiesce()
			vsched.GoNamed("caller-late", func() { w.CallUnary(d.CC, context.Background(), late, "z") })
			vsched.Quiesce()
			for _, r := range []*env.Rec{b, c, late} {
				if !r.CDone {
					vsched.Fail(fam+"|hang", "call %s is blocked forever after the transport's read side failed (an older call's request write had failed before; write side fails=%v): %s", r.Tag, writeFails, r.Summary())
				}
			}
			if b.CDone && b.CErr == nil {
				vsched.Fail(fam+"|fabricated", "call b reports success (reply %q) although its handler never answered", b.CReply)
			}
			if late.CDone && late.CErr == nil {
				vsched.Fail(fam+"|late-call-succeeded", "a call started after the read failure did not fail")
			}
			close(release)
			vsched.Quiesce()
			finishDirect(d, w, false)
		},
	}
}
