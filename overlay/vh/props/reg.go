// Package props holds one scenario generator per property.
package props

import (
	"sort"

	"github.com/avos-io/goat/vrt/explore"
)

type genFn func(tier string) []*explore.Scenario

var registry = map[string]genFn{}

func register(prop string, g genFn) { registry[prop] = g }

// Scenarios returns the scenario list of a property for a tier, in a stable order.
func Scenarios(prop, tier string) []*explore.Scenario {
	g := registry[prop]
	if g == nil {
		return nil
	}
	return g(tier)
}

func Props() []string {
	var out []string
	for k := range registry {
		out = append(out, k)
	}
	sort.Strings(out)
	return out
}
