package props

import (
	"context"
	"fmt"
	"io"
	"strings"

	"google.golang.org/grpc/stats"

	goat "github.com/avos-io/goat"
	"github.com/avos-io/goat/gen/goatorepo"
	"github.com/avos-io/goat/vh/env"
	"github.com/avos-io/goat/vrt/explore"
	"github.com/avos-io/goat/vrt/vsched"
)

func init() { register("C13", c13) }

// c13Shape is one response envelope shape a hostile peer may send to a client.
type c13Shape struct {
	name  string
	build func(id uint64, method, payload string) *env.Rpc
	// what it may legitimately cause for the call it is addressed to
	data  bool // carries `payload` as a message
	okEnd bool // may end a stream cleanly / complete a unary call successfully (if it carries data)
}

func c13Body(payload string) *goatorepo.Body { return env.RespBody(0, "", payload).Body }

var c13Shapes = []c13Shape{
	{name: "body", build: func(id uint64, m, p string) *env.Rpc { return env.RespBody(id, m, p) }, data: true},
	{name: "header-only", build: func(id uint64, m, p string) *env.Rpc { r := env.RespBody(id, m, p); r.Body = nil; return r }},
	{name: "header+md", build: func(id uint64, m, p string) *env.Rpc {
		r := env.RespBody(id, m, p)
		r.Body = nil
		r.Header.Headers = []*goatorepo.KeyValue{{Key: "h", Value: p}}
		return r
	}},
	{name: "trailer-ok", build: func(id uint64, m, p string) *env.Rpc { return env.RespTrailer(id, m, 0, "OK") }, okEnd: true},
	{name: "trailer-error", build: func(id uint64, m, p string) *env.Rpc { return env.RespTrailer(id, m, 9, "bad") }},
	{name: "ok-status+body+trailer", build: func(id uint64, m, p string) *env.Rpc {
		r := env.RespTrailer(id, m, 0, "OK")
		r.Body = c13Body(p)
		return r
	}, data: true, okEnd: true},
	{name: "body+trailer", build: func(id uint64, m, p string) *env.Rpc {
		r := env.RespBody(id, m, p)
		r.Trailer = &goatorepo.Trailer{}
		return r
	}, data: true, okEnd: true},
	{name: "status-no-trailer", build: func(id uint64, m, p string) *env.Rpc {
		r := env.RespBody(id, m, p)
		r.Body = nil
		r.Status = &goatorepo.ResponseStatus{Code: 5, Message: "nf"}
		return r
	}},
	{name: "bad-header-md", build: func(id uint64, m, p string) *env.Rpc {
		r := env.RespBody(id, m, p)
		r.Body = nil
		r.Header.Headers = []*goatorepo.KeyValue{{Key: "x-bin", Value: "!!bad!!"}}
		return r
	}},
	{name: "bad-header-md+body", build: func(id uint64, m, p string) *env.Rpc {
		r := env.RespBody(id, m, p)
		r.Header.Headers = []*goatorepo.KeyValue{{Key: "x-bin", Value: "!!bad!!"}}
		return r
	}, data: true},
	{name: "bad-trailer-md", build: func(id uint64, m, p string) *env.Rpc {
		r := env.RespTrailer(id, m, 0, "OK")
		r.Trailer.Metadata = []*goatorepo.KeyValue{{Key: "y-bin", Value: "!!bad!!"}}
		return r
	}, okEnd: true},
	{name: "reset", build: func(id uint64, m, p string) *env.Rpc { return env.RespReset(id, m) }},
	{name: "no-header", build: func(id uint64, m, p string) *env.Rpc { r := env.RespBody(id, m, p); r.Header = nil; return r }, data: true},
	{name: "garbage-body", build: func(id uint64, m, p string) *env.Rpc {
		r := env.RespBody(id, m, p)
		r.Body.Data = []byte{0xff, 0xff, 0xff}
		return r
	}},
	{name: "garbage-body+trailer", build: func(id uint64, m, p string) *env.Rpc {
		r := env.RespBody(id, m, p)
		r.Body.Data = []byte{0xff, 0xff, 0xff}
		r.Trailer = &goatorepo.Trailer{}
		return r
	}, okEnd: true},
	{name: "empty", build: func(id uint64, m, p string) *env.Rpc { return &env.Rpc{Id: id} }},
	// (the shapes below are used by the focused "reset combinations" alphabet only)
	{name: "reset+ok-status", build: func(id uint64, m, p string) *env.Rpc {
		r := env.RespReset(id, m)
		r.Status = &goatorepo.ResponseStatus{Code: 0, Message: "OK"}
		return r
	}, okEnd: true},
	{name: "reset+error-status", build: func(id uint64, m, p string) *env.Rpc {
		r := env.RespReset(id, m)
		r.Status = &goatorepo.ResponseStatus{Code: 9, Message: "bad"}
		return r
	}},
	{name: "reset+body", build: func(id uint64, m, p string) *env.Rpc {
		r := env.RespReset(id, m)
		r.Body = c13Body(p)
		return r
	}, data: true},
	{name: "reset-no-trailer", build: func(id uint64, m, p string) *env.Rpc {
		r := env.RespReset(id, m)
		r.Trailer = nil
		return r
	}},
	{name: "reset-no-trailer+ok-status", build: func(id uint64, m, p string) *env.Rpc {
		r := env.RespReset(id, m)
		r.Trailer = nil
		r.Status = &goatorepo.ResponseStatus{Code: 0, Message: "OK"}
		return r
	}},
}

// the full alphabet of the exhaustive sequences: the first c13Full shapes
const c13Full = 16

type c13Stats struct{ n int }

func (s *c13Stats) TagRPC(ctx context.Context, _ *stats.RPCTagInfo) context.Context   { return ctx }
func (s *c13Stats) HandleRPC(ctx context.Context, st stats.RPCStats)                  { s.n++ }
func (s *c13Stats) TagConn(ctx context.Context, _ *stats.ConnTagInfo) context.Context { return ctx }
func (s *c13Stats) HandleConn(context.Context, stats.ConnStats)                       {}

func c13(tier string) []*explore.Scenario {
	var out []*explore.Scenario
	maxLen := 3
	if tier == "thorough" {
		maxLen = 4
	}
	for _, mix := range []string{"uu", "us", "ss"} {
		for _, st := range []bool{false, true} {
			for si := 0; si < c13Full; si++ {
				for target := 0; target < 3; target++ {
					if tier != "thorough" && st && (si+target)%2 == 1 {
						continue // quick: half of the first symbols with the stats handler
					}
					out = append(out, c13Seq(mix, st, si, target, maxLen, 0))
				}
			}
		}
	}
	for _, si := range []int{0, 3, 5, 8, 10, 11} {
		out = append(out, c13Seq("us", true, si, 1, 2, 1), c13Seq("us", true, si, 0, 2, 1))
	}
	// longer sequences over a focused alphabet (messages, undecodable messages, header-only, OK trailer)
	for _, mix := range []string{"us", "ss"} {
		for _, si := range c13FocusShapes {
			for target := 0; target < 2; target++ {
				out = append(out, c13SeqF(mix, false, si, target, maxLen+1, 0))
			}
		}
	}
	// resets in combination with status, body, missing trailer, mixed with messages and an OK trailer
	for _, mix := range []string{"us", "ss"} {
		for _, st := range []bool{false, true} {
			for _, si := range c13ResetShapes {
				if si < c13Full {
					continue
				}
				out = append(out, c13SeqA(mix, st, si, 1, maxLen, 0, c13ResetShapes, "resets"), c13SeqA(mix, st, si, 0, 2, 0, c13ResetShapes, "resets"))
			}
		}
	}
	// the full product of field shapes, one or two envelopes, against a unary call, a fresh stream and a stream in progress
	for _, where := range []string{"unary", "stream", "stream-in-progress"} {
		out = append(out, c13Product(where, 1, false), c13Product(where, 1, true))
	}
	out = append(out, c13Product("stream", 2, false))
	if tier == "thorough" {
		out = append(out, c13Product("unary", 2, false), c13Product("stream-in-progress", 2, true))
	}
	out = append(out, c01FailedWriteOlder("C13", 1))
	out = append(out, c13DegenerateMetadata(false), c13DegenerateMetadata(true))
	// fine-grained mode (a scheduling point after every Unlock and every go statement) on streams whose first Read
	// returns at once - a context that is already done, a connection that has already failed: whatever the
	// stream's own goroutines do first, the client does not crash
	out = append(out, donors("C13", fineGrained(c07PreDone("Bidi", "cancelled", true, 1), c07PreDone("SStream", "expired", true, 1), c07PreDone("CStream", "cancelled", false, 1)))...)
	// the connection's read side ends with io.EOF itself (what a socket or pipe reports), a wrapped one, a context
	// error: no call may read that as "the stream ended successfully" - no envelope said so
	for _, ev := range []string{"eof", "wrapped-eof", "unexpected-eof", "canceled", "deadline"} {
		for _, load := range []string{"1s", "1u1s"} {
			for _, k := range []int{0, 1, 2} {
				out = append(out, c09OneEP("C13", load, k, false, 64, 1, ev))
			}
		}
		out = append(out, c09OneEP("C13", "1s", 1, true, 0, 1, ev))
	}
	out = append(out, failedCallAbandoned("C13", "recv-into-non-message", 1), failedCallAbandoned("C13", "send-unencodable", 1), failedCallAbandoned("C13", "send-non-message", 1))
	// back-to-back deliveries
	for _, mix := range []string{"uu", "us"} {
		for _, st := range []bool{false, true} {
			for _, si := range []int{0, 3, 5, 6, 11} { // body, trailer-ok, ok-status+body+trailer, body+trailer, reset
				for target := 0; target < 2; target++ {
					out = append(out, c13SeqT(mix, st, si, target, maxLen, 0, true))
				}
				out = append(out, c13SeqT(mix, st, si, 0, 3, 1, true))
			}
		}
	}
	// the same bursts reaching calls whose callers give up at that moment (their context is cancelled)
	for _, mix := range []string{"uu", "us"} {
		for _, si := range []int{0, 5, 6, 11} {
			out = append(out, c13SeqC(mix, false, si, 0, 2, 1, true, true), c13SeqC(mix, true, si, 1, 3, 0, true, true))
		}
	}
	out = append(out, opInWriteAll("C13", 0)...)
	return out
}

func c13Seq(mix string, withStats bool, first, firstTarget, maxLen, bound int) *explore.Scenario {
	return c13SeqT(mix, withStats, first, firstTarget, maxLen, bound, false)
}

// indices into c13Shapes for the focused longer sequences
var c13FocusShapes = []int{0, 1, 3, 13} // body, header-only, trailer-ok, garbage-body

var c13ResetShapes = []int{0, 3, 11, 16, 17, 18, 19, 20} // body, trailer-ok, reset, and the reset combinations

// c13Focus: the alphabet of the sequence after its first symbol (nil: the full alphabet)
var c13Focus []int

func c13SeqF(mix string, withStats bool, first, firstTarget, maxLen, bound int) *explore.Scenario {
	return c13SeqA(mix, withStats, first, firstTarget, maxLen, bound, c13FocusShapes, "focus")
}

func c13SeqA(mix string, withStats bool, first, firstTarget, maxLen, bound int, alphabet []int, label string) *explore.Scenario {
	sc := c13SeqT(mix, withStats, first, firstTarget, maxLen, bound, false)
	sc.Name = strings.Replace(sc.Name, "C13/seq/", "C13/"+label+"/", 1)
	inner := sc.Run
	sc.Run = func() { c13Focus = alphabet; defer func() { c13Focus = nil }(); inner() }
	return sc
}

// burst: envelopes are sent back to back, racing with the calls' own processing and teardown.
func c13SeqT(mix string, withStats bool, first, firstTarget, maxLen, bound int, burst bool) *explore.Scenario {
	return c13SeqC(mix, withStats, first, firstTarget, maxLen, bound, burst, false)
}

// ctxEnds (burst mode): the calls are made under a context that is cancelled right after the
// burst was handed to the transport - the envelopes reach calls whose callers are giving up.
func c13SeqC(mix string, withStats bool, first, firstTarget, maxLen, bound int, burst, ctxEnds bool) *explore.Scenario {
	fam := "C13/hostile"
	mode := "seq"
	if burst {
		mode = "burst"
	}
	if ctxEnds {
		mode = "burst-then-cancel"
	}
	return &explore.Scenario{
		Name:   fmt.Sprintf("C13/%s/mix=%s/stats=%v/first=%s>%d/len<=%d/d=%d", mode, mix, withStats, c13Shapes[first].name, firstTarget, maxLen, bound),
		Family: fam, Prop: "C13", Bound: bound, MaxExecs: 3000000,
		Run: func() {
			w := env.NewWorld()
			var dial []goat.DialOption
			if withStats {
				dial = append(dial, goat.WithStatsHandler(&c13Stats{}))
			}
			d := env.NewDirect(w, env.DirectOpts{Pipe: env.PipeOpts{Cap: 64}, NoServer: true, DialOpts: dial})
			vsched.Settle()
			recs := make([]*env.Rec, 2)
			headerDone := make([]bool, 2)
			trailerDone := make([]bool, 2)
			callCtx, cancelCalls := context.WithCancel(context.Background())
			defer cancelCalls()
			for i, c := range mix {
				i := i
				tag := fmt.Sprintf("c%d", i)
				if c == 'u' {
					r := w.Rec(tag, "Unary")
					recs[i] = r
					headerDone[i], trailerDone[i] = true, true
					vsched.GoNamed("caller-"+tag, func() { w.CallUnary(d.CC, callCtx, r, "x") })
				} else {
					r := w.Rec(tag, "Bidi")
					recs[i] = r
					opened := make(chan struct{})
					vsched.GoNamed("caller-"+tag, func() {
						cs := w.Open(d.CC, callCtx, r)
						close(opened)
						if cs != nil {
							env.CRecvAll(r, cs)
							r.CTrailer = cs.Trailer()
							trailerDone[i] = true
						}
						r.CDone = true
					})
					vsched.GoNamed("header-"+tag, func() {
						<-opened
						if r.CStream != nil {
							r.CHeader, _ = r.CStream.Header()
						}
						headerDone[i] = true
					})
				}
				// let the call get its request out before the next one starts: ids are 1 and 2
				vsched.Settle()
			}
			ids := []uint64{1, 2, 77}
			methods := []string{env.MUnary, env.MUnary, env.MBidi}
			for i, c := range mix {
				if c == 's' {
					methods[i] = env.MBidi
				}
			}
			vsched.Explore(true)
			seq := ""
			sent := [][]string{nil, nil, nil} // payloads addressed to each target
			okEnd := []bool{false, false, false}
			for pos := 0; pos < maxLen; pos++ {
				si, tg := first, firstTarget
				if pos > 0 && c13Focus != nil {
					c := vsched.Choose(len(c13Focus) + 1)
					if c == len(c13Focus) {
						break
					}
					si = c13Focus[c]
					tg = vsched.Choose(2)
				} else if pos > 0 {
					c := vsched.Choose(c13Full + 1)
					if c == c13Full {
						break
					}
					si = c
					tg = vsched.Choose(3)
				}
				sh := c13Shapes[si]
				payload := fmt.Sprintf("p%d", pos)
				seq += fmt.Sprintf(" %s>%d", sh.name, tg)
				if sh.data {
					sent[tg] = append(sent[tg], payload)
				}
				if sh.okEnd {
					okEnd[tg] = true
				}
				if err := d.Pipe.B.Inject(sh.build(ids[tg], methods[tg], payload)); err != nil {
					vsched.Fail(fam+"|harness", "inject: %v", err)
					return
				}
				if !burst {
					vsched.Quiesce()
				}
			}
			if ctxEnds {
				cancelCalls()
			}
			vsched.Quiesce()
			// the connection closes
			d.Pipe.A.Break()
			d.Pipe.B.Break()
			vsched.Quiesce()
			vsched.Obs("seq:%s | %s || %s", seq, recs[0].Summary(), recs[1].Summary())
			for i, r := range recs {
				if r.Runaway {
					vsched.Fail(fam+"|recv-success-without-data", "after%s: RecvMsg on stream %s keeps returning nil without ever delivering a message or a terminal status", seq, r.Tag)
					continue
				}
				if !r.CDone {
					vsched.Fail(fam+"|call-hang", "after%s and connection close: call %s (%s) never terminated; threads: %s", seq, r.Tag, r.Kind, threadList())
					continue
				}
				if !headerDone[i] {
					vsched.Fail(fam+"|header-hang", "after%s and connection close: Header() of stream %s never returned", seq, r.Tag)
				}
				if r.Kind == "Unary" {
					if r.CErr == nil && !contains(sent[i], r.CReply) {
						vsched.Fail(fam+"|fabricated", "after%s: unary call %s reports success with reply %q which no envelope addressed to it carried (%v)", seq, r.Tag, r.CReply, sent[i])
					}
					continue
				}
				if !subseq(r.CRecv, sent[i]) {
					vsched.Fail(fam+"|fabricated", "after%s: stream %s received %v; envelopes addressed to it carried %v", seq, r.Tag, r.CRecv, sent[i])
				}
				if r.CErr == io.EOF && !okEnd[i] {
					vsched.Fail(fam+"|fabricated-eof", "after%s: stream %s ended cleanly although no OK trailer was addressed to it", seq, r.Tag)
				}
				if r.CErr == nil && r.COpenErr == nil {
					vsched.Fail(fam+"|no-terminal", "after%s: stream %s has no terminal result", seq, r.Tag)
				}
			}
		},
	}
}

func contains(l []string, s string) bool {
	for _, x := range l {
		if x == s {
			return true
		}
	}
	return false
}

// subseq: a is a subsequence of b (order kept, nothing foreign).
func subseq(a, b []string) bool {
	j := 0
	for _, x := range a {
		for j < len(b) && b[j] != x {
			j++
		}
		if j == len(b) {
			return false
		}
		j++
	}
	return true
}

// c13Product: the product of field shapes - header {valid, absent, with
// metadata, with undecodable metadata} x body {absent, message, undecodable,
// empty} x trailer {absent, present, with undecodable metadata} x status
// {absent, OK, error} x reset {absent, RST_STREAM} = 288 envelopes, n of them
// in sequence, addressed to an outstanding unary call, a stream that has
// received nothing yet, or a stream that has received one message. Whatever
// arrives: no crash; after the connection closes the call has terminated;
// success only with data an envelope addressed to it carried; a clean end only
// if some envelope carried a trailer with an OK (or no) status.
func c13Product(where string, n int, withStats bool) *explore.Scenario {
	fam := "C13/hostile"
	return &explore.Scenario{
		Name: fmt.Sprintf("C13/product/%s/len=%d/stats=%v", where, n, withStats), Family: fam, Prop: "C13", Bound: 0, MaxExecs: 3000000,
		Run: func() {
			w := env.NewWorld()
			var dial []goat.DialOption
			if withStats {
				dial = append(dial, goat.WithStatsHandler(&c13Stats{}))
			}
			d := env.NewDirect(w, env.DirectOpts{Pipe: env.PipeOpts{Cap: 64}, NoServer: true, DialOpts: dial})
			vsched.Settle()
			var r *env.Rec
			headerDone := true
			method := env.MUnary
			if where == "unary" {
				r = w.Rec("c", "Unary")
				vsched.GoNamed("caller", func() { w.CallUnary(d.CC, context.Background(), r, "x") })
			} else {
				method = env.MBidi
				r = w.Rec("c", "Bidi")
				headerDone = false
				opened := make(chan struct{})
				vsched.GoNamed("caller", func() {
					cs := w.Open(d.CC, context.Background(), r)
					close(opened)
					if cs != nil {
						env.CRecvAll(r, cs)
						r.CTrailer = cs.Trailer()
					}
					r.CDone = true
				})
				vsched.GoNamed("header", func() {
					<-opened
					if r.CStream != nil {
						r.CHeader, _ = r.CStream.Header()
					}
					headerDone = true
				})
			}
			vsched.Settle()
			const id = 1
			var sent []string
			okEnd := false
			if where == "stream-in-progress" {
				d.Pipe.B.Inject(env.RespBody(id, method, "first"))
				sent = append(sent, "first")
				vsched.Quiesce()
			}
			seq := ""
			for k := 0; k < n; k++ {
				hk, bk, tk, sk, rk := vsched.Choose(4), vsched.Choose(4), vsched.Choose(3), vsched.Choose(3), vsched.Choose(2)
				rpc := &env.Rpc{Id: id}
				payload := fmt.Sprintf("P%d", k)
				switch hk {
				case 0:
					rpc.Header = env.RespBody(id, method, "").Header
				case 2:
					rpc.Header = env.RespBody(id, method, "").Header
					rpc.Header.Headers = []*goatorepo.KeyValue{{Key: "h", Value: payload}}
				case 3:
					rpc.Header = env.RespBody(id, method, "").Header
					rpc.Header.Headers = []*goatorepo.KeyValue{{Key: "x-bin", Value: "!!bad!!"}}
				}
				switch bk {
				case 1:
					rpc.Body = c13Body(payload)
					sent = append(sent, payload)
				case 2:
					rpc.Body = &goatorepo.Body{Data: []byte{0xff, 0xff, 0xff}}
				case 3:
					rpc.Body = &goatorepo.Body{}
					sent = append(sent, "") // an empty body is a message that encodes to zero bytes
				}
				switch tk {
				case 1:
					rpc.Trailer = &goatorepo.Trailer{}
				case 2:
					rpc.Trailer = &goatorepo.Trailer{Metadata: []*goatorepo.KeyValue{{Key: "t-bin", Value: "!!bad!!"}}}
				}
				switch sk {
				case 1:
					rpc.Status = &goatorepo.ResponseStatus{Code: 0, Message: "OK"}
				case 2:
					rpc.Status = &goatorepo.ResponseStatus{Code: 9, Message: "bad"}
				}
				if rk == 1 {
					rpc.Reset_ = &goatorepo.Reset{Type: "RST_STREAM"}
				}
				if rpc.Trailer != nil && rpc.GetStatus().GetCode() == 0 {
					okEnd = true
				}
				seq += fmt.Sprintf(" [h%d b%d t%d s%d r%d]", hk, bk, tk, sk, rk)
				if err := d.Pipe.B.Inject(rpc); err != nil {
					vsched.Fail(fam+"|harness", "inject: %v", err)
					return
				}
				vsched.Quiesce()
			}
			d.Pipe.A.Break()
			d.Pipe.B.Break()
			vsched.Quiesce()
			vsched.Obs("%s:%s | %s", where, seq, r.Summary())
			switch {
			case r.Runaway:
				vsched.Fail(fam+"|recv-success-without-data", "%s after%s: RecvMsg keeps returning nil without ever delivering a message or a terminal status", where, seq)
			case !r.CDone:
				vsched.Fail(fam+"|call-hang", "%s after%s and connection close: the call never terminated; threads: %s", where, seq, threadList())
			case !headerDone:
				vsched.Fail(fam+"|header-hang", "%s after%s and connection close: Header() never returned", where, seq)
			case r.Kind == "Unary":
				if r.CErr == nil && !contains(sent, r.CReply) {
					vsched.Fail(fam+"|fabricated", "unary call after%s reports success with reply %q which no envelope addressed to it carried (%v)", seq, r.CReply, sent)
				}
			default:
				if !subseq(r.CRecv, sent) {
					vsched.Fail(fam+"|fabricated", "%s after%s: received %v; envelopes addressed to it carried %v", where, seq, r.CRecv, sent)
				}
				if r.CErr == io.EOF && !okEnd {
					vsched.Fail(fam+"|fabricated-eof", "%s after%s: ended cleanly although no envelope carried a trailer with an OK status", where, seq)
				}
				if r.CErr == nil && r.COpenErr == nil {
					vsched.Fail(fam+"|no-terminal", "%s after%s: no terminal result", where, seq)
				}
			}
		},
	}
}

// c13DegenerateMetadata: reply envelopes whose header / trailer metadata carries degenerate
// entries - a -bin key with an empty value, unpadded or standard-alphabet base64, an upper-case
// -BIN suffix, an empty key, an empty value, duplicates, invalid UTF-8 - addressed to a unary call
// (with and without a stats handler) and to a stream: no crash, every call terminates, and the
// caller can still ask for Header() and Trailer().
func c13DegenerateMetadata(withStats bool) *explore.Scenario {
	fam := "C13/hostile"
	kvs := [][2]string{{"x-bin", ""}, {"x-bin", "YQ"}, {"x-bin", "+/8="}, {"X-BIN", "AA=="}, {"x-Bin", ""}, {"", ""}, {"", "v"}, {"k", ""},
		{"-bin", ""}, {"-bin", "AA=="}, {"k", "\xff\xfe"}, {"\xff", "v"}, {"grpc-status", ""}, {"grpc-timeout", ""}, {"a-bin", "===="}, {"a-bin", "="}}
	return &explore.Scenario{
		Name: fmt.Sprintf("C13/degenerate-metadata/stats=%v", withStats), Family: fam, Prop: "C13", Bound: 0,
		Run: func() {
			n := 0
			for _, kv := range kvs {
				for _, where := range []string{"unary-header", "unary-trailer", "stream-header", "stream-trailer", "stream-header-dup"} {
					n++
					w := env.NewWorld()
					var dial []goat.DialOption
					if withStats {
						dial = append(dial, goat.WithStatsHandler(&c13Stats{}))
					}
					d := env.NewDirect(w, env.DirectOpts{Pipe: env.PipeOpts{Cap: 64}, NoServer: true, DialOpts: dial})
					vsched.Settle()
					entry := []*goatorepo.KeyValue{{Key: kv[0], Value: kv[1]}}
					if where == "stream-header-dup" {
						entry = append(entry, &goatorepo.KeyValue{Key: kv[0], Value: kv[1]}, &goatorepo.KeyValue{Key: "ok", Value: "v"})
					}
					tag := fmt.Sprintf("c%d", n)
					done := false
					if strings.HasPrefix(where, "unary") {
						r := w.Rec(tag, "Unary")
						vsched.GoNamed("caller", func() { w.CallUnary(d.CC, context.Background(), r, "x"); done = true })
						vsched.Settle()
						reply := env.RespTrailer(1, env.MUnary, 0, "OK")
						reply.Body = c13Body("p")
						if where == "unary-header" {
							reply.Header.Headers = entry
						} else {
							reply.Trailer.Metadata = entry
						}
						d.Pipe.B.Inject(reply)
					} else {
						r := w.Rec(tag, "Bidi")
						vsched.GoNamed("caller", func() {
							if cs := w.Open(d.CC, context.Background(), r); cs != nil {
								cs.Header()
								env.CRecvAll(r, cs)
								cs.Trailer()
							}
							done = true
						})
						vsched.Settle()
						h := env.RespBody(1, env.MBidi, "p")
						t := env.RespTrailer(1, env.MBidi, 0, "OK")
						if where == "stream-trailer" {
							t.Trailer.Metadata = entry
						} else {
							h.Header.Headers = entry
						}
						d.Pipe.B.Inject(h)
						d.Pipe.B.Inject(t)
					}
					vsched.Settle()
					d.Pipe.A.Break()
					d.Pipe.B.Break()
					vsched.Settle()
					if !done {
						vsched.Fail(fam+"|call-hang", "a reply with metadata entry %q=%q (%s): the call never terminated", kv[0], kv[1], where)
					}
				}
			}
			vsched.Count("inputs", int64(n))
		},
	}
}
