//vsched:noinstr
package props

import (
	"encoding/json"
	"fmt"
	"os"
	"path/filepath"
	"strconv"
	"strings"
	"testing"
	"time"

	"github.com/avos-io/goat/vrt/explore"
)

// TestWorker explores the scenarios of one property.  Several worker
// processes share the scenario list through claim files in $VOUT.
func TestWorker(t *testing.T) {
	prop, tier, out := os.Getenv("VPROP"), os.Getenv("VTIER"), os.Getenv("VOUT")
	if prop == "" || out == "" {
		t.Skip("VPROP/VOUT not set")
	}
	var deadline time.Time
	if s := os.Getenv("VDEADLINE"); s != "" {
		n, _ := strconv.ParseInt(s, 10, 64)
		deadline = time.Unix(n, 0)
	}
	only := os.Getenv("VONLY")
	scs := Scenarios(prop, tier)
	if len(scs) == 0 {
		fmt.Printf("ENGINE-ERROR: no scenarios for %s/%s\n", prop, tier)
		os.Exit(2)
	}
	if os.Getenv("VLIST") != "" {
		for i, sc := range scs {
			fmt.Printf("%d %s bound=%d\n", i, sc.Name, sc.Bound)
		}
		return
	}
	for i, sc := range scs {
		if only != "" && !strings.Contains(sc.Name, only) {
			continue
		}
		claim := filepath.Join(out, fmt.Sprintf("claim.%d", i))
		f, err := os.OpenFile(claim, os.O_CREATE|os.O_EXCL|os.O_WRONLY, 0o644)
		if err != nil {
			continue // someone else has it
		}
		f.Close()
		var rep *explore.Report
		if !deadline.IsZero() && time.Now().After(deadline) {
			rep = &explore.Report{Scenario: sc.Name, Family: sc.Family, Bound: sc.Bound, BoundDone: -1, Cap: "time budget exhausted before this scenario started"}
		} else {
			opt := explore.Options{Deadline: deadline, KeepSample: i == 0, KnownKeys: map[string]bool{}}
			for _, k := range strings.Split(os.Getenv("VKNOWN"), ";;") {
				if k != "" {
					opt.KnownKeys[k] = true
				}
			}
			if tier == "thorough" {
				opt.DeepenSlice = 90 * time.Second
				if sc.Deepen == 0 && sc.Bound > 0 && !sc.Once && sc.RawRun == nil {
					sc.Deepen = sc.Bound + 2
				}
			}
			rep = explore.Explore(t, sc, opt)
		}
		data, _ := json.Marshal(rep)
		tmp := filepath.Join(out, fmt.Sprintf("rep.%d.tmp", i))
		os.WriteFile(tmp, data, 0o644)
		os.Rename(tmp, filepath.Join(out, fmt.Sprintf("rep.%d.json", i)))
		if os.Getenv("VVERBOSE") != "" {
			fmt.Printf("%-60s execs=%d nodes=%d outcomes=%d boundDone=%d found=%d cap=%q err=%q %.1fs\n", sc.Name, rep.Executions, rep.Nodes, rep.Outcomes, rep.BoundDone, len(rep.Found), rep.Cap, rep.EngineError, rep.WallS)
		}
	}
}

// TestReplay re-executes one recorded schedule: VREPLAY=<replay file>.
func TestReplay(t *testing.T) {
	file := os.Getenv("VREPLAY")
	if file == "" {
		t.Skip("VREPLAY not set")
	}
	data, err := os.ReadFile(file)
	if err != nil {
		t.Fatal(err)
	}
	var r struct {
		Property string        `json:"property"`
		Tier     string        `json:"tier"`
		Found    explore.Found `json:"found"`
	}
	if err := json.Unmarshal(data, &r); err != nil {
		t.Fatal(err)
	}
	var sc *explore.Scenario
	for _, tier := range []string{r.Tier, "quick", "thorough"} {
		for _, s := range Scenarios(r.Property, tier) {
			if s.Name == r.Found.Scenario {
				sc = s
			}
		}
		if sc != nil {
			break
		}
	}
	if sc == nil {
		t.Fatalf("scenario %q not found", r.Found.Scenario)
	}
	res := explore.Replay(t, sc, r.Found.Choices)
	for _, l := range res.Trace {
		fmt.Println(l)
	}
	fmt.Println("--- observations")
	for _, l := range res.Obs {
		fmt.Println(l)
	}
	fmt.Println("--- end:", res.End)
	for _, p := range res.Parked {
		fmt.Printf("parked: T%s(%s) %s %s @%s (spawned %s)\n", p.ID, p.Name, p.Op, p.Sub, p.Site, p.SpawnSite)
	}
	if res.Panic != "" {
		fmt.Println("PANIC:", res.Panic)
		fmt.Println(res.PanicStack)
	}
	repro := false
	for _, v := range res.Violations {
		fmt.Printf("violation: %s: %s\n", v.Key, v.Msg)
		if v.Key == r.Found.Key {
			repro = true
		}
	}
	if res.Panic != "" && strings.HasPrefix(r.Found.Key, "panic|") {
		repro = true
	}
	if res.Nondet != "" {
		fmt.Println("NONDETERMINISM:", res.Nondet)
	}
	if repro {
		fmt.Printf("REPRODUCED property=%s key=%s\n", r.Property, r.Found.Key)
		t.Fail()
	} else {
		fmt.Println("NOT-REPRODUCED")
	}
}
