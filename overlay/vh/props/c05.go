package props

import (
	"context"
	"fmt"
	goat "github.com/avos-io/goat"
	"io"
	"strings"
	"time"

	"google.golang.org/grpc"

	"github.com/avos-io/goat/vh/env"
	"github.com/avos-io/goat/vrt/explore"
	"github.com/avos-io/goat/vrt/vsched"
)

func init() { register("C05", c05) }

func c05(tier string) []*explore.Scenario {
	var out []*explore.Scenario
	// (a) client seam: every arrival order of the response envelopes of k calls
	mixes := []string{"us", "ss", "uu", "uss"}
	if tier == "thorough" {
		mixes = append(mixes, "sss", "uuss")
	}
	for _, m := range mixes {
		out = append(out, c05Client(m, 0))
		if len(m) == 2 {
			out = append(out, c05Client(m, 1))
		}
		if len(m) <= 3 {
			out = append(out, c05ClientL(m, 0, true), c05ClientL(reverse(m), 0, true))
		}
	}
	// (b) server seam: every arrival order of the request envelopes of k streams
	for _, k := range []int{2, 3} {
		out = append(out, c05Server(k, 0))
	}
	out = append(out, c05Server(2, 1))
	out = append(out, c05ServerQ(2, 0, true), c05ServerQ(3, 0, true), c05ServerQ(2, 1, true))
	out = append(out, c05ServerQC(2, 0, false, true), c05ServerQC(3, 0, true, true), c05ServerQC(2, 1, false, true))
	if tier == "thorough" {
		out = append(out, c05ServerQC(3, 0, false, true), c05ServerQC(2, 2, false, true))
	}
	// calls being started at the moment the read side fails while the write side stays usable: whatever they put on the wire carries an id of its own
	out = append(out, donors("C05", []*explore.Scenario{c09Many(3, 2, false, 1), c09Many(6, 0, false, 1), c09Many(2, 0, false, 2), c09Many(20, 4, false, 0)})...)
	out = append(out, c05TwoConnections(1), c05TwoConnections(0))
	// (c) id allocation under concurrent starts: the C01 drivers (wire oracle reports duplicate ids)
	out = append(out, donors("C05", c01(tier))...)
	out = append(out, donors("C05", []*explore.Scenario{c02One([]streamCase{{"Bidi", "pingpong", "echo", 1, 0, 0}, {"Bidi", "pingpong", "echo", 1, 0, 0}}, 64, 2)})...)
	// late messages for an id whose handler has already returned (zero-length ones included): they
	// must not reach - or create - a handler invocation that does not own the id
	out = append(out, donors("C05", []*explore.Scenario{c14One([][2]string{{"Bidi", "lateempty"}}, 1), c14One([][2]string{{"CStream", "lateempty"}}, 1), c14One([][2]string{{"Bidi", "reset"}}, 1)})...)
	out = append(out, c05FailedWrite(2), c05FailedWrite(1))
	// per-call order over the HTTP transport (one POST, one serving goroutine per envelope)
	out = append(out, explore.Sharded(c19HTTPOrder("C05", 2, 2), 8)...)
	out = append(out, c05EmptyReplies("C05", 1))
	out = append(out, c01FailedWriteOlder("C05", 1))
	for _, way := range []string{"cancelled", "expired", "expires-in-write"} {
		out = append(out, c05DeadContextCall("C05", way, 64, 1), c05DeadContextCall("C05", way, 0, 1))
	}
	// every short sequence of handler-side stream operations (SendHeader, SetHeader, sends, trailers): the call's
	// response envelopes keep their order on the wire
	out = append(out, handlerSeqs("C05", tier)...)
	// per-call envelope order through the proxy + demultiplexer topology
	out = append(out, c16RPCFam("C05", "2streams", true, 1), c16RPCFam("C05", "unary+stream", false, 1))
	for _, sc := range []*explore.Scenario{c16Burst(12, 1)} {
		c := *sc
		c.Prop = "C16" // burst oracle keys stay C16; listed here only through the rpc donors above
		_ = c
	}
	n := 66000 // beyond 2^16 ids with one call alive throughout
	if tier == "thorough" {
		n = 300000 // beyond 2^18
		out = append(out, donors("C05", []*explore.Scenario{c01Direct(64, env.PipeOpts{Cap: 64}, 1, false)})...)
	}
	out = append(out, c05History(n))
	return out
}

// c05Client: k calls outstanding against a scripted peer that answers them in
// every per-call-order-preserving interleaving.
func c05Client(mix string, bound int) *explore.Scenario { return c05ClientL(mix, bound, false) }

func c05ClientL(mix string, bound int, late bool) *explore.Scenario {
	fam := "C05/client-seam"
	return &explore.Scenario{
		Name:   fmt.Sprintf("C05/client-seam/mix=%s/d=%d/late=%v", mix, bound, late),
		Family: fam, Prop: "C05", Bound: bound,
		Run: func() {
			w := env.NewWorld()
			d := env.NewDirect(w, env.DirectOpts{Pipe: env.PipeOpts{Cap: 64}, NoServer: true})
			vsched.Settle()
			var recs []*env.Rec
			for i, c := range mix {
				tag := fmt.Sprintf("c%d", i)
				if c == 'u' {
					r := w.Rec(tag, "Unary")
					recs = append(recs, r)
					vsched.GoNamed("caller-"+tag, func() { w.CallUnary(d.CC, context.Background(), r, "x") })
				} else {
					r := w.Rec(tag, "Bidi")
					recs = append(recs, r)
					vsched.GoNamed("caller-"+tag, func() {
						cs := w.Open(d.CC, context.Background(), r)
						if cs != nil {
							hd, err := cs.Header()
							r.CHeader, r.CHeaderOK = hd, err == nil
							env.CRecvAll(r, cs)
							r.CTrailer = cs.Trailer()
						}
						r.CDone = true
					})
				}
			}
			// the peer learns the ids from the requests
			ids := map[string]uint64{}
			for len(ids) < len(mix) {
				rpc, err := d.Pipe.B.Read(context.Background())
				if err != nil {
					vsched.Fail(fam+"|peer", "peer read failed: %v", err)
					return
				}
				tag := ""
				for _, kv := range rpc.GetHeader().GetHeaders() {
					if kv.Key == "tag" {
						tag = kv.Value
					}
				}
				if tag == "" && rpc.Body != nil {
					m := new(env.Msg)
					if unmarshal(rpc.Body.Data, m) == nil {
						tag = strings.SplitN(string(m.Value), "|", 2)[0]
					}
				}
				ids[tag] = rpc.GetId()
			}
			vsched.Settle()
			vsched.Explore(true)
			// per-call response scripts
			var scripts [][]*env.Rpc
			for i, c := range mix {
				tag := fmt.Sprintf("c%d", i)
				id := ids[tag]
				if c == 'u' {
					scripts = append(scripts, []*env.Rpc{env.RespUnary(id, "R:"+tag)})
				} else {
					h := env.RespBody(id, env.MBidi, tag+".b0")
					h.Header.Headers = append(h.Header.Headers, kv("who", tag))
					tr := env.RespTrailer(id, env.MBidi, 0, "OK")
					tr.Trailer.Metadata = append(tr.Trailer.Metadata, kv("whot", tag))
					scripts = append(scripts, []*env.Rpc{h, env.RespBody(id, env.MBidi, tag+".b1"), tr})
				}
			}
			// late envelopes: two more for call 0's id, arriving (anywhere) after call 0's own
			// script is through - a duplicate reply / bodies after the trailer. Nobody may see them.
			lateIdx := -1
			if late {
				lateIdx = len(scripts)
				id0 := ids["c0"]
				if mix[0] == 'u' {
					scripts = append(scripts, []*env.Rpc{env.RespUnary(id0, "LATE1"), env.RespUnary(id0, "LATE2")})
				} else {
					scripts = append(scripts, []*env.Rpc{env.RespBody(id0, env.MBidi, "LATE1"), env.RespBody(id0, env.MBidi, "LATE2")})
				}
			}
			order := ""
			for {
				var avail []int
				for i, s := range scripts {
					if len(s) > 0 && (i != lateIdx || len(scripts[0]) == 0) {
						avail = append(avail, i)
					}
				}
				if len(avail) == 0 {
					break
				}
				i := avail[vsched.Choose(len(avail))]
				if i == lateIdx {
					order += "L"
					vsched.Quiesce() // really late: call 0 has finished and released its registration
				} else {
					order += fmt.Sprint(i)
				}
				if err := d.Pipe.B.Inject(scripts[i][0]); err != nil {
					vsched.Fail(fam+"|peer", "peer write failed: %v", err)
					return
				}
				scripts[i] = scripts[i][1:]
			}
			vsched.Quiesce()
			vsched.Obs("order=%s", order)
			for i, c := range mix {
				r := recs[i]
				tag := r.Tag
				if !r.CDone {
					vsched.Fail(fam+"|hang", "call %s did not finish (arrival order %s)", tag, order)
					continue
				}
				if c == 'u' {
					if r.CErr != nil || r.CReply != "R:"+tag {
						vsched.Fail(fam+"|foreign-data", "unary call %s got err=%v reply=%q (arrival order %s)", tag, r.CErr, r.CReply, order)
					}
				} else {
					if r.CErr != io.EOF || !eqStrs(r.CRecv, []string{tag + ".b0", tag + ".b1"}) {
						vsched.Fail(fam+"|foreign-data", "stream %s received %v end=%s (arrival order %s)", tag, r.CRecv, env.ErrStr(r.CErr), order)
					}
					if !r.CHeaderOK || len(r.CHeader.Get("who")) != 1 || r.CHeader.Get("who")[0] != tag {
						vsched.Fail(fam+"|foreign-header", "stream %s saw header %v (arrival order %s)", tag, r.CHeader, order)
					}
					if len(r.CTrailer.Get("whot")) != 1 || r.CTrailer.Get("whot")[0] != tag {
						vsched.Fail(fam+"|foreign-trailer", "stream %s saw trailer %v (arrival order %s)", tag, r.CTrailer, order)
					}
				}
			}
		},
	}
}

// c05Server: the request envelopes of k streams arrive in every
// per-stream-order-preserving interleaving.
func c05Server(k, bound int) *explore.Scenario { return c05ServerQ(k, bound, false) }

// quiesce: the system comes to rest after every envelope (a stream whose envelopes have all
// arrived has ended - handler returned, registration gone - before the next envelope arrives).
func c05ServerQ(k, bound int, quiesce bool) *explore.Scenario {
	return c05ServerQC(k, bound, quiesce, false)
}

// collide: the streams come from different senders sharing the connection (as behind a relay), with
// distinct ids chosen so that sender and id written one after the other read the same ("c1"+12, "c11"+2, "c"+112).
func c05ServerQC(k, bound int, quiesce, collide bool) *explore.Scenario {
	fam := "C05/server-seam"
	name := fmt.Sprintf("C05/server-seam/k=%d/d=%d", k, bound)
	if quiesce {
		name += "/quiescing"
	}
	if collide {
		name += "/lookalike-senders"
	}
	srcOf := map[uint64]string{}
	return &explore.Scenario{
		Name:   name,
		Family: fam, Prop: "C05", Bound: bound,
		Run: func() {
			w := env.NewWorld()
			d := env.NewDirect(w, env.DirectOpts{Pipe: env.PipeOpts{Cap: 64}, NoClient: true})
			var scripts [][]*env.Rpc
			for i := 0; i < k; i++ {
				tag := fmt.Sprintf("s%d", i)
				w.Rec(tag, "Bidi")
				w.Handlers[tag] = func(r *env.Rec, ss grpc.ServerStream) error { return env.HCollect(r, ss) }
				id := uint64(10 + i)
				if collide {
					id = []uint64{12, 2, 112}[i%3]
				}
				scripts = append(scripts, []*env.Rpc{env.ReqOpen(id, env.MBidi, tag), env.ReqBody(id, env.MBidi, tag+".m0"),
					env.ReqBody(id, env.MBidi, tag+".m1"), env.ReqTrailer(id, env.MBidi)})
				if collide {
					for _, e := range scripts[i] {
						e.Header.Source = []string{"c1", "c11", "c"}[i%3]
					}
					srcOf[id] = []string{"c1", "c11", "c"}[i%3]
				}
			}
			vsched.Settle()
			vsched.Explore(true)
			order := ""
			for {
				var avail []int
				for i, s := range scripts {
					if len(s) > 0 {
						avail = append(avail, i)
					}
				}
				if len(avail) == 0 {
					break
				}
				i := avail[vsched.Choose(len(avail))]
				order += fmt.Sprint(i)
				if err := d.Pipe.A.Inject(scripts[i][0]); err != nil {
					vsched.Fail(fam+"|peer", "peer write failed: %v", err)
					return
				}
				scripts[i] = scripts[i][1:]
				if quiesce {
					vsched.Quiesce()
				}
			}
			vsched.Quiesce()
			vsched.Obs("order=%s", order)
			for i := 0; i < k; i++ {
				tag := fmt.Sprintf("s%d", i)
				r := w.Recs[tag]
				if r.HStarts != 1 || !r.HReturned {
					vsched.Fail(fam+"|handler", "stream %s: handler starts=%d returned=%v (arrival order %s)", tag, r.HStarts, r.HReturned, order)
					continue
				}
				if !eqStrs(r.HRecv, []string{tag + ".m0", tag + ".m1"}) || r.HRecvErr != io.EOF {
					vsched.Fail(fam+"|foreign-data", "handler of %s received %v end=%v (arrival order %s)", tag, r.HRecv, r.HRecvErr, order)
				}
			}
			// replies carry the right ids
			for _, e := range d.Tap.Events {
				if e.Dir == "b2a" && collide && e.Rpc.GetHeader().GetDestination() != srcOf[e.Rpc.GetId()] {
					vsched.Fail(fam+"|foreign-reply", "reply on id %d is addressed to %q, the stream came from %q", e.Rpc.GetId(), e.Rpc.GetHeader().GetDestination(), srcOf[e.Rpc.GetId()])
				}
				if e.Dir != "b2a" || e.Rpc.Body == nil {
					continue
				}
				m := new(env.Msg)
				if unmarshal(e.Rpc.Body.Data, m) == nil && string(m.Value) != "got2" {
					vsched.Fail(fam+"|foreign-reply", "reply %q on id %d", m.Value, e.Rpc.GetId())
				}
			}
			finishDirect(d, w, true)
		},
	}
}

// c05History: n sequential calls on one connection: ids strictly increasing,
// registry empty in between (a counter check under the default schedule).
func c05History(n int) *explore.Scenario {
	fam := "C05/history"
	return &explore.Scenario{
		Name:   fmt.Sprintf("C05/history/n=%d", n),
		Family: fam, Prop: "C05", Bound: 0, MaxSteps: 200 * n,
		Run: func() {
			w := env.NewWorld()
			d := env.NewDirect(w, env.DirectOpts{Pipe: env.PipeOpts{Cap: 4}})
			d.Tap.Events = nil
			d.Pipe.Tap = nil // do not retain 2n envelopes
			var last uint64
			bad := 0
			d.Pipe.A.OnWrite = func(k int, rpc *env.Rpc) {
				if rpc.GetHeader().GetMethod() != env.MUnary {
					return // the long-lived stream keeps using its own (old) id
				}
				if rpc.GetId() <= last {
					bad++
				}
				last = rpc.GetId()
			}
			vsched.Settle()
			r := w.Rec("h", "Unary")
			// a long-lived stream stays open across the whole history and is used now and
			// then: it must keep seeing exactly its own echoes however many calls come and go
			lr := w.Rec("long", "Bidi")
			w.Handlers["long"] = env.HEcho
			ls := w.Open(d.CC, context.Background(), lr)
			if ls == nil {
				vsched.Fail(fam+"|call", "long-lived stream did not open: %v", lr.COpenErr)
				return
			}
			pings := 0
			ping := func(i int) bool {
				msg := fmt.Sprintf("ping@%d", i)
				if err := env.CSend(lr, ls, msg); err != nil {
					vsched.Fail(fam+"|long-lived-stream", "after %d calls: send on the long-lived stream failed: %v", i, err)
					return false
				}
				if err := env.CRecvOne(lr, ls); err != nil || lr.CRecv[len(lr.CRecv)-1] != "e:"+msg {
					vsched.Fail(fam+"|long-lived-stream", "after %d calls: the long-lived stream received err=%v data=%v, want its own echo of %q", i, err, lr.CRecv[max(0, len(lr.CRecv)-1):], msg)
					return false
				}
				pings++
				return true
			}
			for i := 0; i < n; i++ {
				out := new(env.Msg)
				req := fmt.Sprintf("h|%d", i)
				if err := d.CC.Invoke(context.Background(), env.MUnary, env.S(req), out); err != nil || string(out.Value) != "R:"+req {
					vsched.Fail(fam+"|call", "call %d: err=%v reply=%q", i, err, out.Value)
					return
				}
				if i&(i+1) == 0 || i&(i-1) == 0 || i%4099 == 0 { // around every power of two, and regularly
					if !ping(i) {
						return
					}
				}
			}
			env.CClose(lr, ls)
			env.CRecvAll(lr, ls)
			if lr.CErr != io.EOF {
				vsched.Fail(fam+"|long-lived-stream", "the long-lived stream ended with %s after %d calls", env.ErrStr(lr.CErr), n)
			}
			vsched.Obs("calls=%d handler=%d lastid=%d pings=%d", n, r.HStarts, last, pings)
			if bad > 0 {
				vsched.Fail("C05/ids|duplicate-id", "%d of %d sequential calls reused or went back in the id space", bad, n)
			}
			if r.HStarts != n {
				vsched.Fail(fam+"|handler-count", "handler ran %d times for %d calls", r.HStarts, n)
			}
		},
	}
}

// c05FailedWrite: one caller's request write fails (its context is already
// done) while two other callers start; ids must stay distinct and the others
// must get their own replies.
func c05FailedWrite(bound int) *explore.Scenario {
	fam := "C05/failed-write"
	return &explore.Scenario{
		Name: fmt.Sprintf("C05/failed-write/d=%d", bound), Family: fam, Prop: "C05", Bound: bound,
		Run: func() {
			w := env.NewWorld()
			d := env.NewDirect(w, env.DirectOpts{Pipe: env.PipeOpts{Cap: 64}})
			vsched.Settle()
			vsched.Explore(true)
			dead, cancel := context.WithCancel(context.Background())
			cancel()
			a, b, c := w.Rec("a", "Unary"), w.Rec("b", "Unary"), w.Rec("c", "Unary")
			vsched.GoNamed("caller-a", func() { w.CallUnary(d.CC, dead, a, "x") })
			vsched.GoNamed("caller-b", func() { w.CallUnary(d.CC, context.Background(), b, "x") })
			vsched.Quiesce()
			vsched.GoNamed("caller-c", func() { w.CallUnary(d.CC, context.Background(), c, "x") })
			vsched.Quiesce()
			if !a.CDone || a.CErr == nil {
				vsched.Fail(fam+"|dead-call", "the call with a dead context: done=%v err=%v", a.CDone, a.CErr)
			}
			checkUnary(b, "x", fam)
			checkUnary(c, "x", fam)
			finishDirect(d, w, true)
		},
	}
}

func reverse(s string) string {
	b := []byte(s)
	for i, j := 0, len(b)-1; i < j; i, j = i+1, j-1 {
		b[i], b[j] = b[j], b[i]
	}
	return string(b)
}

// c05TwoConnections: one Server object serves two direct connections; each
// client numbers its calls from 1, so the same ids are in use on both. Calls
// overlap (a slow handler on one connection while the other connection calls);
// every caller gets its own reply on its own connection.
func c05TwoConnections(bound int) *explore.Scenario {
	fam := "C05/two-connections"
	return &explore.Scenario{
		Name: fmt.Sprintf("C05/two-connections/d=%d", bound), Family: fam, Prop: "C05", Bound: bound,
		Run: func() {
			w := env.NewWorld()
			d := env.NewDirect(w, env.DirectOpts{Pipe: env.PipeOpts{Cap: 16}})
			p2 := env.NewPipe(d.Tap, env.PipeOpts{Name: "w2", Cap: 16})
			serve2Done := false
			vsched.GoNamed("serve2", func() { d.Srv.Serve(context.Background(), p2.B); serve2Done = true })
			cc2 := goat.NewClientConn(p2.A, "cli2", "srv")
			vsched.Settle()
			vsched.Explore(true)
			release := make(chan struct{})
			a, b, c := w.Rec("a", "Unary"), w.Rec("b", "Unary"), w.Rec("c", "Unary")
			sa, sb := w.Rec("sa", "Bidi"), w.Rec("sb", "Bidi")
			w.Unaries["a"] = func(r *env.Rec, ctx context.Context, in string) (string, error) {
				<-release
				return "R:" + in, nil
			}
			vsched.GoNamed("caller-a", func() { w.CallUnary(d.CC, context.Background(), a, "x") })
			vsched.Quiesce()                                                                      // a (id 1 on connection 1) is in its handler
			vsched.GoNamed("caller-b", func() { w.CallUnary(cc2, context.Background(), b, "y") }) // id 1 on connection 2
			vsched.GoNamed("caller-sb", func() { streamCase{"Bidi", "pingpong", "echo", 1, 0, 0}.runCaller(w, cc2, context.Background(), sb) })
			vsched.Quiesce()
			close(release)
			vsched.GoNamed("caller-c", func() { w.CallUnary(d.CC, context.Background(), c, "z") })
			vsched.GoNamed("caller-sa", func() { streamCase{"Bidi", "pingpong", "echo", 1, 0, 0}.runCaller(w, d.CC, context.Background(), sa) })
			vsched.Quiesce()
			checkUnary(a, "x", fam)
			checkUnary(b, "y", fam)
			checkUnary(c, "z", fam)
			for _, r := range []*env.Rec{sa, sb} {
				if !r.CDone || r.CErr != io.EOF || !eqStrs(r.CRecv, r.HSent) || len(r.CRecv) != 1 {
					vsched.Fail(fam+"|stream", "stream %s on its own connection did not complete with its own data: %s", r.Tag, r.Summary())
				}
			}
			// nothing of one connection's conversation may appear on the other's wire
			for _, e := range d.Tap.Events {
				if e.Dir != "b2a" {
					continue
				}
				dst := e.Rpc.GetHeader().GetDestination()
				if (e.Wire == "w" && dst != "cli") || (e.Wire == "w2" && dst != "cli2") {
					vsched.Fail(fam+"|wrong-connection", "an envelope for %q (id %d) was written on the connection of the other client (wire %s)", dst, e.Rpc.GetId(), e.Wire)
				}
			}
			d.Pipe.A.Break()
			d.Pipe.B.Break()
			p2.A.Break()
			p2.B.Break()
			vsched.Quiesce()
			if !d.ServeDone || !serve2Done {
				vsched.Fail(fam+"|serve-hang", "Serve did not return on both connections after they closed")
			}
		},
	}
}

// c05DeadContextCall: a unary call is made with a context that is already done (cancelled, or past its
// deadline) while another unary call and a stream are in flight on the connection: it fails alone.
// The others get their own replies and messages, and a later call works (whatever the transport's
// Write reports for the dead context - its error, or nothing at all - concerns that call only).
func c05DeadContextCall(prop, way string, capn, bound int) *explore.Scenario {
	fam := prop + "/dead-context-call"
	return &explore.Scenario{
		Name: fmt.Sprintf("%s/dead-context-call/%s/cap=%d/d=%d", prop, way, capn, bound), Family: fam, Prop: prop, Bound: bound, Horizon: time.Hour,
		Run: func() {
			w := env.NewWorld()
			d := env.NewDirect(w, env.DirectOpts{Pipe: env.PipeOpts{Cap: capn}})
			vsched.Settle()
			vsched.Explore(true)
			release := make(chan struct{})
			a, b, c := w.Rec("a", "Unary"), w.Rec("b", "Unary"), w.Rec("c", "Unary")
			st := w.Rec("st", "Bidi")
			w.Unaries["b"] = func(r *env.Rec, ctx context.Context, in string) (string, error) {
				<-release
				return "R:" + in, nil
			}
			vsched.GoNamed("caller-b", func() { w.CallUnary(d.CC, context.Background(), b, "x") })
			var cs grpc.ClientStream
			vsched.GoNamed("caller-st", func() {
				if cs = w.Open(d.CC, context.Background(), st); cs != nil {
					env.CSend(st, cs, "m0")
					env.CRecvOne(st, cs)
				}
			})
			vsched.Quiesce()
			var ctx context.Context
			var cancel context.CancelFunc
			switch way {
			case "cancelled":
				ctx, cancel = context.WithCancel(context.Background())
				cancel()
			case "expired":
				ctx, cancel = context.WithDeadline(context.Background(), time.Now().Add(-time.Second))
			default: // expires-in-write: the deadline passes while the request is on its way
				ctx, cancel = context.WithTimeout(context.Background(), time.Nanosecond)
			}
			defer cancel()
			vsched.GoNamed("caller-a", func() { w.CallUnary(d.CC, ctx, a, "x") })
			vsched.QuiesceTime()
			if !a.CDone || (a.CErr == nil && way != "expires-in-write") {
				vsched.Fail(fam+"|dead-call", "the call made with a %s context: done=%v err=%v", way, a.CDone, a.CErr)
			} else if a.CErr == nil {
				checkUnary(a, "x", fam) // (it was answered before its deadline passed)
			}
			close(release)
			vsched.GoNamed("caller-c", func() { w.CallUnary(d.CC, context.Background(), c, "y") })
			stDone := false
			vsched.GoNamed("caller-st2", func() {
				if cs != nil {
					env.CSend(st, cs, "m1")
					env.CRecvOne(st, cs)
					env.CClose(st, cs)
					env.CRecvOne(st, cs)
				}
				stDone = true
			})
			vsched.Quiesce()
			checkUnary(b, "x", fam)
			checkUnary(c, "y", fam)
			if !stDone || st.CErr != io.EOF || !eqStrs(st.CRecv, st.HSent) || len(st.CRecv) != 2 || len(st.CSendErrs) > 0 {
				vsched.Fail(fam+"|stream", "the stream open while another call was made with a %s context did not go on and complete: %s", way, st.Summary())
			}
			finishDirect(d, w, true)
		},
	}
}

// c05EmptyReplies: unary calls whose reply is the zero message (it encodes to no bytes) or no reply object at
// all, between calls with ordinary replies, all received into a reply object that is not fresh: each caller
// sees exactly its own call's reply - an empty one is empty, not what the object held before, and not an error.
func c05EmptyReplies(prop string, bound int) *explore.Scenario {
	fam := prop + "/empty-replies"
	return &explore.Scenario{
		Name: fmt.Sprintf("%s/empty-replies/d=%d", prop, bound), Family: fam, Prop: prop, Bound: bound,
		Run: func() {
			w := env.NewWorld()
			d := env.NewDirect(w, env.DirectOpts{Pipe: env.PipeOpts{Cap: 64}})
			vsched.Settle()
			vsched.Explore(true)
			kinds := []string{"full", "zero", "full", "nil", "zero"}
			var rs []*env.Rec
			for i, k := range kinds {
				k := k
				r := w.Rec(fmt.Sprintf("e%d", i), "Unary")
				rs = append(rs, r)
				w.Unaries[r.Tag] = func(r *env.Rec, ctx context.Context, in string) (string, error) {
					switch k {
					case "zero":
						return "", nil
					case "nil":
						return env.NilReply, nil
					}
					return "R:" + in, nil
				}
			}
			// two at once, then the rest one after the other
			vsched.GoNamed("caller-e0", func() { w.CallUnary(d.CC, context.Background(), rs[0], "x") })
			vsched.GoNamed("caller-e1", func() { w.CallUnary(d.CC, context.Background(), rs[1], "x") })
			vsched.Quiesce()
			for _, r := range rs[2:] {
				w.CallUnary(d.CC, context.Background(), r, "x")
			}
			for i, r := range rs {
				want := "R:" + r.Tag + "|x"
				if kinds[i] != "full" {
					want = ""
				}
				if !r.CDone || r.CErr != nil || r.CReply != want || r.HStarts != 1 {
					vsched.Fail(fam+"|reply", "call %s (handler reply kind %s): done=%v err=%v reply=%q want %q handler runs=%d", r.Tag, kinds[i], r.CDone, r.CErr, r.CReply, want, r.HStarts)
				}
			}
			finishDirect(d, w, true)
		},
	}
}
