package props

import (
	"bytes"
	"context"
	"fmt"
	goat "github.com/avos-io/goat"
	"google.golang.org/grpc"
	"google.golang.org/grpc/stats"
	"io"
	"strings"

	"github.com/avos-io/goat/vh/env"
	"github.com/avos-io/goat/vrt/explore"
	"github.com/avos-io/goat/vrt/vsched"
)

func init() { register("C01", c01) }

func c01(tier string) []*explore.Scenario {
	var out []*explore.Scenario
	out = append(out, c16LateAttach("C01", "Unary", 1), c16LateAttachD("C01", "Unary", 1, false, true))
	out = append(out, c05EmptyReplies("C01", 1))
	out = append(out, c16ReattachedHealthy("C01", 3, 1))
	out = append(out, c01TwoServes(1, 16, 2), c01TwoServes(2, 16, 1), c01TwoServes(2, 0, 1), c01TwoServes(12, 64, 0))
	for _, ser := range []bool{false, true} {
		for _, cp := range []int{0, 64} {
			po := env.PipeOpts{Cap: cp, Serialize: ser}
			if tier == "thorough" {
				out = append(out, c01Direct(2, po, 3, false), c01Direct(3, po, 2, false), c01Direct(4, po, 1, false))
			} else {
				out = append(out, c01Direct(2, po, 2, false), c01Direct(3, po, 1, false))
			}
		}
	}
	po := env.PipeOpts{Cap: 64, Serialize: true}
	// start-up concurrent with the calls; many callers with one deviation
	out = append(out, c01Direct(2, po, 1, true))
	out = append(out, c01Direct(8, po, 1, false))
	out = append(out, c01Direct(16, po, 0, false))
	// many callers over an unbuffered transport (back-pressure through every queue of the path)
	out = append(out, c01Direct(16, env.PipeOpts{Cap: 0}, 0, false), c01Direct(12, env.PipeOpts{Cap: 0, Serialize: true}, 1, false), c01Direct(24, env.PipeOpts{Cap: 1}, 0, false))
	if tier == "thorough" {
		out = append(out, c01Direct(64, po, 0, false), c01Direct(16, po, 1, false), c01Direct(3, po, 2, true), c01Direct(64, env.PipeOpts{Cap: 0}, 0, false), c01Direct(16, env.PipeOpts{Cap: 0}, 1, false))
	}
	// payloads above 1 KiB (the codec's pooled buffers) with calls in flight at once
	for _, ser := range []bool{false, true} {
		out = append(out, c01DirectSize(2, env.PipeOpts{Cap: 64, Serialize: ser}, 2, false, 1500))
		out = append(out, c01DirectSize(3, env.PipeOpts{Cap: 64, Serialize: ser}, 1, false, 4000))
		out = append(out, c01DirectSize(2, env.PipeOpts{Cap: 0, Serialize: ser}, 1, false, 70000))
	}
	out = append(out, c01Payloads(po), c01Payloads(env.PipeOpts{Cap: 0}))
	out = append(out, c01Seq(po), c01FailedWrite(2), c01FailedWriteOlder("C01", 1))
	for _, kind := range []string{"Unary", "Bidi"} {
		out = append(out, c01ReentrantStats(kind, "nested-call"), c01ReentrantStats(kind, "waits-for-other-call"))
	}
	// the shipped topologies: through a proxy and a demultiplexer (one Serve per client)
	out = append(out, c16RPCFam("C01", "2unary", false, 1), c16RPCFam("C01", "2unary", true, 1), c16RPCFam("C01", "payloads", true, 0))
	// a proxy in front of ONE server connection (no demultiplexer): unary calls of one client while another client streams, equal ids
	out = append(out, c16RPCFamO("C01", "2unary", true, 1, true), c16RPCFamO("C01", "unary+stream", true, 1, true), c16RPCFamO("C01", "unary+stream", false, 1, true))
	// on a connection with a history (earlier calls that succeeded, failed, were cancelled or reset)
	out = append(out, withHistory(historyKinds(tier), c01Direct(2, env.PipeOpts{Cap: 64, Serialize: true}, 1, false), c01Direct(3, env.PipeOpts{Cap: 0}, 1, false), c01Direct(16, po, 0, false))...)
	out = append(out, withConfig(configKinds(tier), c01Direct(2, env.PipeOpts{Cap: 64, Serialize: true}, 1, false), c01Direct(3, env.PipeOpts{Cap: 0}, 1, false), c01Direct(16, po, 0, false))...)
	out = append(out, c01DemuxKeyReuse(1, 0, 1), c01DemuxKeyReuse(3, 0, 0), c01DemuxKeyReuse(2, 1, 0))
	out = append(out, c17DoubleFault("C01", "both-while-forwarder-busy", 1))
	// up to 64 callers whose handlers all wait: every queue of the path is full at once
	out = append(out, c01Gated("direct", 64, 64, 0), c01Gated("direct", 32, 0, 0), c01Gated("demux", 64, 64, 0), c01Gated("demux", 40, 0, 0),
		c01Gated("proxy", 40, 64, 0), c01Gated("proxy", 24, 0, 0), c01Gated("demux", 12, 0, 1), c01Gated("proxy", 64, 0, 0), c01Gated("demux", 20, 64, 1), c01Gated("proxy", 20, 64, 1), c01Gated("direct", 20, 0, 1))
	// finer granularity (a scheduling point after every Unlock as well) on the small core scenarios
	out = append(out, fineGrained(c01Direct(2, env.PipeOpts{Cap: 64}, 2, false), c01Direct(3, env.PipeOpts{Cap: 0}, 1, false))...)
	return out
}

// c01Payloads: the payload alphabet under the default schedule (payload
// content does not interact with scheduling), 3 at a time.
func c01Payloads(po env.PipeOpts) *explore.Scenario {
	sizes := []int{0, 1, 2, 127, 128, 16383, 16384, 65535, 65536}
	return &explore.Scenario{
		Name:   fmt.Sprintf("C01/payloads/cap=%d/ser=%v", po.Cap, po.Serialize),
		Family: "C01/payloads", Prop: "C01", Bound: 0,
		Run: func() {
			w := env.NewWorld()
			d := env.NewDirect(w, env.DirectOpts{Pipe: po})
			vsched.Settle()
			vsched.Explore(true)
			n := 0
			for _, sz := range sizes {
				for pat := 0; pat < 3; pat++ {
					data := make([]byte, sz)
					for i := range data {
						switch pat {
						case 1:
							data[i] = 0xFF
						case 2:
							data[i] = byte(i*31 + 7)
						}
					}
					tag := fmt.Sprintf("p%d", n)
					n++
					req := append([]byte(tag+"|"), data...)
					w.Rec(tag, "Unary")
					w.Unaries[tag] = func(r *env.Rec, ctx context.Context, in string) (string, error) {
						return "R:" + in, nil
					}
					out := new(env.Msg)
					err := d.CC.Invoke(context.Background(), env.MUnary, env.B(req), out)
					if err != nil {
						vsched.Fail("C01/payloads|error", "size %d pattern %d: %v", sz, pat, err)
					} else if !bytes.Equal(out.Value, append([]byte("R:"), req...)) {
						vsched.Fail("C01/payloads|reply", "size %d pattern %d: reply differs (len %d)", sz, pat, len(out.Value))
					}
					r := w.Recs[tag]
					if r.HStarts != 1 || len(r.HReq) != 1 || r.HReq[0] != string(req) {
						vsched.Fail("C01/payloads|request", "size %d pattern %d: handler saw %d invocations / a different request", sz, pat, r.HStarts)
					}
				}
			}
			// reply shapes independent of the request: a reply that encodes to zero bytes
			// (all fields default) is a reply like any other
			for _, rsz := range []int{0, 1, 2000, 70000} {
				for _, reqsz := range []int{0, 5} {
					tag := fmt.Sprintf("r%d", n)
					n++
					reply := strings.Repeat("y", rsz)
					w.Rec(tag, "Unary")
					w.Unaries[tag] = func(r *env.Rec, ctx context.Context, in string) (string, error) { return reply, nil }
					out := new(env.Msg)
					out.Value = []byte("stale") // must be overwritten, also by an empty reply
					err := d.CC.Invoke(context.Background(), env.MUnary, env.B(append([]byte(tag+"|"), make([]byte, reqsz)...)), out)
					if err != nil {
						vsched.Fail("C01/payloads|error", "reply of %d bytes (request %d): caller got %v", rsz, reqsz, err)
					} else if string(out.Value) != reply {
						vsched.Fail("C01/payloads|reply", "reply of %d bytes (request %d): caller got %d bytes", rsz, reqsz, len(out.Value))
					}
					if r := w.Recs[tag]; r.HStarts != 1 {
						vsched.Fail("C01/payloads|request", "reply of %d bytes: handler ran %d times", rsz, r.HStarts)
					}
				}
			}
			vsched.Obs("payload cases=%d", n)
			finishDirect(d, w, true)
		},
	}
}

// c01Seq: a second call explored from a non-initial state (after a first call
// completed) must behave exactly like the first.
func c01Seq(po env.PipeOpts) *explore.Scenario {
	return &explore.Scenario{
		Name:   fmt.Sprintf("C01/after-previous/cap=%d", po.Cap),
		Family: "C01/direct", Prop: "C01", Bound: 2,
		Run: func() {
			w := env.NewWorld()
			d := env.NewDirect(w, env.DirectOpts{Pipe: po})
			r0 := w.Rec("c0", "Unary")
			w.CallUnary(d.CC, context.Background(), r0, "x")
			vsched.Settle()
			vsched.Explore(true)
			r1, r2 := w.Rec("c1", "Unary"), w.Rec("c2", "Unary")
			vsched.GoNamed("caller1", func() { w.CallUnary(d.CC, context.Background(), r1, "x") })
			vsched.GoNamed("caller2", func() { w.CallUnary(d.CC, context.Background(), r2, "y") })
			vsched.Quiesce()
			checkUnary(r0, "x", "C01/direct")
			checkUnary(r1, "x", "C01/direct")
			checkUnary(r2, "y", "C01/direct")
			finishDirect(d, w, true)
		},
	}
}

// c01FailedWrite: call A's request write fails (its context is already done)
// while call B is in flight with a handler that takes its time; call C starts
// after A failed; then B's handler is released. B and C each get their own reply.
func c01FailedWrite(bound int) *explore.Scenario {
	fam := "C01/direct"
	return &explore.Scenario{
		Name: fmt.Sprintf("C01/failed-write-with-others-in-flight/d=%d", bound), Family: fam, Prop: "C01", Bound: bound,
		Run: func() {
			w := env.NewWorld()
			d := env.NewDirect(w, env.DirectOpts{Pipe: env.PipeOpts{Cap: 64}})
			vsched.Settle()
			vsched.Explore(true)
			dead, cancel := context.WithCancel(context.Background())
			cancel()
			release := make(chan struct{})
			a, b, c := w.Rec("a", "Unary"), w.Rec("b", "Unary"), w.Rec("c", "Unary")
			w.Unaries["b"] = func(r *env.Rec, ctx context.Context, in string) (string, error) {
				<-release
				return "R:" + in, nil
			}
			vsched.GoNamed("caller-a", func() { w.CallUnary(d.CC, dead, a, "x") })
			vsched.GoNamed("caller-b", func() { w.CallUnary(d.CC, context.Background(), b, "x") })
			vsched.Quiesce()
			vsched.GoNamed("caller-c", func() { w.CallUnary(d.CC, context.Background(), c, "y") })
			vsched.Quiesce()
			close(release)
			vsched.Quiesce()
			if !a.CDone || a.CErr == nil {
				vsched.Fail(fam+"|dead-call", "the call with a dead context: done=%v err=%v", a.CDone, a.CErr)
			}
			checkUnary(b, "x", fam)
			checkUnary(c, "y", fam)
			finishDirect(d, w, true)
		},
	}
}

// reentrantSH is a client stats handler that, the first time it is shown an
// event of each type, does something with the connection it belongs to.
type reentrantSH struct {
	seen map[string]bool
	n    int
	do   func(rpc int, event string)
}

type reentrantKey struct{}

func (s *reentrantSH) TagRPC(ctx context.Context, _ *stats.RPCTagInfo) context.Context {
	s.n++
	return context.WithValue(ctx, reentrantKey{}, s.n)
}
func (s *reentrantSH) HandleRPC(ctx context.Context, st stats.RPCStats) {
	name := strings.TrimPrefix(fmt.Sprintf("%T", st), "*stats.")
	rpc, _ := ctx.Value(reentrantKey{}).(int)
	if rpc == 1 && !s.seen[name] { // the first RPC tagged is the one whose events trigger something
		s.seen[name] = true
		s.do(rpc, name)
	}
}
func (s *reentrantSH) TagConn(ctx context.Context, _ *stats.ConnTagInfo) context.Context { return ctx }
func (s *reentrantSH) HandleConn(context.Context, stats.ConnStats)                       {}

// c01ReentrantStats: a client stats handler re-enters its own connection from
// HandleRPC. "nested-call": at the first event of every type of the outer RPC
// it makes a nested unary call. "waits-for-other-call": it is slow - at the
// outer RPC's InHeader it waits until ANOTHER caller's call, started meanwhile
// on the same connection, has completed. Every call, outer, nested and
// concurrent, gets its own reply.
func c01ReentrantStats(kind, what string) *explore.Scenario {
	fam := "C01/reentrant-stats"
	return &explore.Scenario{
		Name: fmt.Sprintf("C01/reentrant-stats/%s/%s", kind, what), Family: fam, Prop: "C01", Bound: 0,
		Run: func() {
			w := env.NewWorld()
			var d *env.Direct
			nested := map[string]*env.Rec{}
			otherDone := make(chan struct{})
			waiting := false
			sh := &reentrantSH{seen: map[string]bool{}}
			sh.do = func(rpc int, event string) {
				switch what {
				case "nested-call":
					r := w.Rec("n-"+event, "Unary")
					nested[event] = r
					w.CallUnary(d.CC, context.Background(), r, "x")
				case "waits-for-other-call":
					if event == "InHeader" {
						waiting = true
						<-otherDone
					}
				}
			}
			d = env.NewDirect(w, env.DirectOpts{Pipe: env.PipeOpts{Cap: 64}, DialOpts: []goat.DialOption{goat.WithStatsHandler(sh)}})
			vsched.Settle()
			outer := w.Rec("outer", kind)
			other := w.Rec("other", "Unary")
			vsched.GoNamed("caller-outer", func() {
				if kind == "Unary" {
					w.CallUnary(d.CC, context.Background(), outer, "x")
				} else {
					streamCase{"Bidi", "pingpong", "echo", 1, 0, 0}.runCaller(w, d.CC, context.Background(), outer)
				}
			})
			vsched.Quiesce()
			if what == "waits-for-other-call" {
				if !waiting {
					vsched.Fail(fam+"|harness", "the stats handler never saw the outer call's InHeader")
				}
				vsched.GoNamed("caller-other", func() {
					w.CallUnary(d.CC, context.Background(), other, "y")
					close(otherDone)
				})
				vsched.Quiesce()
			}
			vsched.Obs("%s %s: outer done=%v nested=%d", kind, what, outer.CDone, len(nested))
			if what == "waits-for-other-call" {
				if !other.CDone {
					vsched.Fail(fam+"|hang", "while a stats handler is busy with one call's InHeader event, another caller's unary call on the connection cannot complete; threads: %s", threadList())
				} else {
					checkUnary(other, "y", fam)
				}
			}
			if kind == "Unary" {
				checkUnary(outer, "x", fam)
			} else if !outer.CDone || outer.CErr != io.EOF || len(outer.CRecv) != 1 {
				vsched.Fail(fam+"|hang", "the outer stream did not complete: %s; threads: %s", outer.Summary(), threadList())
			}
			for ev, r := range nested {
				if !r.CDone || r.CErr != nil || r.CReply != "R:"+r.Tag+"|x" {
					vsched.Fail(fam+"|hang", "the call made from the stats handler at event %s: done=%v err=%v reply=%q; threads: %s", ev, r.CDone, r.CErr, r.CReply, threadList())
				}
			}
			if what == "nested-call" && len(nested) < 4 {
				vsched.Fail(fam+"|harness", "only %d event types were seen", len(nested))
			}
			finishDirect(d, w, false)
		},
	}
}

func checkUnary(r *env.Rec, data, fam string) {
	vsched.Obs("%s done=%v err=%s reply=%q handler=%d", r.Tag, r.CDone, env.ErrStr(r.CErr), r.CReply, r.HStarts)
	want := "R:" + r.Tag + "|" + data
	if !r.CDone {
		vsched.Fail(fam+"|hang", "call %s never returned", r.Tag)
		return
	}
	if r.CErr != nil {
		vsched.Fail(fam+"|error", "call %s failed: %v", r.Tag, r.CErr)
	} else if r.CReply != want {
		vsched.Fail(fam+"|reply", "call %s got reply %q, want %q", r.Tag, r.CReply, want)
	}
	if r.HStarts != 1 {
		vsched.Fail(fam+"|handler-count", "handler ran %d times for call %s", r.HStarts, r.Tag)
	} else if r.HReq[0] != r.Tag+"|"+data {
		vsched.Fail(fam+"|request", "handler of %s saw request %q", r.Tag, r.HReq[0])
	}
}

func c01Direct(k int, po env.PipeOpts, bound int, duringStartup bool) *explore.Scenario {
	return c01DirectSize(k, po, bound, duringStartup, 0)
}

// size > 0: request and reply payloads of that many bytes, different for every call.
func c01DirectSize(k int, po env.PipeOpts, bound int, duringStartup bool, size int) *explore.Scenario {
	return &explore.Scenario{
		Name:   fmt.Sprintf("C01/direct/k=%d/cap=%d/ser=%v/startup=%v/size=%d", k, po.Cap, po.Serialize, duringStartup, size),
		Family: "C01/direct",
		Prop:   "C01",
		Bound:  bound,
		Run: func() {
			w := env.NewWorld()
			env.MsgSize = size
			if duringStartup {
				vsched.Explore(true)
			}
			d := env.NewDirect(w, env.DirectOpts{Pipe: po})
			if !duringStartup {
				vsched.Settle()
				vsched.Explore(true)
			}
			var rs []*env.Rec
			for i := 0; i < k; i++ {
				r := w.Rec(fmt.Sprintf("c%d", i), "Unary")
				rs = append(rs, r)
				vsched.GoNamed("caller-"+r.Tag, func() { w.CallUnary(d.CC, context.Background(), r, env.Pad("x"+r.Tag)) })
			}
			vsched.Quiesce()
			for _, r := range rs {
				checkUnary(r, env.Pad("x"+r.Tag), "C01/direct")
			}
			finishDirect(d, w, true)
		},
	}
}

// c01Gated: k callers at once while every handler waits for a gate that opens only when the
// whole system is quiescent: every queue on the path (worker pool, read loop, demultiplexer,
// transport, proxy) holds as much as it can. Each caller must still get its own reply.
// topo: "direct", "demux" (client - Demux - Serve) or "proxy" (client - proxy - Demux - Serve).
func c01Gated(topo string, k, pcap, bound int) *explore.Scenario {
	fam := "C01/gated-" + topo
	if topo == "proxy" && k > 27+pcap {
		// more requests outstanding than the path can hold (8 workers + read loop + demux +
		// transport + writer + the proxy's 16-slot buffer): the proxy's non-blocking hand-over
		// drops the rest (recorded finding; own family so that it masks nothing else)
		fam = "C01/proxy-over-buffer"
	}
	return &explore.Scenario{
		Name: fmt.Sprintf("C01/gated-%s/k=%d/cap=%d", topo, k, pcap), Family: fam, Prop: "C01", Bound: bound,
		Run: func() {
			w := env.NewWorld()
			env.MsgSize = 0
			var cc *goat.ClientConn
			switch topo {
			case "proxy":
				t := env.NewProxyTopo(w, env.ProxyOpts{Clients: 1, PreAttach: true, Cap: pcap})
				cc = t.CCs[0]
			default:
				d := env.NewDirect(w, env.DirectOpts{Pipe: env.PipeOpts{Cap: pcap}, Demux: topo == "demux"})
				cc = d.CC
			}
			vsched.Settle()
			vsched.Explore(true)
			gate := make(chan struct{})
			var rs []*env.Rec
			for i := 0; i < k; i++ {
				r := w.Rec(fmt.Sprintf("c%d", i), "Unary")
				rs = append(rs, r)
				w.Unaries[r.Tag] = func(r *env.Rec, ctx context.Context, in string) (string, error) {
					<-gate
					return "R:" + in, nil
				}
				vsched.GoNamed("caller-"+r.Tag, func() { w.CallUnary(cc, context.Background(), r, "x"+r.Tag) })
			}
			vsched.Quiesce()
			close(gate)
			vsched.Quiesce()
			for _, r := range rs {
				checkUnary(r, "x"+r.Tag, fam)
			}
		},
	}
}

// c01FailedWriteOlder: call A is inside the transport's Write (the transport is slow to refuse
// it) while call B - started later - is in flight with a handler that takes its time; A's write
// then fails; call C starts after that; then B's handler is released. B and C each get their
// own reply; A fails. (An id handed out to a newer call must survive the failure of an older one.)
func c01FailedWriteOlder(prop string, bound int) *explore.Scenario {
	fam := prop + "/failed-write-older"
	return &explore.Scenario{
		Name: fmt.Sprintf("%s/failed-write-of-an-older-call/d=%d", prop, bound), Family: fam, Prop: prop, Bound: bound,
		Run: func() {
			w := env.NewWorld()
			d := env.NewDirect(w, env.DirectOpts{Pipe: env.PipeOpts{Cap: 64}})
			vsched.Settle()
			idle := c14State(d)
			gateA, release := make(chan struct{}), make(chan struct{})
			d.Pipe.A.OnWriteCall = func(k int, rpc *env.Rpc) {
				if b := rpc.GetBody(); b != nil && bytes.Contains(b.GetData(), []byte("a|x")) {
					<-gateA
					d.Pipe.A.FailNextWrites = 1
				}
			}
			vsched.Explore(true)
			a, b, c := w.Rec("a", "Unary"), w.Rec("b", "Unary"), w.Rec("c", "Unary")
			w.Unaries["b"] = func(r *env.Rec, ctx context.Context, in string) (string, error) {
				<-release
				return "R:" + in, nil
			}
			vsched.GoNamed("caller-a", func() { w.CallUnary(d.CC, context.Background(), a, "x") })
			vsched.Quiesce()
			vsched.GoNamed("caller-b", func() { w.CallUnary(d.CC, context.Background(), b, "x") })
			vsched.Quiesce()
			close(gateA)
			vsched.Quiesce()
			vsched.GoNamed("caller-c", func() { w.CallUnary(d.CC, context.Background(), c, "y") })
			vsched.Quiesce()
			close(release)
			vsched.Quiesce()
			if !a.CDone || a.CErr == nil || a.HStarts != 0 {
				vsched.Fail(fam+"|failed-call", "the call whose request write failed: done=%v err=%v handler runs=%d", a.CDone, a.CErr, a.HStarts)
			}
			checkUnary(b, "x", fam)
			checkUnary(c, "y", fam)
			if st := c14State(d); st != idle && a.CDone && b.CDone && c.CDone {
				vsched.Fail(fam+"|not-idle:"+diffKey(idle, st), "after an older call's write failed with a newer call in flight, and all calls returned, the connection did not return to its idle state:\n%s", diffStates(idle, st))
			}
			finishDirect(d, w, true)
		},
	}
}

// c01DemuxKeyReuse: calls through client - Demux - Serve; then the key's logical connection is
// cancelled (Demux.Cancel, its Serve returns); then the same client goes on calling: the key is
// used again and is a new logical connection with a Serve of its own. `between` other keys'
// envelopes pass through the Demux between the cancel and the reuse (0: none).
func c01DemuxKeyReuse(rounds, between, bound int) *explore.Scenario {
	fam := "C01/demux-key-reuse"
	return &explore.Scenario{
		Name: fmt.Sprintf("C01/demux-key-reuse/rounds=%d/other-keys-between=%d", rounds, between), Family: fam, Prop: "C01", Bound: bound,
		Run: func() {
			w := env.NewWorld()
			d := env.NewDirect(w, env.DirectOpts{Pipe: env.PipeOpts{Cap: 64}, Demux: true})
			vsched.Settle()
			vsched.Explore(true)
			n := 0
			for round := 0; round <= rounds; round++ {
				var rs []*env.Rec
				for i := 0; i < 2; i++ {
					r := w.Rec(fmt.Sprintf("c%d", n), "Unary")
					n++
					rs = append(rs, r)
					vsched.GoNamed("caller-"+r.Tag, func() { w.CallUnary(d.CC, context.Background(), r, "x"+r.Tag) })
				}
				vsched.Quiesce()
				for _, r := range rs {
					checkUnary(r, "x"+r.Tag, fam)
				}
				if round == rounds {
					break
				}
				d.Demux.Cancel("cli")
				vsched.Quiesce()
				for i := 0; i < between; i++ {
					// a request from another source: a logical connection (and Serve) of its own
					o := w.Rec(fmt.Sprintf("o%d.%d", round, i), "Unary")
					req := env.ReqUnary(uint64(7000+n), o.Tag, "x")
					req.Header.Source = fmt.Sprintf("other%d", i)
					d.Pipe.A.Inject(req)
					vsched.Quiesce()
					if o.HStarts != 1 {
						vsched.Fail(fam+"|other-key", "a request from another source after key cli was cancelled: its handler ran %d times", o.HStarts)
					}
				}
			}
			finishDirect(d, w, false) // (wire protocol)
		},
	}
}

// c01TwoServes: one Server serving two transports at once (Serve may be called once per connection);
// k callers on each connection start together, so the two connections use the same stream ids at
// the same time. Each caller gets the reply to its own request, on its own connection.
func c01TwoServes(k, capn, bound int) *explore.Scenario {
	fam := "C01/two-serves"
	return &explore.Scenario{
		Name: fmt.Sprintf("C01/two-serves/k=%d/cap=%d/d=%d", k, capn, bound), Family: fam, Prop: "C01", Bound: bound,
		Run: func() {
			w := env.NewWorld()
			d := env.NewDirect(w, env.DirectOpts{Pipe: env.PipeOpts{Cap: capn}})
			p2 := env.NewPipe(d.Tap, env.PipeOpts{Name: "w2", Cap: capn})
			serve2Done := false
			vsched.GoNamed("serve2", func() { d.Srv.Serve(context.Background(), p2.B); serve2Done = true })
			cc2 := goat.NewClientConn(p2.A, "cli2", "srv")
			vsched.Settle()
			vsched.Explore(true)
			var recs []*env.Rec
			for i := 0; i < k; i++ {
				for j, cc := range []grpc.ClientConnInterface{d.CC, cc2} {
					cc := cc
					r := w.Rec(fmt.Sprintf("c%d-%d", j+1, i), "Unary")
					recs = append(recs, r)
					vsched.GoNamed("caller-"+r.Tag, func() { w.CallUnary(cc, context.Background(), r, "req-"+r.Tag) })
				}
			}
			vsched.Quiesce()
			for _, r := range recs {
				checkUnary(r, "req-"+r.Tag, fam)
			}
			for _, e := range d.Tap.Events {
				if e.Dir != "b2a" {
					continue
				}
				dst := e.Rpc.GetHeader().GetDestination()
				if (e.Wire == "w" && dst != "cli") || (e.Wire == "w2" && dst != "cli2") {
					vsched.Fail(fam+"|wrong-connection", "a reply for %q (id %d) was written on the connection of the other client (wire %s)", dst, e.Rpc.GetId(), e.Wire)
				}
			}
			// a second round after the first connection has gone: the other connection is not affected
			d.Pipe.A.Break()
			d.Pipe.B.Break()
			vsched.Quiesce()
			late := w.Rec("late", "Unary")
			vsched.GoNamed("caller-late", func() { w.CallUnary(cc2, context.Background(), late, "req-late") })
			vsched.Quiesce()
			checkUnary(late, "req-late", fam)
			p2.A.Break()
			p2.B.Break()
			vsched.Quiesce()
			if !d.ServeDone || !serve2Done {
				vsched.Fail(fam+"|serve-hang", "Serve did not return on both connections after they closed")
			}
			finishDirect(d, w, false) // (wire protocol)
		},
	}
}
