package props

import (
	"context"
	"fmt"

	"github.com/avos-io/goat/vh/env"
	"github.com/avos-io/goat/vrt/explore"
	"github.com/avos-io/goat/vrt/vsched"
)

func init() { register("C01", c01) }

func c01(tier string) []*explore.Scenario {
	var out []*explore.Scenario
	for _, ser := range []bool{false, true} {
		for _, cp := range []int{0, 64} {
			po := env.PipeOpts{Cap: cp, Serialize: ser}
			out = append(out, c01Direct(2, po, 2))
			out = append(out, c01Direct(3, po, 1))
		}
	}
	return out
}

func c01Direct(k int, po env.PipeOpts, bound int) *explore.Scenario {
	return &explore.Scenario{
		Name:   fmt.Sprintf("C01/direct/k=%d/cap=%d/ser=%v", k, po.Cap, po.Serialize),
		Family: "C01/direct",
		Bound:  bound,
		Run: func() {
			calls := map[string]int{}
			impl := &env.Svc{UnaryFn: func(ctx context.Context, in *env.Msg) (*env.Msg, error) {
				calls[string(in.Value)]++
				return env.S("R:" + string(in.Value)), nil
			}}
			d := env.NewDirect(impl, env.DirectOpts{Pipe: po})
			vsched.Settle()
			vsched.Explore(true)
			type res struct {
				done  bool
				err   error
				reply string
			}
			rs := make([]res, k)
			for i := 0; i < k; i++ {
				i := i
				vsched.GoNamed(fmt.Sprintf("caller%d", i), func() {
					out := new(env.Msg)
					err := d.CC.Invoke(context.Background(), env.MUnary, env.S(fmt.Sprintf("q%d", i)), out)
					rs[i] = res{true, err, string(out.Value)}
				})
			}
			vsched.Quiesce()
			for i := range rs {
				q := fmt.Sprintf("q%d", i)
				vsched.Obs("call%d done=%v err=%v reply=%q handler=%d", i, rs[i].done, rs[i].err, rs[i].reply, calls[q])
				if !rs[i].done {
					vsched.Fail("C01/direct|hang", "call %d never returned", i)
					continue
				}
				if rs[i].err != nil {
					vsched.Fail("C01/direct|error", "call %d failed: %v", i, rs[i].err)
				} else if rs[i].reply != "R:"+q {
					vsched.Fail("C01/direct|reply", "call %d got reply %q, want %q", i, rs[i].reply, "R:"+q)
				}
				if calls[q] != 1 {
					vsched.Fail("C01/direct|handler-count", "handler ran %d times for request %q", calls[q], q)
				}
			}
		},
	}
}
