package props

import (
	"context"
	"fmt"
	"strings"
	"time"

	"google.golang.org/protobuf/proto"

	goat "github.com/avos-io/goat"
	"github.com/avos-io/goat/gen/goatorepo"
	"github.com/avos-io/goat/vh/env"
	"github.com/avos-io/goat/vrt/explore"
	"github.com/avos-io/goat/vrt/vsched"
)

func init() { register("C18", c18) }

func c18(tier string) []*explore.Scenario {
	var out []*explore.Scenario
	bound := 1
	if tier == "thorough" {
		bound = 2
	}
	out = append(out, c18Delivery(2, 2, bound, false), c18Delivery(2, 2, 0, true), c18Delivery(3, 1, bound-0, false))
	// the statement's full range of keys: one arrival order, schedules searched
	out = append(out, c18DeliveryO(8, 2, 1, false, true), c18DeliveryO(8, 3, 0, true, true), c18DeliveryO(5, 1, 0, false, false))
	if tier == "thorough" {
		out = append(out, c18Delivery(3, 2, 1, false), c18Delivery(8, 1, 0, false))
	}
	for k := 0; k <= 4; k++ {
		out = append(out, c18Cancel(k, false, bound))
	}
	out = append(out, c18Cancel(0, true, bound+1))
	for k := 0; k <= 3; k++ {
		out = append(out, c18Stop(k, bound))
	}
	for _, newKey := range []bool{true, false} {
		out = append(out, c18StopRace(newKey, bound+1))
	}
	out = append(out, c18WriteFault(bound), c18StatefulKey(bound), c18CancelWhileWriting(bound))
	out = append(out, c18ReuseWhileOldWriteStuck("completes", bound), c18ReuseWhileOldWriteStuck("never", bound))
	out = append(out, c18DoubleCancel(0, 2), c18DoubleCancel(3, 2))
	out = append(out, c18DoneCtxRead(2, 2), c18DoneCtxRead(3, 1))
	seqLen := 5
	if tier == "thorough" {
		seqLen = 7
	}
	for first := 0; first < len(c18Ops); first++ {
		out = append(out, c18OpSeq(first, seqLen))
	}
	// complete RPC workloads from several logical clients over one shared transport (through the proxy topology)
	out = append(out, donors("C18", []*explore.Scenario{c16RPC("2unary", true, bound), c16RPC("unary+stream", true, bound)})...)
	// finer granularity (a scheduling point after every Unlock as well) on the small core scenarios
	out = append(out, fineGrained(c18Delivery(2, 2, 1, false), c18DoubleCancel(3, 1))...)
	return out
}

type c18Env struct {
	tap      *env.Tap
	shared   *env.Pipe
	dm       *goat.Demux
	cancel   context.CancelFunc
	runDone  bool
	conns    []goat.RpcReadWriter
	announce []string           // key of each announced connection (learnt from its first envelope), "" until known
	got      map[int][]*env.Rpc // per announced connection index
	readErr  map[int]error
	consumed map[int]bool  // consumer finished
	first    chan struct{} // closed when the first connection is announced
}

// newC18 builds a demux over a shared pipe; every announced logical
// connection gets a consumer thread that reads until an error and acks every
// envelope by writing it back with Id+1000.
func newC18(autoConsume bool) *c18Env {
	e := &c18Env{tap: &env.Tap{}, got: map[int][]*env.Rpc{}, readErr: map[int]error{}, consumed: map[int]bool{}, first: make(chan struct{})}
	e.shared = env.NewPipe(e.tap, env.PipeOpts{Name: "shared", Cap: 64})
	ctx, cancel := context.WithCancel(context.Background())
	e.cancel = cancel
	e.dm = goat.NewDemux(ctx, e.shared.B, func(r *env.Rpc) string { return r.GetHeader().GetSource() }, func(rw goat.RpcReadWriter) {
		idx := len(e.conns)
		e.conns = append(e.conns, rw)
		if idx == 0 {
			close(e.first)
		}
		if autoConsume {
			e.consume(idx)
		}
	})
	vsched.GoNamed("demux-run", func() { e.dm.Run(); e.runDone = true })
	return e
}

func (e *c18Env) consume(idx int) {
	rw := e.conns[idx]
	for {
		rpc, err := rw.Read(context.Background())
		if err != nil {
			e.readErr[idx] = err
			break
		}
		e.got[idx] = append(e.got[idx], rpc)
		ack := proto.Clone(rpc).(*env.Rpc)
		ack.Id += 1000
		if err := rw.Write(context.Background(), ack); err != nil {
			break
		}
	}
	e.consumed[idx] = true
}

// c18Msg: envelope number id of a key. The demultiplexer routes by key alone, so the envelopes
// come in every kind a peer sends - by id: a reset (1, 5, ..), a message (2, 6, ..), a
// trailer with status (3, 7, ..), a header-only opening envelope (0, 4, ..) - and whichever
// kind happens to be the first one of a key announces its connection.
func c18Msg(id uint64, key string) *env.Rpc {
	r := &env.Rpc{Id: id, Header: &goatorepo.RequestHeader{Method: "/x/Y", Source: key, Destination: "srv",
		Headers: []*goatorepo.KeyValue{{Key: "n", Value: fmt.Sprint(id)}}}}
	switch id % 4 {
	case 1:
		r.Reset_ = &goatorepo.Reset{Type: "RST_STREAM"}
		r.Trailer = &goatorepo.Trailer{}
	case 2:
		r.Body = &goatorepo.Body{Data: []byte(key)}
	case 3:
		r.Status = &goatorepo.ResponseStatus{Code: 0}
		r.Trailer = &goatorepo.Trailer{}
	}
	return r
}

// c18Delivery: nk keys x per envelopes each, every arrival interleaving.
func c18Delivery(nk, per, bound int, lateConsumers bool) *explore.Scenario {
	return c18DeliveryO(nk, per, bound, lateConsumers, false)
}

// roundRobin: one fixed arrival order (k0,k1,..,k0,k1,..) instead of every interleaving - for the
// statement's larger key counts, where the schedule search is what is affordable.
func c18DeliveryO(nk, per, bound int, lateConsumers, roundRobin bool) *explore.Scenario {
	fam := "C18/delivery"
	name := fmt.Sprintf("C18/delivery/keys=%d/per=%d/late=%v", nk, per, lateConsumers)
	if roundRobin {
		name += "/round-robin"
	}
	return &explore.Scenario{
		Name: name, Family: fam, Prop: "C18", Bound: bound, MaxExecs: 2000000,
		Run: func() {
			e := newC18(!lateConsumers)
			vsched.Settle()
			vsched.Explore(true)
			remaining := make([]int, nk)
			for i := range remaining {
				remaining[i] = per
			}
			var order []string
			sent := map[string][]uint64{}
			id := uint64(0)
			vsched.GoNamed("remote", func() {
				for {
					var avail []int
					for k, n := range remaining {
						if n > 0 {
							avail = append(avail, k)
						}
					}
					if len(avail) == 0 {
						return
					}
					var k int
					if roundRobin {
						k = avail[0]
						for _, a := range avail {
							if remaining[a] > remaining[k] {
								k = a
							}
						}
					} else {
						k = avail[vsched.Choose(len(avail))]
					}
					remaining[k]--
					id++
					key := c18Key(k)
					order = append(order, key)
					sent[key] = append(sent[key], id)
					e.shared.A.Inject(c18Msg(id, key))
				}
			})
			vsched.Quiesce()
			if lateConsumers {
				// consumers start only now; connections are announced as the run loop gets unblocked
				started := 0
				for round := 0; round < nk+1; round++ {
					for ; started < len(e.conns); started++ {
						idx := started
						vsched.GoNamed(fmt.Sprintf("consumer%d", idx), func() { e.consume(idx) })
					}
					vsched.Quiesce()
				}
			}
			vsched.Obs("order=%v announced=%d", order, len(e.conns))
			if len(e.conns) != nk {
				vsched.Fail(fam+"|announce-count", "%d keys in use (arrival order %v) but %d logical connections were announced", nk, order, len(e.conns))
			}
			// every announced connection carries exactly one key's envelopes, in arrival order
			seenKey := map[string]bool{}
			for idx := range e.conns {
				g := e.got[idx]
				if len(g) == 0 {
					vsched.Fail(fam+"|empty-connection", "announced connection %d received nothing (arrival order %v)", idx, order)
					continue
				}
				key := g[0].Header.Source
				if seenKey[key] {
					vsched.Fail(fam+"|announced-twice", "key %s was announced twice", key)
				}
				seenKey[key] = true
				var ids []uint64
				for _, r := range g {
					if r.Header.Source != key {
						vsched.Fail(fam+"|foreign-envelope", "connection of key %s received an envelope of key %s", key, r.Header.Source)
					}
					ids = append(ids, r.Id)
				}
				if fmt.Sprint(ids) != fmt.Sprint(sent[key]) {
					vsched.Fail(fam+"|order-or-loss", "key %s: received ids %v, arrival order was %v", key, ids, sent[key])
				}
			}
			// acks written on logical connections reach the shared transport unchanged
			acks := 0
			for _, ev := range e.tap.Events {
				if ev.Dir == "b2a" {
					acks++
					orig := c18Msg(ev.Rpc.Id-1000, ev.Rpc.Header.Source)
					orig.Id += 1000
					if !proto.Equal(orig, ev.Rpc) {
						vsched.Fail(fam+"|write-altered", "an envelope written on a logical connection reached the shared transport altered: %v", ev.Rpc)
					}
				}
			}
			if acks != nk*per {
				vsched.Fail(fam+"|write-lost", "%d envelopes were written on logical connections, %d reached the shared transport", nk*per, acks)
			}
			e.dm.Stop()
			e.shared.A.Break()
			e.shared.B.Break()
			vsched.Quiesce()
			if !e.runDone {
				vsched.Fail(fam+"|run-hang", "Run did not return after Stop; threads: %s", threadList())
			}
		},
	}
}

// c18Cancel: Cancel(k0) after `step` envelopes of k0 (and one of k1), at
// quiescence or concurrently with the traffic.
func c18Cancel(step int, concurrent bool, bound int) *explore.Scenario {
	fam := "C18/cancel"
	return &explore.Scenario{
		Name: fmt.Sprintf("C18/cancel/after=%d/concurrent=%v", step, concurrent), Family: fam, Prop: "C18", Bound: bound,
		Run: func() {
			e := newC18(true)
			vsched.Settle()
			vsched.Explore(true)
			script := []*env.Rpc{c18Msg(1, "k0"), c18Msg(2, "k1"), c18Msg(3, "k0"), c18Msg(4, "k0")}
			doCancel := func() { e.dm.Cancel("k0") }
			if concurrent {
				// the canceller waits until k0's connection has been announced (k0 is the
				// first key), then races with deliveries, the consumer's reads and its acks
				vsched.GoNamed("canceller", func() {
					<-e.first
					doCancel()
				})
			}
			vsched.GoNamed("remote", func() {
				for i, m := range script {
					if !concurrent && i == step {
						return
					}
					e.shared.A.Inject(m)
				}
			})
			if !concurrent {
				// sequential variant: drive from the root instead
			}
			vsched.Quiesce()
			if !concurrent {
				doCancel()
				vsched.Quiesce()
				// the rest of the conversation: a cancelled key that is used again is a new connection
				for _, m := range script[min(step, len(script)):] {
					e.shared.A.Inject(m)
				}
				vsched.Quiesce()
			}
			// after the cancel: the old logical connection of k0 must fail reads and writes
			var k0 goat.RpcReadWriter
			k0idx := -1
			if len(e.conns) > 0 && (step > 0 || concurrent) {
				k0, k0idx = e.conns[0], 0 // k0 is the first key of the script
			}
			if k0 != nil {
				wdone, rdone := false, false
				var werr, rerr error
				vsched.GoNamed("late-writer", func() { werr = k0.Write(context.Background(), c18Msg(99, "k0")); wdone = true })
				vsched.GoNamed("late-reader", func() { _, rerr = k0.Read(context.Background()); rdone = true })
				vsched.Quiesce()
				vsched.Obs("late write done=%v err=%v; late read done=%v err=%v; consumer done=%v", wdone, werr, rdone, rerr, e.consumed[k0idx])
				if !e.consumed[k0idx] {
					vsched.Fail(fam+"|reader-parked", "after Cancel(k0) the reader of its logical connection is still blocked")
				}
				if !wdone {
					vsched.Fail(fam+"|write-blocks", "after Cancel(k0) a Write on its logical connection blocks forever")
				} else if werr == nil {
					vsched.Fail(fam+"|write-succeeds", "after Cancel(k0) a Write on its logical connection succeeded")
				}
				if !rdone {
					vsched.Fail(fam+"|read-blocks", "after Cancel(k0) a Read on its logical connection blocks forever")
				} else if rerr == nil {
					vsched.Fail(fam+"|read-succeeds", "after Cancel(k0) a Read on its logical connection returned an envelope")
				}
			}
			// a cancelled key that is used again is a new connection: what arrives for k0 after the
			// cancel must be announced and delivered again
			if !concurrent {
				for _, m := range script[min(step, len(script)):] {
					if m.Header.Source != "k0" {
						continue
					}
					n := 0
					for idx := range e.conns {
						if idx == k0idx {
							continue
						}
						for _, r := range e.got[idx] {
							if r.Id == m.Id {
								n++
							}
						}
					}
					if n != 1 {
						vsched.Fail(fam+"|reused-key-lost", "envelope %d for key k0 arrived after Cancel(k0) (cancel after %d envelopes): delivered %d times on a newly announced connection (announced %d connections); threads: %s", m.Id, step, n, len(e.conns), threadList())
					}
				}
			}
			// the other key is unaffected
			okK1 := false
			for idx := range e.conns {
				for _, r := range e.got[idx] {
					if r.Id == 2 && r.Header.Source == "k1" {
						okK1 = true
					}
				}
			}
			if !okK1 {
				vsched.Fail(fam+"|other-key-disturbed", "key k1's envelope was not delivered; threads: %s", threadList())
			}
			e.dm.Stop()
			e.shared.A.Break()
			e.shared.B.Break()
			vsched.Quiesce()
			if !e.runDone {
				vsched.Fail(fam+"|run-hang", "Run did not return after Stop; threads: %s", threadList())
			}
		},
	}
}

// c18Stop: Stop after `step` envelopes, with a consumer that does not read.
func c18Stop(step, bound int) *explore.Scenario {
	fam := "C18/stop"
	return &explore.Scenario{
		Name: fmt.Sprintf("C18/stop/after=%d", step), Family: fam, Prop: "C18", Bound: bound,
		Run: func() {
			e := newC18(false) // nobody consumes: Run parks delivering the first envelope
			vsched.Settle()
			vsched.Explore(true)
			script := []*env.Rpc{c18Msg(1, "k0"), c18Msg(2, "k1"), c18Msg(3, "k0")}
			vsched.GoNamed("remote", func() {
				for i, m := range script {
					if i == step {
						e.dm.Stop()
					}
					e.shared.A.Inject(m)
				}
				if step >= len(script) {
					e.dm.Stop()
				}
			})
			vsched.Quiesce()
			vsched.Obs("runDone=%v announced=%d", e.runDone, len(e.conns))
			if !e.runDone {
				vsched.Fail(fam+"|run-hang", "Stop did not end the run loop (stopped after %d envelopes; nobody consumes); threads: %s", step, strings.ReplaceAll(threadList(), ";", ";\n"))
			}
		},
	}
}

var c18Ops = []string{"in:k0", "in:k1", "cancel:k0", "cancel:k1", "cancel:unknown", "stop"}

// c18OpSeq: every sequence of demux operations up to maxLen (first operation
// fixed per scenario, the rest chosen) - envelopes for two keys, Cancel of
// either key or of a key never seen, Stop, in any order and repetition
// (Cancel after Stop, Cancel twice, Stop twice, a cancelled key used again) -
// against a reference model of which connections are announced and what each
// receives. Consumers read and ack at once; the system quiesces between
// operations.
func c18OpSeq(first, maxLen int) *explore.Scenario {
	fam := "C18/opseq"
	return &explore.Scenario{
		Name: fmt.Sprintf("C18/opseq/first=%s/len<=%d", c18Ops[first], maxLen), Family: fam, Prop: "C18", Bound: 0, MaxExecs: 3000000,
		Run: func() {
			e := newC18(true)
			vsched.Settle()
			seq := ""
			var wantAnnounce []string     // model: key of each announced connection, in order
			live := map[string]int{}      // model: key -> index of its current connection (absent: none)
			wantGot := map[int][]uint64{} // model: ids each connection receives
			cancelled := map[int]bool{}   // model: connection index was cancelled
			stopped := false
			nextID := uint64(1)
			for pos := 0; pos < maxLen; pos++ {
				op := first
				if pos > 0 {
					c := vsched.Choose(len(c18Ops) + 1)
					if c == len(c18Ops) {
						break
					}
					op = c
				}
				name := c18Ops[op]
				seq += " " + name
				switch {
				case strings.HasPrefix(name, "in:"):
					key := name[3:]
					e.shared.A.Inject(c18Msg(nextID, key))
					if !stopped {
						idx, ok := live[key]
						if !ok {
							idx = len(wantAnnounce)
							wantAnnounce = append(wantAnnounce, key)
							live[key] = idx
						}
						wantGot[idx] = append(wantGot[idx], nextID)
					}
					nextID++
				case strings.HasPrefix(name, "cancel:"):
					key := name[7:]
					e.dm.Cancel(key)
					if idx, ok := live[key]; ok {
						cancelled[idx] = true
						delete(live, key)
					}
				case name == "stop":
					e.dm.Stop()
					stopped = true
				}
				vsched.Quiesce()
			}
			vsched.Obs("seq:%s | announced=%d runDone=%v", seq, len(e.conns), e.runDone)
			if stopped && !e.runDone {
				vsched.Fail(fam+"|run-hang", "after%s: Stop did not end the run loop; threads: %s", seq, threadList())
			}
			if len(e.conns) != len(wantAnnounce) {
				vsched.Fail(fam+"|announce-count", "after%s: %d connections announced, want %d (%v)", seq, len(e.conns), len(wantAnnounce), wantAnnounce)
				return
			}
			for idx, key := range wantAnnounce {
				var ids []uint64
				for _, r := range e.got[idx] {
					ids = append(ids, r.Id)
					if r.GetHeader().GetSource() != key {
						vsched.Fail(fam+"|wrong-connection", "after%s: connection %d (key %s) received envelope %d of key %s", seq, idx, key, r.Id, r.GetHeader().GetSource())
					}
				}
				if fmt.Sprint(ids) != fmt.Sprint(wantGot[idx]) {
					vsched.Fail(fam+"|delivery", "after%s: connection %d (key %s) received %v, want %v", seq, idx, key, ids, wantGot[idx])
				}
				for _, id := range wantGot[idx] {
					// every envelope was acked by its consumer: the ack reached the shared transport unchanged
					n := 0
					for _, ev := range e.tap.Events {
						if ev.Dir == "b2a" && ev.Rpc.GetId() == id+1000 {
							n++
						}
					}
					if n != 1 && !cancelled[idx] && !stopped {
						vsched.Fail(fam+"|write-lost", "after%s: the ack for envelope %d written on connection %d reached the shared transport %d times", seq, id, idx, n)
					}
				}
				if cancelled[idx] {
					rw := e.conns[idx]
					wdone, rdone := false, false
					var werr, rerr error
					vsched.GoNamed("late-writer", func() { werr = rw.Write(context.Background(), c18Msg(99, key)); wdone = true })
					vsched.GoNamed("late-reader", func() { _, rerr = rw.Read(context.Background()); rdone = true })
					vsched.Quiesce()
					if !e.consumed[idx] {
						vsched.Fail(fam+"|reader-parked", "after%s: the reader of cancelled connection %d (key %s) is still blocked", seq, idx, key)
					}
					if !wdone || werr == nil {
						vsched.Fail(fam+"|write-after-cancel", "after%s: a Write on cancelled connection %d (key %s): returned=%v err=%v", seq, idx, key, wdone, werr)
					}
					if !rdone || rerr == nil {
						vsched.Fail(fam+"|read-after-cancel", "after%s: a Read on cancelled connection %d (key %s): returned=%v err=%v", seq, idx, key, rdone, rerr)
					}
				}
			}
			e.dm.Stop()
			e.shared.A.Break()
			e.shared.B.Break()
			vsched.Quiesce()
			if !e.runDone {
				vsched.Fail(fam+"|run-hang", "after%s: Run did not return after Stop; threads: %s", seq, threadList())
			}
		},
	}
}

// c18StopRace: Stop runs concurrently with the arrival of an envelope (for a
// key seen before / never seen); afterwards Cancel of every key returns, and
// reads and writes on the connections that were announced fail.
func c18StopRace(newKey bool, bound int) *explore.Scenario {
	fam := "C18/stop"
	return &explore.Scenario{
		Name: fmt.Sprintf("C18/stop-race/new-key=%v", newKey), Family: fam, Prop: "C18", Bound: bound,
		Run: func() {
			e := newC18(true)
			vsched.Settle()
			e.shared.A.Inject(c18Msg(1, "k0"))
			vsched.Quiesce()
			vsched.Explore(true)
			key := "k0"
			if newKey {
				key = "k1"
			}
			vsched.GoNamed("remote", func() { e.shared.A.Inject(c18Msg(2, key)) })
			vsched.GoNamed("stopper", func() { e.dm.Stop() })
			vsched.Quiesce()
			if !e.runDone {
				vsched.Fail(fam+"|run-hang", "Stop concurrent with an arriving envelope for %s did not end the run loop; threads: %s", key, threadList())
			}
			cancelled := 0
			vsched.GoNamed("canceller", func() {
				for _, k := range []string{"k0", "k1", "never-seen"} {
					e.dm.Cancel(k)
					cancelled++
				}
			})
			vsched.Quiesce()
			if cancelled != 3 {
				vsched.Fail(fam+"|cancel-hang", "after Stop raced with an envelope for %s, Cancel blocks forever (%d of 3 Cancel calls returned); threads: %s", key, cancelled, threadList())
				return
			}
			for idx, rw := range e.conns {
				rw := rw
				wdone, rdone := false, false
				var werr, rerr error
				vsched.GoNamed("late-writer", func() { werr = rw.Write(context.Background(), c18Msg(99, "x")); wdone = true })
				vsched.GoNamed("late-reader", func() { _, rerr = rw.Read(context.Background()); rdone = true })
				vsched.Quiesce()
				if !wdone || werr == nil || !rdone || rerr == nil {
					vsched.Fail(fam+"|use-after-cancel", "connection %d after Stop and Cancel: write returned=%v err=%v, read returned=%v err=%v", idx, wdone, werr, rdone, rerr)
				}
			}
			e.shared.A.Break()
			e.shared.B.Break()
			vsched.Quiesce()
			if ts := vsched.Threads(); len(ts) > 0 {
				vsched.Fail(fam+"|goroutine-leak", "after Stop, Cancel of every key and the transport closing: %s", threadList())
			}
		},
	}
}

// c18WriteFault: the shared transport refuses ONE write (of an envelope written
// on key k0's connection). That concerns k0 at most: envelopes written on k1's
// connection afterwards still reach the shared transport, unchanged, in order,
// and k1's reads still work.
func c18WriteFault(bound int) *explore.Scenario {
	fam := "C18/write-fault"
	return &explore.Scenario{
		Name: "C18/write-fault/one-refused-write", Family: fam, Prop: "C18", Bound: bound,
		Run: func() {
			e := newC18(false)
			vsched.Settle()
			reads := map[int]int{}
			for i, key := range []string{"k0", "k1"} {
				i := i
				e.shared.A.Inject(c18Msg(uint64(1+i), key))
				vsched.Quiesce() // the connection is announced; Run is parked handing over its first envelope
				if len(e.conns) != i+1 {
					break
				}
				vsched.GoNamed(fmt.Sprintf("first-read-%d", i), func() {
					if _, err := e.conns[i].Read(context.Background()); err == nil {
						reads[i]++
					}
				})
				vsched.Quiesce()
			}
			if len(e.conns) != 2 || reads[0] != 1 || reads[1] != 1 {
				vsched.Fail(fam+"|harness", "setup: %d connections, reads %v", len(e.conns), reads)
				return
			}
			vsched.Explore(true)
			e.shared.B.FailNextWrites = 1
			w0done, w1done := false, false
			var w1errs []error
			vsched.GoNamed("writer-k0", func() {
				e.conns[0].Write(context.Background(), c18Msg(100, "k0")) // this one is refused by the transport
				w0done = true
			})
			vsched.Quiesce()
			vsched.GoNamed("writer-k1", func() {
				for id := uint64(200); id < 203; id++ {
					w1errs = append(w1errs, e.conns[1].Write(context.Background(), c18Msg(id, "k1")))
				}
				w1done = true
			})
			vsched.Quiesce()
			var got []uint64
			for _, ev := range e.tap.Events {
				if ev.Dir == "b2a" && ev.Rpc.GetId() >= 200 {
					got = append(got, ev.Rpc.GetId())
				}
			}
			vsched.Obs("k0 write returned=%v; k1 writes done=%v errs=%v on-transport=%v", w0done, w1done, w1errs, got)
			if !w1done {
				vsched.Fail(fam+"|other-key-blocked", "one write on k0's connection was refused by the shared transport; writes on k1's connection now block; threads: %s", threadList())
			} else if fmt.Sprint(got) != "[200 201 202]" {
				vsched.Fail(fam+"|other-key-lost", "one write on k0's connection was refused by the shared transport; k1's connection then accepted 3 writes (errors %v) of which %v reached the shared transport", w1errs, got)
			}
			e.shared.A.Inject(c18Msg(3, "k1"))
			rd := false
			vsched.GoNamed("reader-k1", func() { _, err := e.conns[1].Read(context.Background()); rd = err == nil })
			vsched.Quiesce()
			if !rd {
				vsched.Fail(fam+"|other-key-blocked", "after the refused write, k1's connection no longer receives")
			}
			e.dm.Stop()
			e.shared.A.Break()
			e.shared.B.Break()
			vsched.Quiesce()
		},
	}
}

// c18StatefulKey: the caller's key function is not a pure function of the
// envelope - it spreads one peer's envelopes round-robin over two keys (a
// sharding policy). The demux asks it once per envelope; two connections are
// announced, each exactly once, and each receives its alternate envelopes in order.
func c18StatefulKey(bound int) *explore.Scenario {
	fam := "C18/key-function"
	return &explore.Scenario{
		Name: "C18/key-function/round-robin", Family: fam, Prop: "C18", Bound: bound,
		Run: func() {
			tap := &env.Tap{}
			shared := env.NewPipe(tap, env.PipeOpts{Name: "shared", Cap: 64})
			calls := 0
			var conns []goat.RpcReadWriter
			got := map[int][]uint64{}
			ctx, cancel := context.WithCancel(context.Background())
			defer cancel()
			var dm *goat.Demux
			dm = goat.NewDemux(ctx, shared.B, func(r *env.Rpc) string {
				calls++
				return fmt.Sprintf("shard%d", calls%2)
			}, func(rw goat.RpcReadWriter) {
				idx := len(conns)
				conns = append(conns, rw)
				for {
					r, err := rw.Read(context.Background())
					if err != nil {
						return
					}
					got[idx] = append(got[idx], r.Id)
				}
			})
			runDone := false
			vsched.GoNamed("demux-run", func() { dm.Run(); runDone = true })
			vsched.Settle()
			vsched.Explore(true)
			const n = 6
			for i := 1; i <= n; i++ {
				shared.A.Inject(c18Msg(uint64(i), "peer"))
			}
			vsched.Quiesce()
			vsched.Obs("key function calls=%d connections=%d got=%v", calls, len(conns), got)
			if calls != n {
				vsched.Fail(fam+"|key-function-calls", "%d envelopes arrived; the key function was asked %d times (it decides per envelope, once)", n, calls)
			}
			if len(conns) != 2 {
				vsched.Fail(fam+"|announce-count", "two keys are in use; %d connections were announced", len(conns))
			} else if fmt.Sprint(got[0]) != "[1 3 5]" || fmt.Sprint(got[1]) != "[2 4 6]" {
				vsched.Fail(fam+"|delivery", "envelopes 1..6 alternate between two keys: the connections received %v and %v", got[0], got[1])
			}
			dm.Stop()
			shared.A.Break()
			shared.B.Break()
			vsched.Quiesce()
			if !runDone {
				vsched.Fail(fam+"|run-hang", "Run did not return after Stop")
			}
		},
	}
}

// c18CancelWhileWriting: an envelope written on k0's connection is stuck in the
// shared transport's Write (nobody takes it: back-pressure) when Cancel(k0) is
// called. Cancel returns; envelopes for another key are still handed over,
// new keys are still announced, Cancel of another key works; once the shared
// transport moves again everything winds down.
func c18CancelWhileWriting(bound int) *explore.Scenario {
	fam := "C18/cancel"
	return &explore.Scenario{
		Name: "C18/cancel-while-shared-write-is-blocked", Family: fam, Prop: "C18", Bound: bound,
		Run: func() {
			tap := &env.Tap{}
			shared := env.NewPipe(tap, env.PipeOpts{Name: "shared", Cap: 0}) // rendezvous: a write blocks until the far side reads
			var conns []goat.RpcReadWriter
			got := map[int][]uint64{}
			ctx, cancel := context.WithCancel(context.Background())
			defer cancel()
			dm := goat.NewDemux(ctx, shared.B, func(r *env.Rpc) string { return r.GetHeader().GetSource() }, func(rw goat.RpcReadWriter) {
				idx := len(conns)
				conns = append(conns, rw)
				for {
					r, err := rw.Read(context.Background())
					if err != nil {
						return
					}
					got[idx] = append(got[idx], r.Id)
				}
			})
			runDone := false
			vsched.GoNamed("demux-run", func() { dm.Run(); runDone = true })
			vsched.Settle()
			vsched.GoNamed("remote", func() { shared.A.Write(context.Background(), c18Msg(1, "k0")) })
			vsched.Quiesce()
			if len(conns) != 1 {
				vsched.Fail(fam+"|harness", "k0 not announced")
				return
			}
			vsched.Explore(true)
			wdone := false
			vsched.GoNamed("writer-k0", func() { conns[0].Write(context.Background(), c18Msg(100, "k0")); wdone = true })
			vsched.Quiesce() // the demux's writer for k0 is inside the shared transport's Write; nobody reads there
			cdone := false
			vsched.GoNamed("canceller", func() { dm.Cancel("k0"); cdone = true })
			vsched.Quiesce()
			if !cdone {
				vsched.Fail(fam+"|cancel-hang", "Cancel(k0) does not return while an envelope of k0 is stuck in the shared transport's Write; threads: %s", threadList())
			}
			vsched.GoNamed("remote2", func() { shared.A.Write(context.Background(), c18Msg(2, "k1")) })
			vsched.Quiesce()
			if len(conns) != 2 || len(got[1]) != 1 {
				vsched.Fail(fam+"|other-key-disturbed", "while an envelope of (cancelled) k0 is stuck in the shared transport's Write, an envelope for k1 was not announced/handed over (connections %d, k1 received %v); threads: %s", len(conns), got[1], threadList())
			}
			c2 := false
			vsched.GoNamed("canceller2", func() { dm.Cancel("k1"); c2 = true })
			vsched.Quiesce()
			if !c2 {
				vsched.Fail(fam+"|cancel-hang", "Cancel(k1) blocks while k0's write is stuck")
			}
			_ = wdone
			dm.Stop()
			shared.A.Break()
			shared.B.Break()
			vsched.Quiesce()
			if !runDone {
				vsched.Fail(fam+"|run-hang", "Run did not return after Stop")
			}
		},
	}
}

// c18ReuseWhileOldWriteStuck: an envelope written on k0's logical connection is stuck in the
// shared transport's Write when k0 is cancelled; k0 is then used again (a new logical
// connection); only then does the shared transport take the old envelope (or fail). The new
// connection is nobody's to cancel: it goes on receiving k0's envelopes and can write.
func c18ReuseWhileOldWriteStuck(oldWrite string, bound int) *explore.Scenario {
	fam := "C18/cancel"
	return &explore.Scenario{
		Name: "C18/key-reused-while-old-write-is-stuck/old-write-" + oldWrite, Family: fam, Prop: "C18", Bound: bound,
		Run: func() {
			tap := &env.Tap{}
			shared := env.NewPipe(tap, env.PipeOpts{Name: "shared", Cap: 0})
			var conns []goat.RpcReadWriter
			got := map[int][]uint64{}
			rerr := map[int]error{}
			ctx, cancel := context.WithCancel(context.Background())
			defer cancel()
			dm := goat.NewDemux(ctx, shared.B, func(r *env.Rpc) string { return r.GetHeader().GetSource() }, func(rw goat.RpcReadWriter) {
				idx := len(conns)
				conns = append(conns, rw)
				for {
					r, err := rw.Read(context.Background())
					if err != nil {
						rerr[idx] = err
						return
					}
					got[idx] = append(got[idx], r.Id)
				}
			})
			vsched.GoNamed("demux-run", func() { dm.Run() })
			vsched.Settle()
			vsched.GoNamed("remote", func() { shared.A.Write(context.Background(), c18Msg(1, "k0")) })
			vsched.Quiesce()
			if len(conns) != 1 {
				vsched.Fail(fam+"|harness", "k0 not announced")
				return
			}
			vsched.Explore(true)
			vsched.GoNamed("writer-k0", func() { conns[0].Write(context.Background(), c18Msg(100, "k0")) })
			vsched.Quiesce()
			vsched.GoNamed("canceller", func() { dm.Cancel("k0") })
			vsched.Quiesce()
			vsched.GoNamed("remote2", func() { shared.A.Write(context.Background(), c18Msg(2, "k0")) })
			vsched.Quiesce()
			if len(conns) != 2 || len(got[1]) != 1 {
				vsched.Fail(fam+"|reuse", "k0 used again after Cancel (an old envelope of k0 still stuck in the shared transport's Write): connections announced %d, the new one received %v; threads: %s", len(conns), got[1], threadList())
				return
			}
			// the old envelope finally leaves (the far side reads it) or the transport refuses it
			switch oldWrite {
			case "completes":
				vsched.GoNamed("far-reader", func() { shared.A.Read(context.Background()) })
			case "never":
			}
			vsched.Quiesce()
			vsched.GoNamed("remote3", func() { shared.A.Write(context.Background(), c18Msg(3, "k0")) })
			vsched.Quiesce()
			wdone := false
			var werr error
			vsched.GoNamed("writer-new", func() { werr = conns[1].Write(context.Background(), c18Msg(101, "k0")); wdone = true })
			vsched.GoNamed("far-reader2", func() {
				for i := 0; i < 2; i++ {
					if _, err := shared.A.Read(context.Background()); err != nil {
						return
					}
				}
			})
			vsched.Quiesce()
			vsched.Obs("old write %s: connections=%d new got=%v new read err=%v new write done=%v err=%v", oldWrite, len(conns), got[1], rerr[1], wdone, werr)
			if len(conns) != 2 || fmt.Sprint(got[1]) != "[2 3]" || rerr[1] != nil {
				vsched.Fail(fam+"|new-connection-cancelled", "k0 was cancelled, used again, and then the old connection's stuck write ended (%s): the NEW connection (never cancelled) received %v, read error %v, %d connections announced", oldWrite, got[1], rerr[1], len(conns))
			}
			if oldWrite == "completes" && (!wdone || werr != nil) {
				vsched.Fail(fam+"|new-connection-cancelled", "a write on k0's new connection: done=%v err=%v", wdone, werr)
			}
			dm.Stop()
			shared.A.Break()
			shared.B.Break()
			vsched.Quiesce()
		},
	}
}

// c18DoubleCancel: two Cancel calls for the same key overlap (and a third follows later),
// with readers blocked on the logical connection: nothing panics, all calls return, the blocked
// readers fail, and the key can be used again afterwards.
func c18DoubleCancel(readers, bound int) *explore.Scenario {
	fam := "C18/cancel"
	return &explore.Scenario{
		Name: fmt.Sprintf("C18/double-cancel/readers=%d", readers), Family: fam, Prop: "C18", Bound: bound,
		Run: func() {
			tap := &env.Tap{}
			shared := env.NewPipe(tap, env.PipeOpts{Name: "shared", Cap: 4})
			var conns []goat.RpcReadWriter
			ctx, cancel := context.WithCancel(context.Background())
			defer cancel()
			dm := goat.NewDemux(ctx, shared.B, func(r *env.Rpc) string { return r.GetHeader().GetSource() }, func(rw goat.RpcReadWriter) { conns = append(conns, rw) })
			vsched.GoNamed("demux-run", func() { dm.Run() })
			vsched.Settle()
			shared.A.Inject(c18Msg(2, "k0"))
			vsched.Settle()
			if len(conns) != 1 {
				vsched.Fail(fam+"|harness", "k0 not announced")
				return
			}
			if _, err := conns[0].Read(context.Background()); err != nil {
				vsched.Fail(fam+"|harness", "first read: %v", err)
				return
			}
			failedReads := 0
			for i := 0; i < readers; i++ {
				vsched.GoNamed(fmt.Sprintf("reader%d", i), func() {
					if _, err := conns[0].Read(context.Background()); err != nil {
						failedReads++
					}
				})
			}
			vsched.Settle()
			vsched.Explore(true)
			done := 0
			for i := 0; i < 2; i++ {
				vsched.GoNamed(fmt.Sprintf("canceller%d", i), func() { dm.Cancel("k0"); done++ })
			}
			vsched.Quiesce()
			vsched.GoNamed("canceller-late", func() { dm.Cancel("k0"); done++ })
			vsched.Quiesce()
			vsched.Obs("cancels returned=%d readers failed=%d", done, failedReads)
			if done != 3 {
				vsched.Fail(fam+"|cancel-hang", "two overlapping Cancel(k0) calls and a later one: only %d of 3 returned; threads: %s", done, threadList())
			}
			if failedReads != readers {
				vsched.Fail(fam+"|read-blocks", "%d of %d readers blocked on the cancelled connection did not fail", readers-failedReads, readers)
			}
			shared.A.Inject(c18Msg(6, "k0"))
			vsched.Quiesce()
			if len(conns) != 2 {
				vsched.Fail(fam+"|reused-key-lost", "k0 used again after the cancels: %d connections announced in all", len(conns))
			}
			dm.Stop()
			shared.A.Break()
			shared.B.Break()
			vsched.Quiesce()
		},
	}
}

// c18DoneCtxRead: envelopes for k0 are waiting while a Read on k0's logical connection is
// issued under a context that is already done: whichever way that Read ends, an envelope it
// does not return stays for the next Read - every envelope is handed over exactly once, in
// arrival order.
func c18DoneCtxRead(n, bound int) *explore.Scenario {
	fam := "C18/delivery"
	return &explore.Scenario{
		Name: fmt.Sprintf("C18/done-context-read/n=%d", n), Family: fam, Prop: "C18", Bound: bound,
		Run: func() {
			tap := &env.Tap{}
			shared := env.NewPipe(tap, env.PipeOpts{Name: "shared", Cap: 8})
			var conns []goat.RpcReadWriter
			ctx, cancel := context.WithCancel(context.Background())
			defer cancel()
			dm := goat.NewDemux(ctx, shared.B, func(r *env.Rpc) string { return r.GetHeader().GetSource() }, func(rw goat.RpcReadWriter) { conns = append(conns, rw) })
			vsched.GoNamed("demux-run", func() { dm.Run() })
			vsched.Settle()
			vsched.Explore(true)
			for i := 1; i <= n; i++ {
				shared.A.Inject(c18Msg(uint64(i), "k0"))
			}
			vsched.Quiesce()
			if len(conns) != 1 {
				vsched.Fail(fam+"|announce-count", "k0 not announced (connections %d)", len(conns))
				return
			}
			dead, dc := context.WithCancel(context.Background())
			dc()
			var got []uint64
			for attempt := 0; attempt < n; attempt++ {
				if r, err := conns[0].Read(dead); err == nil {
					got = append(got, r.GetId())
				}
				vsched.Quiesce()
			}
			for len(got) < n {
				rctx, rc := context.WithTimeout(context.Background(), time.Second)
				done := false
				var r *env.Rpc
				var err error
				vsched.GoNamed("reader", func() { r, err = conns[0].Read(rctx); done = true })
				vsched.QuiesceTime()
				rc()
				if !done || err != nil {
					vsched.Fail(fam+"|order-or-loss", "%d envelopes arrived for k0; Reads under a done context returned %v; a Read with a live context then found nothing (%v): a failed Read consumed an envelope", n, got, err)
					return
				}
				got = append(got, r.GetId())
			}
			want := []uint64{}
			for i := 1; i <= n; i++ {
				want = append(want, uint64(i))
			}
			vsched.Obs("got %v", got)
			if fmt.Sprint(got) != fmt.Sprint(want) {
				vsched.Fail(fam+"|order-or-loss", "k0 received %v, arrival order %v", got, want)
			}
			dm.Stop()
			shared.A.Break()
			shared.B.Break()
			vsched.Quiesce()
		},
	}
}

// c18Key: the key alphabet - two ordinary keys first, then degenerate ones: the empty key (an
// envelope without a source), keys that differ only in letter case or by a trailing character,
// separators, a non-ASCII key. The demultiplexer treats a key as an opaque string.
func c18Key(k int) string {
	keys := []string{"k0", "k1", "", "K0", "k0.", "a/b:c", "-bin", "\u043a\u043b\u044e\u0447"}
	if k < len(keys) {
		return keys[k]
	}
	return fmt.Sprintf("k%d", k)
}
