package props

import (
	"context"
	"errors"
	"fmt"
	goat "github.com/avos-io/goat"
	"io"
	"math"
	"strings"
	"time"

	"google.golang.org/grpc"
	"google.golang.org/protobuf/proto"

	"github.com/avos-io/goat/gen/goatorepo"
	"github.com/avos-io/goat/vh/env"
	"github.com/avos-io/goat/vrt/explore"
	"github.com/avos-io/goat/vrt/vsched"
)

func init() { register("C16", c16) }

func c16(tier string) []*explore.Scenario {
	var out []*explore.Scenario
	for _, ic := range []string{"none", "rename", "reject", "nat"} {
		out = append(out, c16Routing(ic, 3))
	}
	for rot := 0; rot < 8; rot++ {
		out = append(out, c16RoutingIds([]string{"none", "nat", "rename"}[rot%3], 2, rot))
	}
	bound := 1
	if tier == "thorough" {
		bound = 2
	}
	// thorough: the d<=2 searches of the stream workloads are split over several worker
	// processes (explore.Sharded: the union of the shards is the whole schedule tree)
	shards := 1
	if tier == "thorough" {
		shards = 8
	}
	for _, pre := range []bool{false, true} {
		out = append(out, c16RPC("2unary", pre, bound))
		out = append(out, explore.Sharded(c16RPC("unary+stream", pre, bound), shards/2)...)
		out = append(out, explore.Sharded(c16RPC("2streams", pre, bound), shards)...)
	}
	out = append(out, explore.Sharded(c16RPC("early-return", true, bound), shards)...)
	out = append(out, c16RPC("early-return", false, bound-1))
	// a destination that is replaced under its name (re-attach, attach during a pending dial):
	// later envelopes are delivered to the newer connection (scenarios shared with C17)
	for _, when := range []string{"before-old-fails", "after-old-fails"} {
		out = append(out, c17Reattach("C16", when, bound))
	}
	out = append(out, c17ReattachRacesTraffic("C16", 3, bound+1), c17ReattachRacesTraffic("C16", 6, bound))
	for _, dial := range []string{"fails", "succeeds", "pending"} {
		out = append(out, c17AttachDuringDial("C16", dial, bound))
		if dial != "pending" {
			out = append(out, c17AttachRacesRouting("C16", dial, bound+1))
		}
	}
	out = append(out, c16DialBacklog(3, bound+1), c16DialBacklog(5, bound))
	// the statement's limit: 12 envelopes outstanding for one destination (dialled on demand, dial pending)
	out = append(out, c16DialBacklog(12, 1), c16DialBacklog(8, 1), c16DialBacklog(9, 0))
	for _, pause := range []time.Duration{29 * time.Second, 31 * time.Second, 10 * time.Minute} {
		out = append(out, c16SlowReceiver(pause, 0))
	}
	out = append(out, c17OpSeqs("C16", tier)...)
	out = append(out, c17Product("C16"))
	out = append(out, c16Many(4, 2, true, 0), c16Many(8, 4, false, 0), c16Many(6, 3, true, 0), c16Many(2, 2, false, 1))
	if tier == "thorough" {
		out = append(out, c16Many(4, 2, true, 1), c16Many(3, 3, false, 1))
	}
	for pos := 0; pos < 4; pos++ {
		out = append(out, c16ServerLinkWriteFault(pos, 4, 1))
	}
	out = append(out, c16LateAttach("C16", "Unary", 1), c16LateAttach("C16", "Bidi", 1), c16LateAttachD("C16", "Unary", 1, false, true), c16LateAttachD("C16", "Bidi", 1, false, true))
	out = append(out, c16ReattachedHealthy("C16", 2, 1))
	out = append(out, c16RPC("payloads", true, 0))
	out = append(out, c16Burst(12, 0), c16Burst(50, 0), c16Burst(24, 1))
	out = append(out, withoutDisconnectCallback(pickScenarios(out, "C16/opseq/", "C16/reattach/after-old-fails")...)...)
	for _, kind := range []string{"stuck-writer-then-failing-reader", "both-while-forwarder-busy"} {
		out = append(out, c17DoubleFault("C16", kind, 2))
	}
	// finer granularity (a scheduling point after every Unlock as well) on the small core scenarios
	out = append(out, fineGrained(c17AttachRacesRouting("C16", "succeeds", 1), c16RPC("2unary", true, 1))...)
	return out
}

// c16Routing: raw peers a, b (attached) and c (dialable); every envelope
// sequence of length <= L over source x destination x return-route shapes.
func c16Routing(intercept string, L int) *explore.Scenario { return c16RoutingIds(intercept, L, -1) }

// rot >= 0: the envelopes carry boundary stream ids (0, 127, 128, 2^32, 2^64-1, ...) starting at position rot of the table
func c16RoutingIds(intercept string, L int, rot int) *explore.Scenario {
	fam := "C16/routing"
	name := fmt.Sprintf("C16/routing/intercept=%s/len<=%d", intercept, L)
	boundary := []uint64{0, 1 << 32, math.MaxUint64, 127, 128, 1<<63 - 1, 1 << 63, 1}
	if rot >= 0 {
		name += fmt.Sprintf("/boundary-ids-from-%d", rot)
	}
	return &explore.Scenario{
		Name: name, Family: fam, Prop: "C16", Bound: 0, MaxExecs: 3000000,
		Run: func() {
			var ic func(h *goatorepo.RequestHeader) error
			switch intercept {
			case "rename":
				ic = func(h *goatorepo.RequestHeader) error {
					if h.Destination == "alias" {
						h.Destination = "b"
					}
					return nil
				}
			case "reject":
				ic = func(h *goatorepo.RequestHeader) error {
					if h.Destination == "b" {
						return errors.New("rejected")
					}
					return nil
				}
			case "nat":
				// presents every peer under a public name ("free to modify the passed in header")
				ic = func(h *goatorepo.RequestHeader) error {
					h.Source = "pub-" + h.Source
					return nil
				}
			}
			t := env.NewProxyTopo(nil, env.ProxyOpts{Cap: 64, NoServer: true, Intercept: ic})
			peers := map[string]*env.Pipe{}
			for _, n := range []string{"a", "b"} {
				p := env.NewPipe(t.Tap, env.PipeOpts{Name: n, Cap: 64})
				peers[n] = p
				t.Proxy.AddClient(n, p.B)
			}
			pc := env.NewPipe(t.Tap, env.PipeOpts{Name: "c", Cap: 64})
			peers["c"] = pc
			t.Extra["c"] = pc // proxy dials c on demand: proxy side is A
			vsched.Settle()
			vsched.Explore(true)
			srcs := []string{"a", "b"}
			dsts := []string{"a", "b", "c", "alias", "nowhere"}
			type sent struct {
				from, to string
				rpc      *env.Rpc
				expectTo string // "" = must not be delivered anywhere
			}
			var log []sent
			seq := ""
			for pos := 0; pos < L; pos++ {
				c := vsched.Choose(len(srcs)*len(dsts)*3 + 1)
				if c == len(srcs)*len(dsts)*3 {
					break
				}
				src := srcs[c%len(srcs)]
				dst := dsts[(c/len(srcs))%len(dsts)]
				route := c/(len(srcs)*len(dsts)) == 1
				prerec := c/(len(srcs)*len(dsts)) == 2 // arrives with a route record already (it came through another relay)
				id := uint64(100 + pos)
				if rot >= 0 {
					id = boundary[(rot+pos)%len(boundary)]
				}
				rpc := &env.Rpc{Id: id, Header: &goatorepo.RequestHeader{Method: "/x/Y", Source: src, Destination: dst,
					Headers: []*goatorepo.KeyValue{{Key: "k", Value: fmt.Sprint(pos)}}}, Body: &goatorepo.Body{Data: []byte(fmt.Sprintf("payload-%d", pos))}}
				expect := dst
				if prerec {
					rpc.Header.ProxyRecord = []string{"edge"}
				}
				if route {
					// a return route: the proxy must follow it instead of the destination field
					rpc.Header.ProxyNext = []string{"a"}
					expect = "a"
				}
				if !route {
					switch {
					case intercept == "rename" && dst == "alias":
						expect = "b"
					case intercept == "reject" && dst == "b":
						expect = ""
					}
				} else if intercept == "reject" && dst == "b" {
					expect = ""
				}
				if expect == "alias" || expect == "nowhere" {
					expect = "" // not attached, not dialable
				}
				seq += fmt.Sprintf(" %s->%s(route=%v,prerec=%v)", src, dst, route, prerec)
				orig := proto.Clone(rpc).(*env.Rpc)
				src_ := src
				if src == "c" {
					src_ = "c"
				}
				end := peers[src_].A
				if err := end.Inject(rpc); err != nil {
					vsched.Fail(fam+"|harness", "inject: %v", err)
					return
				}
				log = append(log, sent{src, dst, orig, expect})
				vsched.Quiesce()
			}
			vsched.Obs("seq:%s", seq)
			// what each peer received from the proxy, in order
			got := map[string][]*env.Rpc{}
			for _, e := range t.Tap.Events {
				if e.Dir == "b2a" && (e.Wire == "a" || e.Wire == "b") {
					got[e.Wire] = append(got[e.Wire], e.Rpc)
				}
				if e.Dir == "a2b" && e.Wire == "c" {
					got["c"] = append(got["c"], e.Rpc)
				}
			}
			want := map[string][]sent{}
			for _, s := range log {
				if s.expectTo != "" {
					want[s.expectTo] = append(want[s.expectTo], s)
				}
			}
			for _, peer := range []string{"a", "b", "c"} {
				g, w := got[peer], want[peer]
				if len(g) != len(w) {
					vsched.Fail(fam+"|delivery-count", "after%s: peer %s received %d envelopes, want %d", seq, peer, len(g), len(w))
					continue
				}
				for i := range g {
					o := w[i].rpc
					if g[i].GetId() != o.GetId() {
						vsched.Fail(fam+"|order", "after%s: peer %s received id %d at position %d, want %d (per-pair order / exactly once)", seq, peer, g[i].GetId(), i, o.GetId())
						continue
					}
					// unchanged except routing fields
					gc, oc := proto.Clone(g[i]).(*env.Rpc), proto.Clone(o).(*env.Rpc)
					rec := gc.Header.ProxyRecord
					gc.Header.ProxyRecord, oc.Header.ProxyRecord = nil, nil
					gc.Header.ProxyNext, oc.Header.ProxyNext = nil, nil
					gc.Header.Destination, oc.Header.Destination = "", ""
					if intercept == "nat" {
						if gc.Header.Source != "pub-"+oc.Header.Source {
							vsched.Fail(fam+"|altered", "after%s: envelope %d reached %s with source %q, want the rewritten %q", seq, o.GetId(), peer, gc.Header.Source, "pub-"+oc.Header.Source)
						}
						gc.Header.Source, oc.Header.Source = "", ""
					}
					if !proto.Equal(gc, oc) {
						vsched.Fail(fam+"|altered", "after%s: envelope %d reached %s altered beyond routing fields: %v vs %v", seq, o.GetId(), peer, gc, oc)
					}
					wantRec := append(append([]string{}, o.Header.ProxyRecord...), "proxy")
					if fmt.Sprint(rec) != fmt.Sprint(wantRec) {
						vsched.Fail(fam+"|route-record", "after%s: envelope %d carries route record %v, want %v (what it arrived with plus the proxy's name exactly once)", seq, o.GetId(), rec, wantRec)
					}
				}
			}
			if strings.Count(strings.Join(t.Dialed, ","), "c") > 1 {
				vsched.Fail(fam+"|dial-twice", "after%s: peer c was dialled %d times", seq, strings.Count(strings.Join(t.Dialed, ","), "c"))
			}
		},
	}
}

// c16RPC: real RPC workloads from two clients through the proxy.
func c16RPC(load string, preAttach bool, bound int) *explore.Scenario {
	return c16RPCFam("C16", load, preAttach, bound)
}

// c16RPCFam: the same workloads reporting under another property (C01/C02 over the proxy+demux topology).
func c16RPCFam(prop, load string, preAttach bool, bound int) *explore.Scenario {
	return c16RPCFamO(prop, load, preAttach, bound, false)
}

// noDemux: the server serves the proxy link itself - one server connection for both clients,
// whose first calls both carry id 1. (Loads with at most one client streaming: on one connection
// a stream is identified by its id alone.)
func c16RPCFamO(prop, load string, preAttach bool, bound int, noDemux bool) *explore.Scenario {
	fam := prop + "/rpc"
	topo := "rpc-via-proxy-demux"
	if noDemux {
		topo = "rpc-via-proxy-one-server-connection"
	}
	return &explore.Scenario{
		Name: fmt.Sprintf("%s/%s/%s/preattach=%v", prop, topo, load, preAttach), Family: fam, Prop: prop, Bound: bound,
		Run: func() {
			w := env.NewWorld()
			env.MsgSize = 0
			t := env.NewProxyTopo(w, env.ProxyOpts{Clients: 2, PreAttach: preAttach, Cap: 64, NoDemux: noDemux})
			vsched.Settle()
			vsched.Explore(true)
			var urecs, srecs []*env.Rec
			unary := func(ci int, tag, data string) {
				r := w.Rec(tag, "Unary")
				urecs = append(urecs, r)
				vsched.GoNamed("caller-"+tag, func() { w.CallUnary(t.CCs[ci], context.Background(), r, data) })
			}
			stream := func(ci int, tag string, c streamCase) {
				r := w.Rec(tag, c.kind)
				srecs = append(srecs, r)
				w.Handlers[tag] = c.handler()
				vsched.GoNamed("caller-"+tag, func() { c.runCaller(w, t.CCs[ci], context.Background(), r) })
			}
			pp := streamCase{"Bidi", "pingpong", "echo", 2, 0, 0}
			switch load {
			case "2unary":
				unary(0, "u0", "x")
				unary(1, "u1", "x")
			case "unary+stream":
				unary(0, "u0", "x")
				stream(1, "s1", pp)
			case "2streams":
				stream(0, "s0", pp)
				stream(1, "s1", streamCase{"SStream", "sendall", "burst", 1, 2, 0})
			case "early-return":
				// the handler returns while its caller is still sending: the server's
				// resets for the late messages travel back through the proxy
				stream(0, "s0", streamCase{"Bidi", "sendall", "retearly", 3, 1, 0})
				unary(1, "u1", "x")
			case "payloads":
				vsched.Explore(false)
				for i, sz := range []int{0, 1, 127, 128, 1023, 1024, 16384, 65536} {
					tag := fmt.Sprintf("p%d", i)
					r := w.Rec(tag, "Unary")
					env.MsgSize = sz
					w.CallUnary(t.CCs[i%2], context.Background(), r, env.Pad("x"+tag))
					checkUnary(r, env.Pad("x"+tag), fam)
				}
				return
			}
			vsched.Quiesce()
			for _, r := range urecs {
				checkUnary(r, "x", fam)
			}
			for _, r := range srecs {
				vsched.Obs("%s", r.Summary())
				if !r.CDone || r.CErr != io.EOF || !eqStrs(r.CRecv, r.HSent) || !isPrefix(r.HRecv, r.CSent) || r.HStarts != 1 {
					vsched.Fail(fam+"|stream", "stream %s through the proxy did not complete as on a direct connection: %s", r.Tag, r.Summary())
				}
			}
			if d := vsched.DefaultsTaken(); len(d) > 0 {
				vsched.Fail(fam+"|drop-below-buffer", "the proxy dropped an envelope (default arm at %v) although fewer than 12 were outstanding", d)
			}
		},
	}
}

// c16Burst: a server stream of n messages relayed by the proxy while the
// receiving client reads slowly.
func c16Burst(n, bound int) *explore.Scenario {
	fam := "C16/burst"
	return &explore.Scenario{
		Name: fmt.Sprintf("C16/burst/n=%d/d=%d", n, bound), Family: fam, Prop: "C16", Bound: bound, Horizon: time.Minute, SelectCost: true,
		Run: func() {
			w := env.NewWorld()
			env.MsgSize = 0
			t := env.NewProxyTopo(w, env.ProxyOpts{Clients: 1, PreAttach: true, Cap: 1})
			vsched.Settle()
			vsched.Explore(true)
			r := w.Rec("s", "Bidi")
			// the handler bursts n messages, then waits for one message from the caller before it finishes
			w.Handlers["s"] = func(r *env.Rec, ss grpc.ServerStream) error {
				for i := 0; i < n; i++ {
					m := fmt.Sprintf("b%d", i)
					if err := ss.SendMsg(env.S(m)); err != nil {
						return err
					}
					r.HSent = append(r.HSent, m)
				}
				if err := ss.RecvMsg(new(env.Msg)); err != nil {
					return err
				}
				return nil
			}
			release := make(chan struct{})
			vsched.GoNamed("caller-s", func() {
				cs := w.Open(t.CCs[0], context.Background(), r)
				if cs == nil {
					r.CDone = true
					return
				}
				<-release // a slow receiver: the burst piles up in front of it
				env.CSend(r, cs, "go on")
				env.CClose(r, cs)
				env.CRecvAll(r, cs)
				r.CDone = true
			})
			vsched.Quiesce() // no time passes while the receiver is stalled
			close(release)
			vsched.QuiesceTime()
			vsched.Obs("sent=%d received=%d end=%s drops=%d", len(r.HSent), len(r.CRecv), env.ErrStr(r.CErr), len(vsched.DefaultsTaken()))
			if !subseq(r.CRecv, r.HSent) {
				vsched.Fail(fam+"|reordered", "the proxy delivered a relayed stream's messages out of order: sent %v, received %v", r.HSent, r.CRecv)
			}
			if !r.CDone {
				return // lost its end-of-stream too: not reported complete (C16 says nothing about that)
			}
			if r.CErr == io.EOF && !eqStrs(r.CRecv, r.HSent) {
				vsched.Fail(fam+"|complete-with-loss", "a relayed stream of %d messages was reported complete (io.EOF) to its receiver after only %d messages (proxy drops: %d at %v)", len(r.HSent), len(r.CRecv), len(vsched.DefaultsTaken()), uniq(vsched.DefaultsTaken()))
			}
		},
	}
}

func uniq(l []string) []string {
	m := map[string]bool{}
	var out []string
	for _, s := range l {
		if !m[s] {
			m[s] = true
			out = append(out, s)
		}
	}
	return out
}

// c16DialBacklog: n envelopes for a destination that is being dialled queue
// up behind the dial; once it completes they are delivered exactly once, in
// order, followed by one more sent afterwards.
func c16DialBacklog(n, bound int) *explore.Scenario {
	fam := "C16/dial-backlog"
	return &explore.Scenario{
		Name: fmt.Sprintf("C16/dial-backlog/n=%d/d=%d", n, bound), Family: fam, Prop: "C16", Bound: bound,
		Run: func() {
			t, peers := c17Env(16)
			release := make(chan struct{})
			t.SlowDial = map[string]chan struct{}{"c": release}
			pc := env.NewPipe(t.Tap, env.PipeOpts{Name: "c", Cap: 16})
			t.Extra["c"] = pc
			vsched.Settle()
			for i := 0; i < n; i++ {
				peers["a"].A.Inject(c17Msg(uint64(200+i), "a", "c"))
			}
			vsched.Quiesce()
			vsched.Explore(true)
			close(release)
			vsched.Quiesce()
			peers["a"].A.Inject(c17Msg(uint64(200+n), "a", "c"))
			vsched.Quiesce()
			var got []uint64
			for _, e := range t.Tap.Events {
				if e.Wire == "c" && e.Rpc.GetHeader().GetSource() == "a" {
					got = append(got, e.Rpc.GetId())
				}
			}
			var want []uint64
			for i := 0; i <= n; i++ {
				want = append(want, uint64(200+i))
			}
			vsched.Obs("delivered %v dialed=%v", got, t.Dialed)
			if fmt.Sprint(got) != fmt.Sprint(want) {
				vsched.Fail(fam+"|order", "%d envelopes a->c queued while c was being dialled, one more afterwards: c received %v, want %v", n, got, want)
			}
			if countStr(t.Dialed, "c") != 1 {
				vsched.Fail(fam+"|dial-count", "c was dialled %d times", countStr(t.Dialed, "c"))
			}
		},
	}
}

// c16SlowReceiver: a receiver takes one envelope, then nothing for `pause`
// (far longer than any internal timeout), with 5 more envelopes for it
// outstanding at the proxy (well below its per-destination buffer) over a
// rendezvous transport; then it reads on. Everything arrives, exactly once, in
// order; nobody is reported disconnected.
func c16SlowReceiver(pause time.Duration, bound int) *explore.Scenario {
	fam := "C16/slow-receiver"
	return &explore.Scenario{
		Name: fmt.Sprintf("C16/slow-receiver/pause=%v", pause), Family: fam, Prop: "C16", Bound: bound, Horizon: time.Hour,
		Run: func() {
			t, peers := c17Env(0) // rendezvous transports: a write to b completes when b reads
			vsched.Settle()
			var got []uint64
			readB := func(n int) {
				for i := 0; i < n; i++ {
					r, err := peers["b"].A.Read(context.Background())
					if err != nil {
						return
					}
					got = append(got, r.GetId())
				}
			}
			vsched.GoNamed("sender-a", func() {
				for id := uint64(300); id < 306; id++ {
					peers["a"].A.Write(context.Background(), c17Msg(id, "a", "b"))
				}
			})
			vsched.GoNamed("reader-b-1", func() { readB(1) })
			vsched.Quiesce()
			vsched.GoNamed("pause", func() { vsched.SleepFor("pause", pause) })
			vsched.QuiesceTime()
			vsched.GoNamed("reader-b-2", func() { readB(5) })
			vsched.QuiesceTime()
			vsched.Obs("pause=%v elapsed=%v got=%v disconnects=%v", pause, vsched.Elapsed(), got, t.Disconnects)
			if fmt.Sprint(got) != "[300 301 302 303 304 305]" {
				vsched.Fail(fam+"|lost", "receiver b paused for %v with 5 envelopes outstanding, then read on: it received %v, want [300..305]", pause, got)
			}
			if len(t.Disconnects) != 0 {
				vsched.Fail(fam+"|healthy-peer-disconnected", "receiver b paused for %v: the proxy reported %v disconnected", pause, t.Disconnects)
			}
			t.Cancel()
			for _, p := range peers {
				p.A.Break()
				p.B.Break()
			}
			vsched.QuiesceTime()
		},
	}
}

// c16Many: nc clients and ns servers (own transport, Demux and Server each)
// behind one proxy; client i talks to server i mod ns; every client makes a
// unary call and runs a ping-pong stream at the same time.
func c16Many(nc, ns int, preAttach bool, bound int) *explore.Scenario {
	fam := "C16/rpc"
	return &explore.Scenario{
		Name: fmt.Sprintf("C16/many/clients=%d/servers=%d/preattach=%v/d=%d", nc, ns, preAttach, bound), Family: fam, Prop: "C16", Bound: bound, SelectCost: true,
		Run: func() {
			w := env.NewWorld()
			env.MsgSize = 0
			t := env.NewProxyTopo(w, env.ProxyOpts{Clients: nc, Servers: ns, PreAttach: preAttach, Cap: 64})
			vsched.Settle()
			vsched.Explore(true)
			var urecs, srecs []*env.Rec
			for i := 0; i < nc; i++ {
				i := i
				u := w.Rec(fmt.Sprintf("u%d", i), "Unary")
				urecs = append(urecs, u)
				vsched.GoNamed("caller-"+u.Tag, func() { w.CallUnary(t.CCs[i], context.Background(), u, "x") })
				sr := w.Rec(fmt.Sprintf("s%d", i), "Bidi")
				srecs = append(srecs, sr)
				c := streamCase{"Bidi", "pingpong", "echo", 2, 0, 0}
				w.Handlers[sr.Tag] = c.handler()
				vsched.GoNamed("caller-"+sr.Tag, func() { c.runCaller(w, t.CCs[i], context.Background(), sr) })
			}
			vsched.Quiesce()
			for _, r := range urecs {
				checkUnary(r, "x", fam)
			}
			for _, r := range srecs {
				if !r.CDone || r.CErr != io.EOF || !eqStrs(r.CRecv, r.HSent) || len(r.CRecv) != 2 || r.HStarts != 1 {
					vsched.Fail(fam+"|stream", "%d clients, %d servers: stream %s did not complete as on a direct connection: %s", nc, ns, r.Tag, r.Summary())
				}
			}
			if d := vsched.DefaultsTaken(); len(d) > 0 {
				vsched.Fail(fam+"|drop-below-buffer", "the proxy dropped an envelope (default arm at %v)", d)
			}
			vsched.Obs("clients=%d servers=%d: all %d calls completed; dialled %v", nc, ns, 2*nc, t.Dialed)
		},
	}
}

// c16ServerLinkWriteFault: one Write on the transport between the server's demultiplexer and the proxy
// fails (once; later writes work) for the pos-th message of a server stream. The message is lost - the
// transport said so - and the stream must not be reported complete to the caller with it missing: the
// caller sees an error (here at the latest its deadline), never a clean end with a gap.
func c16ServerLinkWriteFault(pos, n, bound int) *explore.Scenario {
	fam := "C16/server-link-write-fault"
	return &explore.Scenario{
		Name: fmt.Sprintf("C16/server-link-write-fault/message=%d-of-%d/d=%d", pos, n, bound), Family: fam, Prop: "C16", Bound: bound, Horizon: time.Minute,
		Run: func() {
			w := env.NewWorld()
			env.MsgSize = 0
			t := env.NewProxyTopo(w, env.ProxyOpts{Clients: 1, PreAttach: true, Cap: 64})
			vsched.Settle()
			bodies := 0
			t.SPipe.B.OnWriteCall = func(k int, rpc *env.Rpc) {
				if rpc.GetBody() != nil {
					if bodies == pos {
						t.SPipe.B.FailNextWrites = 1
					}
					bodies++
				}
			}
			vsched.Explore(true)
			c := streamCase{"SStream", "sendall", "burst", 1, n, 0}
			r := w.Rec("s", c.kind)
			w.Handlers["s"] = c.handler()
			ctx, cancel := context.WithTimeout(context.Background(), 3*time.Second)
			defer cancel()
			vsched.GoNamed("caller-s", func() { c.runCaller(w, t.CCs[0], ctx, r) })
			vsched.QuiesceTime()
			vsched.Obs("%s", r.Summary())
			if !r.CDone {
				vsched.Fail(fam+"|hang", "the caller of a stream that lost a message on the server's link never returned (3 s deadline): %s", r.Summary())
				return
			}
			if r.CErr == io.EOF && !eqStrs(r.CRecv, r.HSent) {
				vsched.Fail(fam+"|complete-with-loss", "the write of message %d of %d failed on the server's link; the stream was reported complete (io.EOF) with received %v, the handler sent %v", pos, n, r.CRecv, r.HSent)
			}
			if !subseqOf(r.CRecv, r.HSent) {
				vsched.Fail(fam+"|altered-or-reordered", "received %v is not what the handler sent (%v) in order", r.CRecv, r.HSent)
			}
		},
	}
}

func subseqOf(a, b []string) bool {
	j := 0
	for _, x := range a {
		for j < len(b) && b[j] != x {
			j++
		}
		if j == len(b) {
			return false
		}
		j++
	}
	return true
}

// c16LateAttach: a client whose first request is already in its transport when the application attaches it
// to the proxy (a peer that starts calling right after connecting, before the accept path has called
// AddClient). The call completes like any other: by the time the proxy reads from the connection, replies
// addressed to its name find it.
func c16LateAttach(prop string, kind string, bound int) *explore.Scenario {
	return c16LateAttachD(prop, kind, bound, false, false)
}

// noDemux: the server serves the proxy link directly; slowLog: the line AddClient logs goes to a slow sink
func c16LateAttachD(prop string, kind string, bound int, noDemux, slowLog bool) *explore.Scenario {
	fam := prop + "/late-attach"
	name := fmt.Sprintf("%s/late-attach/%s/d=%d", prop, kind, bound)
	if noDemux {
		name += "/one-server-connection"
	}
	if slowLog {
		name += "/slow-log"
	}
	return &explore.Scenario{
		Name: name, Family: fam, Prop: prop, Bound: bound,
		Run: func() {
			w := env.NewWorld()
			env.MsgSize = 0
			t := env.NewProxyTopo(w, env.ProxyOpts{Clients: 1, PreAttach: true, Cap: 64, NoDemux: noDemux})
			p := env.NewPipe(t.Tap, env.PipeOpts{Name: "cliX", Cap: 64})
			cc := goat.NewClientConn(p.A, "cliX", "srv")
			vsched.Settle()
			vsched.Explore(true)
			r := w.Rec("x", kind)
			c := streamCase{"Bidi", "pingpong", "echo", 1, 0, 0}
			if kind == "Unary" {
				vsched.GoNamed("caller-x", func() { w.CallUnary(cc, context.Background(), r, "x") })
			} else {
				w.Handlers["x"] = c.handler()
				vsched.GoNamed("caller-x", func() { c.runCaller(w, cc, context.Background(), r) })
			}
			vsched.Quiesce() // the request sits in the transport; nobody reads it yet
			if slowLog {
				// the log line AddClient writes goes to a slow sink: the call sits in it until everything else is at rest
				gate := make(chan struct{})
				restore := env.HoldLog("proxy.AddClient cliX", func() { <-gate })
				defer restore()
				defer func() {
					vsched.Quiesce()
				}()
				vsched.GoNamed("attacher", func() { t.Proxy.AddClient("cliX", p.B) })
				vsched.Quiesce()
				close(gate)
			} else {
				vsched.GoNamed("attacher", func() { t.Proxy.AddClient("cliX", p.B) })
			}
			// traffic of an established client goes on meanwhile
			o := w.Rec("o", "Unary")
			vsched.GoNamed("caller-o", func() { w.CallUnary(t.CCs[0], context.Background(), o, "x") })
			vsched.Quiesce()
			if kind == "Unary" {
				checkUnary(r, "x", fam)
			} else if !r.CDone || r.CErr != io.EOF || !eqStrs(r.CRecv, r.HSent) || r.HStarts != 1 {
				vsched.Fail(fam+"|stream", "the stream of a client that was already calling when it was attached did not complete: %s", r.Summary())
			}
			checkUnary(o, "x", fam)
			for _, id := range t.Dialed {
				if id == "cliX" {
					vsched.Fail(fam+"|dialled-an-attached-peer", "the proxy dialled cliX although that peer was attached by the application (dialled: %v)", t.Dialed)
				}
			}
			for _, id := range t.Disconnects {
				if id == "cliX" {
					vsched.Fail(fam+"|spurious-disconnect", "a disconnect was reported for cliX, whose connection is alive")
				}
			}
		},
	}
}

// c16ReattachedHealthy: the application attaches a second connection under a name whose first connection is still
// open and healthy (a client that reconnected before the old connection was noticed dead - or was never dead). Calls
// made over the newer connection are answered on the newer connection.
func c16ReattachedHealthy(prop string, n, bound int) *explore.Scenario {
	fam := prop + "/reattached-healthy"
	return &explore.Scenario{
		Name: fmt.Sprintf("%s/reattached-healthy/calls=%d/d=%d", prop, n, bound), Family: fam, Prop: prop, Bound: bound,
		Run: func() {
			w := env.NewWorld()
			env.MsgSize = 0
			t := env.NewProxyTopo(w, env.ProxyOpts{Clients: 1, PreAttach: true, Cap: 64})
			vsched.Settle()
			first := w.Rec("first", "Unary")
			w.CallUnary(t.CCs[0], context.Background(), first, "x")
			checkUnary(first, "x", fam)
			p2 := env.NewPipe(t.Tap, env.PipeOpts{Name: "cli0-again", Cap: 64})
			t.Proxy.AddClient("cli0", p2.B)
			cc2 := goat.NewClientConn(p2.A, "cli0", "srv")
			vsched.Settle()
			vsched.Explore(true)
			var rs []*env.Rec
			for i := 0; i < n; i++ {
				r := w.Rec(fmt.Sprintf("again%d", i), "Unary")
				rs = append(rs, r)
				vsched.GoNamed("caller-"+r.Tag, func() { w.CallUnary(cc2, context.Background(), r, "x") })
				if i == 0 {
					vsched.Quiesce()
				}
			}
			vsched.Quiesce()
			for _, r := range rs {
				checkUnary(r, "x", fam)
			}
			for _, e := range t.Tap.Events {
				if e.Wire == "cli0" && e.Dir == "b2a" && e.Seq > 0 && strings.HasPrefix(tagOfReply(e.Rpc), "again") {
					vsched.Fail(fam+"|wrong-connection", "the reply to a call made over the newer connection was written on the older one")
				}
			}
		},
	}
}

// tagOfReply: the tag a unary reply of the harness's service echoes ("R:<tag>|...")
func tagOfReply(rpc *env.Rpc) string {
	m := new(env.Msg)
	if rpc.GetBody() == nil || unmarshal(rpc.GetBody().GetData(), m) != nil {
		return ""
	}
	return strings.TrimPrefix(string(m.Value), "R:")
}
