package props

import (
	"context"
	"fmt"
	"io"
	"strings"
	"time"

	"google.golang.org/grpc"
	"google.golang.org/grpc/codes"
	"google.golang.org/grpc/metadata"
	"google.golang.org/grpc/stats"
	"google.golang.org/grpc/status"

	goat "github.com/avos-io/goat"
	"github.com/avos-io/goat/vh/env"
	"github.com/avos-io/goat/vrt/explore"
	"github.com/avos-io/goat/vrt/vsched"
)

func init() { register("C20", c20) }

type c20TagKey struct{ name string }

// c20SH records, per RPC tag, the sequence of events it was given.
type c20SH struct {
	name     string
	next     int
	events   map[int][]string // tag -> event names ("End:err"/"End:nil")
	untagged []string
	conn     []string
	methods  map[int]string
}

func newC20SH(name string) *c20SH {
	return &c20SH{name: name, events: map[int][]string{}, methods: map[int]string{}}
}

func (s *c20SH) TagRPC(ctx context.Context, info *stats.RPCTagInfo) context.Context {
	s.next++
	s.methods[s.next] = info.FullMethodName
	return context.WithValue(ctx, c20TagKey{s.name}, s.next)
}

func (s *c20SH) HandleRPC(ctx context.Context, st stats.RPCStats) {
	name := strings.TrimPrefix(fmt.Sprintf("%T", st), "*stats.")
	if e, ok := st.(*stats.End); ok {
		if e.Error == nil {
			name += ":nil"
		} else {
			name += ":err"
		}
	}
	tag, ok := ctx.Value(c20TagKey{s.name}).(int)
	if !ok {
		s.untagged = append(s.untagged, name)
		return
	}
	s.events[tag] = append(s.events[tag], name)
}

func (s *c20SH) TagConn(ctx context.Context, _ *stats.ConnTagInfo) context.Context {
	s.conn = append(s.conn, "TagConn")
	return ctx
}

func (s *c20SH) HandleConn(ctx context.Context, st stats.ConnStats) {
	s.conn = append(s.conn, strings.TrimPrefix(fmt.Sprintf("%T", st), "*stats."))
}

// check: every tag has exactly one Begin, first; exactly one End; End nil iff wantOK(tag's index).
func (s *c20SH) check(fam, side string, nRPC int, wantOK func(i int) (ok, judged bool)) {
	if len(s.untagged) > 0 {
		vsched.Fail(fam+"|untagged", "%s stats handler %s: events delivered without the context its TagRPC returned: %v", side, s.name, s.untagged)
	}
	if len(s.events) != nRPC {
		vsched.Fail(fam+"|rpc-count", "%s stats handler %s saw %d RPCs, want %d (%v)", side, s.name, len(s.events), nRPC, s.events)
	}
	for tag := 1; tag <= s.next; tag++ {
		ev := s.events[tag]
		if len(ev) == 0 {
			continue // tagged but refused before anything was emitted
		}
		begins, ends, endIdx := 0, 0, -1
		for i, e := range ev {
			if e == "Begin" {
				begins++
			}
			if strings.HasPrefix(e, "End") {
				ends++
				if endIdx < 0 {
					endIdx = i
				}
			}
		}
		if begins != 1 || ev[0] != "Begin" {
			vsched.Fail(fam+"|begin", "%s stats handler %s, RPC %d (%s): want exactly one Begin, first; got %v", side, s.name, tag, s.methods[tag], ev)
		}
		if ends != 1 {
			vsched.Fail(fam+"|end-count", "%s stats handler %s, RPC %d (%s): %d End events: %v", side, s.name, tag, s.methods[tag], ends, ev)
			continue
		}
		if ok, judged := wantOK(tag - 1); judged {
			if got := ev[endIdx] == "End:nil"; got != ok {
				vsched.Fail(fam+"|end-error", "%s stats handler %s, RPC %d (%s): End.Error nil=%v but the RPC succeeded=%v; events %v", side, s.name, tag, s.methods[tag], got, ok, ev)
			}
		}
	}
}

// interceptor log
type c20Log struct{ lines []string }

func (l *c20Log) add(f string, a ...any) { l.lines = append(l.lines, fmt.Sprintf(f, a...)) }

func c20(tier string) []*explore.Scenario {
	var out []*explore.Scenario
	for chain := 0; chain <= 6; chain++ {
		for _, native := range []bool{false, true} {
			if native && chain != 1 {
				continue
			}
			out = append(out, c20Chain(chain, native, false))
			if chain >= 1 {
				out = append(out, c20Chain(chain, native, true))
			}
		}
	}
	for _, n := range []int{2, 3} {
		out = append(out, c20Overlap(n, "Bidi"), c20Overlap(n, "Unary"))
	}
	for _, end := range []string{"stop", "read-fails", "write-fails"} {
		out = append(out, c20ConnEndsInFlight(end, 1), c20ConnEndsInFlightN(end, 8, 0), c20ConnEndsInFlightN(end, 11, 0))
	}
	for _, wf := range []bool{false, true} {
		out = append(out, c20AfterTransportFailure(wf, 0), c20AfterTransportFailure(wf, 2))
	}
	for _, re := range []string{"eof", "unexpected-eof", "canceled", ""} {
		out = append(out, c20OpenDoubleFault(re, true), c20OpenDoubleFault(re, false))
	}
	for _, ic := range []string{"retry", "fallback", "own-context", "retry-stream"} {
		out = append(out, c20ClientInterceptorStats(ic))
	}
	for nsh := 1; nsh <= 3; nsh++ {
		out = append(out, c20Stats(nsh, 0))
	}
	out = append(out, c20Stats(2, 1))
	out = append(out, c20AfterClose(1, 1), c20AfterClose(2, 0))
	out = append(out, fineGrained(c20Stats(2, 1))...)
	return out
}

// c20Chain: n chained server interceptors (native: installed with
// UnaryInterceptor/StreamInterceptor instead of the Chain options), a client
// interceptor, all 4 kinds x {ok, error}.
// fresh: every interceptor hands a NEW request object (and a wrapped
// ServerStream with a new context) down the chain and returns a NEW reply
// object, instead of mutating the one it was given.
type c20WrapSS struct {
	grpc.ServerStream
	ctx context.Context
}

func (w *c20WrapSS) Context() context.Context { return w.ctx }

func c20Chain(n int, native, fresh bool) *explore.Scenario {
	fam := "C20/chain"
	return &explore.Scenario{
		Name: fmt.Sprintf("C20/chain/n=%d/native=%v/fresh=%v", n, native, fresh), Family: fam, Prop: "C20", Bound: 0,
		Run: func() {
			lg := &c20Log{}
			var uis []grpc.UnaryServerInterceptor
			var sis []grpc.StreamServerInterceptor
			for i := 0; i < n; i++ {
				i := i
				uis = append(uis, func(ctx context.Context, req any, info *grpc.UnaryServerInfo, h grpc.UnaryHandler) (any, error) {
					lg.add("u%d>", i)
					md, _ := metadata.FromIncomingContext(ctx)
					md = md.Copy()
					md.Append("seen", fmt.Sprint(i))
					m := req.(*env.Msg)
					if fresh {
						m = &env.Msg{Value: append(append([]byte{}, m.Value...), []byte(fmt.Sprintf("+q%d", i))...)}
					} else {
						m.Value = append(m.Value, []byte(fmt.Sprintf("+q%d", i))...)
					}
					resp, err := h(metadata.NewIncomingContext(ctx, md), m)
					lg.add("u%d<", i)
					if err != nil {
						return resp, status.Errorf(status.Code(err), "%s+e%d", status.Convert(err).Message(), i)
					}
					rm := resp.(*env.Msg)
					if fresh {
						return &env.Msg{Value: append(append([]byte{}, rm.Value...), []byte(fmt.Sprintf("+r%d", i))...)}, nil
					}
					rm.Value = append(rm.Value, []byte(fmt.Sprintf("+r%d", i))...)
					return rm, nil
				})
				sis = append(sis, func(srv any, ss grpc.ServerStream, info *grpc.StreamServerInfo, h grpc.StreamHandler) error {
					lg.add("s%d>", i)
					if fresh {
						md, _ := metadata.FromIncomingContext(ss.Context())
						md = md.Copy()
						md.Append("seen", fmt.Sprint(i))
						ss = &c20WrapSS{ServerStream: ss, ctx: metadata.NewIncomingContext(ss.Context(), md)}
					}
					err := h(srv, ss)
					lg.add("s%d<", i)
					if err != nil {
						return status.Errorf(status.Code(err), "%s+e%d", status.Convert(err).Message(), i)
					}
					return nil
				})
			}
			var sopts []goat.ServerOption
			switch {
			case n == 0:
			case native:
				sopts = append(sopts, goat.UnaryInterceptor(uis[0]), goat.StreamInterceptor(sis[0]))
			default:
				sopts = append(sopts, goat.ChainUnaryInterceptor(uis...), goat.ChainStreamInterceptor(sis...))
			}
			clientCalls := 0
			dial := []goat.DialOption{
				goat.WithUnaryInterceptor(func(ctx context.Context, method string, req, reply any, cc *grpc.ClientConn, inv grpc.UnaryInvoker, opts ...grpc.CallOption) error {
					clientCalls++
					lg.add("cu>")
					err := inv(metadata.AppendToOutgoingContext(ctx, "from-client-interceptor", "yes"), method, req, reply, cc, opts...)
					lg.add("cu<")
					return err
				}),
				goat.WithStreamInterceptor(func(ctx context.Context, desc *grpc.StreamDesc, cc *grpc.ClientConn, method string, st grpc.Streamer, opts ...grpc.CallOption) (grpc.ClientStream, error) {
					clientCalls++
					lg.add("cs>")
					return st(metadata.AppendToOutgoingContext(ctx, "from-client-interceptor", "yes"), desc, cc, method, opts...)
				}),
			}
			w := env.NewWorld()
			d := env.NewDirect(w, env.DirectOpts{Pipe: env.PipeOpts{Cap: 64}, ServerOpts: sopts, DialOpts: dial})
			vsched.Settle()
			idx := 0
			for _, kind := range []string{"Unary", "Bidi", "SStream", "CStream"} {
				for _, fail := range []bool{false, true} {
					idx++
					tag := fmt.Sprintf("k%d", idx)
					lg.lines = nil
					before := clientCalls
					var herr error
					if fail {
						herr = status.Error(codes.DataLoss, "h")
					}
					var r *env.Rec
					if kind == "Unary" {
						r = w.Rec(tag, "Unary")
						w.Unaries[tag] = func(r *env.Rec, ctx context.Context, in string) (string, error) {
							lg.add("H")
							md, _ := metadata.FromIncomingContext(ctx)
							lg.add("seen=%v cli=%v req=%s", md.Get("seen"), md.Get("from-client-interceptor"), in)
							return "rep", herr
						}
						w.CallUnary(d.CC, context.Background(), r, "x")
					} else {
						r = w.Rec(tag, kind)
						w.Handlers[tag] = func(r *env.Rec, ss grpc.ServerStream) error {
							lg.add("H")
							md, _ := metadata.FromIncomingContext(ss.Context())
							lg.add("cli=%v", md.Get("from-client-interceptor"))
							if fresh {
								lg.add("seen=%v", md.Get("seen"))
							}
							for {
								m := new(env.Msg)
								if err := ss.RecvMsg(m); err != nil {
									break
								}
							}
							return herr
						}
						cs := w.Open(d.CC, context.Background(), r)
						if cs != nil {
							env.CSend(r, cs, "m")
							env.CClose(r, cs)
							env.CRecvAll(r, cs)
						}
					}
					vsched.Settle()
					got := strings.Join(lg.lines, " ")
					// expected order: client interceptor, then server interceptors 0..n-1 around the handler
					want := ""
					pfx := "s"
					if kind == "Unary" {
						pfx = "u"
						want = "cu> "
					} else {
						want = "cs> "
					}
					m := n
					if native && n > 0 {
						m = 1
					}
					for i := 0; i < m; i++ {
						want += fmt.Sprintf("%s%d> ", pfx, i)
					}
					want += "H "
					if kind == "Unary" {
						var seen []string
						req := tag + "|x"
						for i := 0; i < m; i++ {
							seen = append(seen, fmt.Sprint(i))
							req += fmt.Sprintf("+q%d", i)
						}
						want += fmt.Sprintf("seen=%v cli=[yes] req=%s ", seen, req)
					} else {
						want += "cli=[yes] "
						if fresh {
							var seen []string
							for i := 0; i < m; i++ {
								seen = append(seen, fmt.Sprint(i))
							}
							want += fmt.Sprintf("seen=%v ", seen)
						}
					}
					for i := m - 1; i >= 0; i-- {
						want += fmt.Sprintf("%s%d< ", pfx, i)
					}
					if kind == "Unary" {
						want += "cu<"
					}
					want = strings.TrimSpace(want)
					if got != want {
						vsched.Fail(fam+"|order", "%s (fail=%v) with %d server interceptors: call order/visibility was\n   %s\nwant\n   %s", kind, fail, m, got, want)
					}
					if clientCalls != before+1 {
						vsched.Fail(fam+"|client-interceptor-count", "%s: client interceptor ran %d times", kind, clientCalls-before)
					}
					// what the peer observes: reply and error as modified by the chain
					if fail {
						wantMsg := "h"
						for i := m - 1; i >= 0; i-- {
							wantMsg += fmt.Sprintf("+e%d", i)
						}
						if status.Code(r.CErr) != codes.DataLoss || status.Convert(r.CErr).Message() != wantMsg {
							vsched.Fail(fam+"|error-visible", "%s: caller saw %s, want DataLoss:%s", kind, env.ErrStr(r.CErr), wantMsg)
						}
					} else if kind == "Unary" {
						wantRep := "rep"
						for i := m - 1; i >= 0; i-- {
							wantRep += fmt.Sprintf("+r%d", i)
						}
						if r.CErr != nil || r.CReply != wantRep {
							vsched.Fail(fam+"|reply-visible", "unary: caller saw err=%v reply=%q, want %q", r.CErr, r.CReply, wantRep)
						}
					} else if r.CErr != io.EOF {
						vsched.Fail(fam+"|status", "%s: caller saw %s", kind, env.ErrStr(r.CErr))
					}
				}
			}
			vsched.Count("inputs", int64(idx))
			vsched.Obs("chain n=%d native=%v: %d RPCs", n, native, idx)
		},
	}
}

// c20Stats: nsh stats handlers on each side; every kind x outcome.
func c20Stats(nsh, bound int) *explore.Scenario {
	fam := "C20/stats"
	return &explore.Scenario{
		Name: fmt.Sprintf("C20/stats/handlers=%d/d=%d", nsh, bound), Family: fam, Prop: "C20", Bound: bound, Horizon: time.Hour, SelectCost: true,
		Run: func() {
			var csh, ssh []*c20SH
			var sopts []goat.ServerOption
			var dial []goat.DialOption
			for i := 0; i < nsh; i++ {
				c, s := newC20SH(fmt.Sprintf("c%d", i)), newC20SH(fmt.Sprintf("s%d", i))
				csh, ssh = append(csh, c), append(ssh, s)
				sopts = append(sopts, goat.StatsHandler(s))
				dial = append(dial, goat.WithStatsHandler(c))
			}
			w := env.NewWorld()
			d := env.NewDirect(w, env.DirectOpts{Pipe: env.PipeOpts{Cap: 64}, ServerOpts: sopts, DialOpts: dial})
			vsched.Settle()
			vsched.Explore(bound > 0)
			type outcome struct {
				kind, what string
			}
			var plan []outcome
			for _, k := range []string{"Unary", "Bidi", "SStream", "CStream"} {
				for _, o := range []string{"ok", "herr", "herr-eof", "herr-wrapped-eof", "herr-plain", "herr-canceled", "herr-ok-coded", "cancel1", "cancel3", "deadline", "openfail", "reset", "lateempty", "sendfail", "sendbad"} {
					if k == "Unary" && (o == "reset" || o == "lateempty" || o == "sendfail" || o == "sendbad") {
						continue
					}
					if bound > 0 && (k == "SStream" || k == "CStream" || (k == "Unary" && o != "cancel1" && o != "ok")) {
						continue
					}
					plan = append(plan, outcome{k, o})
				}
			}
			clientOK := map[int]bool{}
			serverOK := map[int]bool{}
			serverSeen := 0
			serverIdx := map[int]int{} // client rpc index -> server rpc index
			for i, o := range plan {
				tag := fmt.Sprintf("r%d", i)
				c14RPC(w, d, o.kind, o.what, tag)
				// the caller has just been told how the call ended by an envelope from the server (a reply, the end of
				// the stream, the handler's status): by then every stats handler has the call's End - an observer that
				// learns the outcome from the call itself never sees a finished RPC without one
				if r0 := w.Recs[tag]; r0 != nil && r0.COpenErr == nil && (o.what == "ok" || strings.HasPrefix(o.what, "herr")) && r0.HReturned {
					for _, sh := range csh {
						if ev := sh.events[i+1]; len(ev) > 0 && !strings.HasPrefix(ev[len(ev)-1], "End") {
							vsched.Fail(fam+"|end-after-outcome", "client stats handler %s, RPC %d (%s %s): the caller already has the call's outcome (%v) but the handler has no End yet: %v", sh.name, i+1, o.kind, o.what, r0.CErr, ev)
						}
					}
				}
				vsched.QuiesceTime()
				r := w.Recs[tag]
				clientOK[i] = r.COpenErr == nil && (r.CErr == nil || r.CErr == io.EOF)
				if r.CStream != nil {
					// the stream's final, recorded status decides (a cancel may race with a clean end)
					clientOK[i] = r.CStream.RecvMsg(new(env.Msg)) == io.EOF
				}
				if r.HStarts > 0 {
					serverIdx[i] = serverSeen
					serverOK[serverSeen] = r.HReturned && r.HRet == nil
					serverSeen++
				}
			}
			// every RPC above has ended for its caller (completed, failed, cancelled, abandoned after a refused
			// send): its End has been delivered by now - not only when the connection ends
			for _, sh := range csh {
				for tag := 1; tag <= sh.next; tag++ {
					ev := sh.events[tag]
					if len(ev) > 0 && !strings.HasPrefix(ev[len(ev)-1], "End") {
						o := plan[tag-1]
						vsched.Fail(fam+"|end-missing", "client stats handler %s, RPC %d (%s %s): the RPC is over for its caller but no End has been delivered while the connection is alive: %v", sh.name, tag, o.kind, o.what, ev)
					}
				}
			}
			// transport failure with an RPC in flight
			{
				i := len(plan)
				tag := fmt.Sprintf("r%d", i)
				r := w.Rec(tag, "Bidi")
				w.Handlers[tag] = env.HEcho
				vsched.GoNamed("rpc-last", func() {
					cs := w.Open(d.CC, context.Background(), r)
					if cs != nil {
						env.CSend(r, cs, "m")
						env.CRecvAll(r, cs)
					}
					r.CDone = true
				})
				vsched.Quiesce()
				d.Pipe.A.Break()
				d.Pipe.B.Break()
				vsched.Quiesce()
				clientOK[i] = false
				if r.HStarts > 0 {
					serverOK[serverSeen] = r.HReturned && r.HRet == nil
					serverSeen++
				}
			}
			nClient := len(plan) + 1
			for _, s := range csh {
				s.check(fam, "client", nClient, func(i int) (bool, bool) { ok, j := clientOK[i]; return ok, j })
			}
			for _, s := range ssh {
				s.check(fam, "server", serverSeen, func(i int) (bool, bool) { ok, j := serverOK[i]; return ok, j })
				conn := strings.Join(s.conn, " ")
				if !d.ServeDone {
					vsched.Fail(fam+"|serve-hang", "Serve did not return")
				} else if strings.Count(conn, "ConnBegin") != 1 || strings.Count(conn, "ConnEnd") != 1 {
					vsched.Fail(fam+"|conn-events", "server stats handler %s: connection events %q, want exactly one ConnBegin and one ConnEnd", s.name, conn)
				}
			}
			vsched.Obs("client RPCs=%d server RPCs=%d", nClient, serverSeen)
		},
	}
}

// c20Overlap: RPCs that overlap in time through a chain of n interceptors:
// A is parked in its handler while B runs to completion, then A is released,
// then C runs alone. Every RPC passes every interceptor once, in order.
func c20Overlap(n int, kind string) *explore.Scenario {
	fam := "C20/chain"
	return &explore.Scenario{
		Name: fmt.Sprintf("C20/chain-overlap/n=%d/%s", n, kind), Family: fam, Prop: "C20", Bound: 1,
		Run: func() {
			seen := map[string][]string{}
			tagOf := func(ctx context.Context) string {
				md, _ := metadata.FromIncomingContext(ctx)
				if v := md.Get("tag"); len(v) > 0 {
					return v[0]
				}
				return "?"
			}
			var uis []grpc.UnaryServerInterceptor
			var sis []grpc.StreamServerInterceptor
			for i := 0; i < n; i++ {
				i := i
				uis = append(uis, func(ctx context.Context, req any, info *grpc.UnaryServerInfo, h grpc.UnaryHandler) (any, error) {
					t := strings.SplitN(string(req.(*env.Msg).Value), "|", 2)[0] // unary requests carry their tag in the payload
					seen[t] = append(seen[t], fmt.Sprintf("i%d>", i))
					resp, err := h(ctx, req)
					seen[t] = append(seen[t], fmt.Sprintf("i%d<", i))
					return resp, err
				})
				sis = append(sis, func(srv any, ss grpc.ServerStream, info *grpc.StreamServerInfo, h grpc.StreamHandler) error {
					t := tagOf(ss.Context())
					seen[t] = append(seen[t], fmt.Sprintf("i%d>", i))
					err := h(srv, ss)
					seen[t] = append(seen[t], fmt.Sprintf("i%d<", i))
					return err
				})
			}
			w := env.NewWorld()
			d := env.NewDirect(w, env.DirectOpts{Pipe: env.PipeOpts{Cap: 64}, ServerOpts: []goat.ServerOption{goat.ChainUnaryInterceptor(uis...), goat.ChainStreamInterceptor(sis...)}})
			vsched.Settle()
			vsched.Explore(true)
			release := make(chan struct{})
			recs := map[string]*env.Rec{}
			for _, tag := range []string{"A", "B", "C"} {
				tag := tag
				r := w.Rec(tag, kind)
				recs[tag] = r
				if kind == "Unary" {
					w.Unaries[tag] = func(r *env.Rec, ctx context.Context, in string) (string, error) {
						seen[tag] = append(seen[tag], "H")
						if tag == "A" {
							<-release
						}
						return "ok", nil
					}
				} else {
					w.Handlers[tag] = func(r *env.Rec, ss grpc.ServerStream) error {
						seen[tag] = append(seen[tag], "H")
						if tag == "A" {
							<-release
						}
						return nil
					}
				}
			}
			call := func(tag string) {
				r := recs[tag]
				if kind == "Unary" {
					w.CallUnary(d.CC, context.Background(), r, "x")
					return
				}
				cs := w.Open(d.CC, context.Background(), r)
				if cs != nil {
					env.CClose(r, cs)
					env.CRecvAll(r, cs)
				}
				r.CDone = true
			}
			vsched.GoNamed("caller-A", func() { call("A") })
			vsched.Quiesce() // A is parked in its handler
			vsched.GoNamed("caller-B", func() { call("B") })
			vsched.Quiesce()
			close(release)
			vsched.Quiesce()
			vsched.GoNamed("caller-C", func() { call("C") })
			vsched.Quiesce()
			want := ""
			for i := 0; i < n; i++ {
				want += fmt.Sprintf("i%d> ", i)
			}
			want += "H"
			for i := n - 1; i >= 0; i-- {
				want += fmt.Sprintf(" i%d<", i)
			}
			for _, tag := range []string{"A", "B", "C"} {
				got := strings.Join(seen[tag], " ")
				vsched.Obs("%s: %s done=%v err=%s", tag, got, recs[tag].CDone, env.ErrStr(recs[tag].CErr))
				if got != want {
					vsched.Fail(fam+"|order", "%s RPC %s (A overlaps B; C runs alone) through %d chained interceptors saw: %s; want: %s", kind, tag, n, got, want)
				}
				if !recs[tag].CDone {
					vsched.Fail(fam+"|status", "%s RPC %s never completed", kind, tag)
				}
			}
		},
	}
}

// c20ClientInterceptorStats: a client interceptor that is not a pass-through -
// it calls the invoker twice (retry after a failure), turns a failure into
// success (fallback), or hands the invoker a context of its own - together with
// a client stats handler. Each RPC that goes out has its own Begin ... End,
// End.Error tells whether THAT RPC succeeded, and every event carries the
// context TagRPC returned for it.
func c20ClientInterceptorStats(what string) *explore.Scenario {
	fam := "C20/stats"
	return &explore.Scenario{
		Name: "C20/client-interceptor-with-stats/" + what, Family: fam, Prop: "C20", Bound: 0, Horizon: time.Hour,
		Run: func() {
			sh := newC20SH("c0")
			type ownKey struct{}
			dial := []goat.DialOption{goat.WithStatsHandler(sh),
				goat.WithUnaryInterceptor(func(ctx context.Context, method string, req, reply any, cc *grpc.ClientConn, inv grpc.UnaryInvoker, opts ...grpc.CallOption) error {
					switch what {
					case "retry":
						if err := inv(ctx, method, req, reply, cc, opts...); err != nil {
							return inv(ctx, method, req, reply, cc, opts...)
						}
						return nil
					case "fallback":
						if err := inv(ctx, method, req, reply, cc, opts...); err != nil {
							reply.(*env.Msg).Value = []byte("default")
						}
						return nil
					case "own-context":
						return inv(context.WithValue(context.Background(), ownKey{}, 1), method, req, reply, cc, opts...)
					}
					return inv(ctx, method, req, reply, cc, opts...)
				}),
				goat.WithStreamInterceptor(func(ctx context.Context, desc *grpc.StreamDesc, cc *grpc.ClientConn, method string, st grpc.Streamer, opts ...grpc.CallOption) (grpc.ClientStream, error) {
					if what == "retry-stream" {
						// open, give up on the first attempt, open again
						c1, cancel1 := context.WithCancel(ctx)
						if cs, err := st(c1, desc, cc, method, opts...); err == nil {
							cancel1()
							cs.RecvMsg(new(env.Msg))
						} else {
							cancel1()
						}
					}
					return st(ctx, desc, cc, method, opts...)
				}),
			}
			w := env.NewWorld()
			d := env.NewDirect(w, env.DirectOpts{Pipe: env.PipeOpts{Cap: 64}, DialOpts: dial})
			vsched.Settle()
			calls := 0
			w.Rec("u", "Unary")
			w.Unaries["u"] = func(r *env.Rec, ctx context.Context, in string) (string, error) {
				calls++
				if calls == 1 && what != "own-context" {
					return "", status.Error(codes.Unavailable, "try again")
				}
				return "fine", nil
			}
			w.Rec("s", "Bidi")
			w.Handlers["s"] = env.HEcho
			var okByRPC []bool // per RPC on the wire, in order: did it succeed
			if what == "retry-stream" {
				r := w.Recs["s"]
				cs := w.Open(d.CC, context.Background(), r)
				if cs != nil {
					env.CSend(r, cs, "m")
					env.CClose(r, cs)
					env.CRecvAll(r, cs)
				}
				vsched.QuiesceTime()
				okByRPC = []bool{false, r.CErr == io.EOF}
			} else {
				out := new(env.Msg)
				err := d.CC.Invoke(context.Background(), env.MUnary, env.S("u|x"), out)
				vsched.QuiesceTime()
				switch what {
				case "retry":
					okByRPC = []bool{false, true}
					if err != nil || string(out.Value) != "fine" {
						vsched.Fail(fam+"|harness", "retry: caller saw err=%v reply=%q", err, out.Value)
					}
				case "fallback":
					okByRPC = []bool{false}
				case "own-context":
					okByRPC = []bool{true}
				}
			}
			vsched.Obs("%s: events %v untagged %v", what, sh.events, sh.untagged)
			sh.check(fam, "client", len(okByRPC), func(i int) (bool, bool) {
				if i < len(okByRPC) {
					return okByRPC[i], true
				}
				return false, false
			})
			finishDirect(d, w, false)
		},
	}
}

// c20ConnEndsInFlight: a unary call and a stream are in flight, each in a
// handler that waits on its context and then takes a moment to return, when the
// connection ends (Stop, read failure, write failure). Every server stats
// handler still sees, for each of the two RPCs, exactly one Begin and exactly
// one End, and the End carries an error.
func c20ConnEndsInFlight(end string, bound int) *explore.Scenario {
	return c20ConnEndsInFlightN(end, 0, bound)
}

// extra > 0: that many further unary calls are in flight (more than the 8 workers of the unary
// pool: some requests are still waiting for a worker when the connection ends).
func c20ConnEndsInFlightN(end string, extra, bound int) *explore.Scenario {
	fam := "C20/stats"
	name := "C20/stats/connection-ends-in-flight/" + end
	if extra > 0 {
		name += fmt.Sprintf("/unary=%d", extra+1)
	}
	return &explore.Scenario{
		Name: name, Family: fam, Prop: "C20", Bound: bound, Horizon: time.Hour,
		Run: func() {
			ssh := []*c20SH{newC20SH("s0"), newC20SH("s1")}
			w := env.NewWorld()
			d := env.NewDirect(w, env.DirectOpts{Pipe: env.PipeOpts{Cap: 64}, ServerOpts: []goat.ServerOption{goat.StatsHandler(ssh[0]), goat.StatsHandler(ssh[1])}})
			vsched.Settle()
			vsched.Explore(true)
			slow := make(chan struct{})
			ru, rs := w.Rec("u", "Unary"), w.Rec("s", "Bidi")
			w.Unaries["u"] = func(r *env.Rec, ctx context.Context, in string) (string, error) {
				<-ctx.Done()
				<-slow
				return "", status.FromContextError(ctx.Err()).Err()
			}
			w.Handlers["s"] = func(r *env.Rec, ss grpc.ServerStream) error {
				<-ss.Context().Done()
				<-slow
				return status.FromContextError(ss.Context().Err()).Err()
			}
			vsched.GoNamed("caller-u", func() { w.CallUnary(d.CC, context.Background(), ru, "x") })
			if extra > 0 && end != "stop" {
				// with the pool exhausted the read loop is parked handing over the 9th request: the server
				// cannot notice that the transport went away before a worker is free again, so these
				// handlers do not wait for their context (only for the gate)
				w.Unaries["u"] = func(r *env.Rec, ctx context.Context, in string) (string, error) {
					<-slow
					return "late", nil
				}
			}
			for i := 0; i < extra; i++ {
				tag := fmt.Sprintf("u%d", i+1)
				rx := w.Rec(tag, "Unary")
				w.Unaries[tag] = w.Unaries["u"]
				vsched.GoNamed("caller-"+tag, func() { w.CallUnary(d.CC, context.Background(), rx, "x") })
			}
			vsched.GoNamed("caller-s", func() {
				if cs := w.Open(d.CC, context.Background(), rs); cs != nil {
					env.CSend(rs, cs, "m")
					env.CRecvAll(rs, cs)
				}
				rs.CDone = true
			})
			vsched.Quiesce()
			switch end {
			case "stop":
				d.Srv.Stop()
			case "read-fails":
				d.Pipe.A.Break()
				d.Pipe.B.Break()
			case "write-fails":
				d.Pipe.B.WriteFailAt = d.Pipe.B.NWritten
				pr := w.Rec("p", "Unary")
				vsched.GoNamed("caller-p", func() { w.CallUnary(d.CC, context.Background(), pr, "x") })
			}
			vsched.Quiesce()
			close(slow)
			vsched.Quiesce()
			d.Pipe.A.Break()
			d.Pipe.B.Break()
			vsched.Quiesce()
			vsched.Obs("end=%s serveDone=%v s0=%v", end, d.ServeDone, ssh[0].events)
			for _, sh := range ssh {
				if len(sh.untagged) > 0 {
					vsched.Fail(fam+"|untagged", "server stats handler %s: events without its TagRPC context: %v", sh.name, sh.untagged)
				}
				for tag := 1; tag <= sh.next; tag++ {
					ev := sh.events[tag]
					if len(ev) == 0 {
						continue
					}
					begins, ends, endErr := 0, 0, false
					for _, e := range ev {
						if e == "Begin" {
							begins++
						}
						if strings.HasPrefix(e, "End") {
							ends++
							endErr = e == "End:err"
						}
					}
					if begins != 1 || ends != 1 {
						vsched.Fail(fam+"|end-count", "the connection ended (%s) with RPC %s in flight: server stats handler %s saw %d Begin and %d End: %v", end, sh.methods[tag], sh.name, begins, ends, ev)
					} else if !endErr && (sh.methods[tag] != env.MUnary || (end != "write-fails" && !(extra > 0 && end != "stop"))) {
						// (the gated unary handlers of the pool-exhausted variants return success: End without error is their true outcome)
						vsched.Fail(fam+"|end-error", "the connection ended (%s) with RPC %s in flight: server stats handler %s saw End without an error: %v", end, sh.methods[tag], sh.name, ev)
					}
				}
			}
		},
	}
}

// c20AfterTransportFailure: the connection's transport fails (its read side, the write side
// failing too or not); RPCs attempted on that ClientConn afterwards are RPCs like any other:
// the client's unary / stream interceptor runs once for each, and every client stats handler
// sees one Begin and one End with an error for each attempt that gets as far as the library.
func c20AfterTransportFailure(writeFails bool, before int) *explore.Scenario {
	fam := "C20/stats"
	return &explore.Scenario{
		Name: fmt.Sprintf("C20/after-transport-failure/writefails=%v/earlier-calls=%d", writeFails, before), Family: fam, Prop: "C20", Bound: 0, Horizon: time.Hour,
		Run: func() {
			sh := newC20SH("c0")
			unaryIC, streamIC := 0, 0
			dial := []goat.DialOption{goat.WithStatsHandler(sh),
				goat.WithUnaryInterceptor(func(ctx context.Context, method string, req, reply any, cc *grpc.ClientConn, inv grpc.UnaryInvoker, opts ...grpc.CallOption) error {
					unaryIC++
					return inv(ctx, method, req, reply, cc, opts...)
				}),
				goat.WithStreamInterceptor(func(ctx context.Context, desc *grpc.StreamDesc, cc *grpc.ClientConn, method string, st grpc.Streamer, opts ...grpc.CallOption) (grpc.ClientStream, error) {
					streamIC++
					return st(ctx, desc, cc, method, opts...)
				}),
			}
			w := env.NewWorld()
			d := env.NewDirect(w, env.DirectOpts{Pipe: env.PipeOpts{Cap: 64}, DialOpts: dial})
			d.Pipe.A.WriteFailsWithRead = writeFails
			vsched.Settle()
			var ok []bool
			for i := 0; i < before; i++ {
				r := w.Rec(fmt.Sprintf("b%d", i), "Unary")
				w.CallUnary(d.CC, context.Background(), r, "x")
				ok = append(ok, r.CErr == nil)
			}
			vsched.Settle()
			d.Pipe.A.FailReads()
			vsched.Settle()
			for i := 0; i < 3; i++ {
				r := w.Rec(fmt.Sprintf("a%d", i), "Unary")
				done := false
				vsched.GoNamed("caller-"+r.Tag, func() { w.CallUnary(d.CC, context.Background(), r, "x"); done = true })
				vsched.QuiesceTime()
				if !done || r.CErr == nil {
					vsched.Fail(fam+"|harness", "a unary call on a failed connection: done=%v err=%v", done, r.CErr)
					return
				}
				ok = append(ok, false)
			}
			rs := w.Rec("as", "Bidi")
			sdone := false
			vsched.GoNamed("caller-as", func() {
				if cs := w.Open(d.CC, context.Background(), rs); cs != nil {
					env.CSend(rs, cs, "m")
					env.CRecvAll(rs, cs)
				}
				sdone = true
			})
			vsched.QuiesceTime()
			if !sdone {
				vsched.Fail(fam+"|harness", "a stream attempt on a failed connection never returned")
				return
			}
			if rs.COpenErr == nil {
				ok = append(ok, false) // (a stream whose open is refused outright emits nothing: nothing to count)
			}
			vsched.Obs("writefails=%v: interceptors unary=%d stream=%d events=%v", writeFails, unaryIC, streamIC, sh.events)
			if unaryIC != before+3 {
				vsched.Fail(fam+"|interceptor-count", "%d unary calls before and 3 after the transport failed: the client's unary interceptor ran %d times", before, unaryIC)
			}
			if streamIC != 1 {
				vsched.Fail(fam+"|interceptor-count", "one stream attempt after the transport failed: the client's stream interceptor ran %d times", streamIC)
			}
			sh.check(fam, "client", len(ok), func(i int) (bool, bool) {
				if i < len(ok) {
					return ok[i], true
				}
				return false, false
			})
		},
	}
}

// c20OpenDoubleFault: a stream's opening envelope is inside the transport's Write when the
// read side fails (with io.EOF / another error); the write then fails too (or goes through).
// The RPC fails for its caller, and the client's stats handlers are told so: one Begin, one
// End, End.Error non-nil - whatever error value the failed open happens to carry.
func c20OpenDoubleFault(readErr string, writeFails bool) *explore.Scenario {
	fam := "C20/stats"
	return &explore.Scenario{
		Name: fmt.Sprintf("C20/open-double-fault/read=%s/write-fails=%v", readErr, writeFails), Family: fam, Prop: "C20", Bound: 1, Horizon: time.Hour,
		Run: func() {
			sh := newC20SH("c0")
			w := env.NewWorld()
			d := env.NewDirect(w, env.DirectOpts{Pipe: env.PipeOpts{Cap: 64}, DialOpts: []goat.DialOption{goat.WithStatsHandler(sh)}})
			d.Pipe.A.ReadFailErr = c09Errs[readErr]
			vsched.Settle()
			d.Pipe.A.HoldIf = func(k int, rpc *env.Rpc) bool { return rpc.GetHeader().GetMethod() == env.MBidi }
			vsched.Explore(true)
			r := w.Rec("s", "Bidi")
			var cs grpc.ClientStream
			opened := false
			vsched.GoNamed("caller", func() { cs = w.Open(d.CC, context.Background(), r); opened = true })
			vsched.Quiesce()
			if d.Pipe.A.Holding != 1 {
				vsched.Fail(fam+"|harness", "the opening write is not held")
				return
			}
			d.Pipe.A.FailReads()
			vsched.Quiesce()
			d.Pipe.A.ReleaseHeld(writeFails)
			d.Pipe.A.HoldIf = nil
			vsched.Quiesce()
			if !opened {
				vsched.Fail(fam+"|harness", "NewStream never returned; threads: %s", threadList())
				return
			}
			failed := cs == nil
			if cs != nil {
				// the open went through: the stream then ends by the read failure
				env.CRecvAll(r, cs)
				failed = r.CErr != nil && r.CErr != io.EOF
			}
			vsched.QuiesceTime()
			vsched.Obs("read=%s writeFails=%v: open err=%v recv err=%v events=%v", readErr, writeFails, r.COpenErr, r.CErr, sh.events)
			if !failed {
				vsched.Fail(fam+"|harness", "the RPC did not fail: %s", r.Summary())
			}
			sh.check(fam, "client", 1, func(i int) (bool, bool) { return false, true })
		},
	}
}

// c20AfterClose: the application calls ClientConn.Close (once or twice) while a unary call is in flight and goes on
// using the connection afterwards (Close only reports the end of the connection to the stats handlers; the transport
// was never the ClientConn's): every RPC - the one in flight and the later ones - still has its Begin and its End.
func c20AfterClose(closes, bound int) *explore.Scenario {
	fam := "C20/stats"
	return &explore.Scenario{
		Name: fmt.Sprintf("C20/stats/after-close/closes=%d/d=%d", closes, bound), Family: fam, Prop: "C20", Bound: bound,
		Run: func() {
			sh := newC20SH("c0")
			w := env.NewWorld()
			d := env.NewDirect(w, env.DirectOpts{Pipe: env.PipeOpts{Cap: 64}, DialOpts: []goat.DialOption{goat.WithStatsHandler(sh)}})
			vsched.Settle()
			vsched.Explore(bound > 0)
			release := make(chan struct{})
			a, b, st := w.Rec("a", "Unary"), w.Rec("b", "Unary"), w.Rec("st", "Bidi")
			w.Unaries["a"] = func(r *env.Rec, ctx context.Context, in string) (string, error) {
				<-release
				return "R:" + in, nil
			}
			vsched.GoNamed("caller-a", func() { w.CallUnary(d.CC, context.Background(), a, "x") })
			vsched.Quiesce()
			for i := 0; i < closes; i++ {
				d.CC.Close()
			}
			close(release)
			vsched.Quiesce()
			vsched.GoNamed("caller-b", func() { w.CallUnary(d.CC, context.Background(), b, "y") })
			vsched.GoNamed("caller-st", func() { streamCase{"Bidi", "pingpong", "echo", 1, 0, 0}.runCaller(w, d.CC, context.Background(), st) })
			vsched.Quiesce()
			checkUnary(a, "x", fam)
			ok := map[int]bool{0: true}
			n := 1
			// calls after Close may be refused or served: whichever, what the stats handlers see of them is complete
			for _, r := range []*env.Rec{b, st} {
				if !r.CDone {
					vsched.Fail(fam+"|hang", "call %s made after Close never returned", r.Tag)
				}
			}
			_ = ok
			for tag := 1; tag <= sh.next; tag++ {
				ev := sh.events[tag]
				begins, ends := 0, 0
				for _, e := range ev {
					if e == "Begin" {
						begins++
					}
					if strings.HasPrefix(e, "End") {
						ends++
					}
				}
				if len(ev) > 0 && (begins != 1 || ends != 1) {
					vsched.Fail(fam+"|end-count", "client stats handler, RPC %d (%s), Close called %d times with the first call in flight: %d Begin and %d End events: %v", tag, sh.methods[tag], closes, begins, ends, ev)
				}
				n++
			}
			if (b.CErr == nil || st.COpenErr == nil) && sh.next < 2 {
				vsched.Fail(fam+"|rpc-count", "calls made after Close were served but the stats handler was never asked to tag them (saw %d RPCs)", sh.next)
			}
			d.Pipe.A.Break()
			d.Pipe.B.Break()
			vsched.Quiesce()
		},
	}
}
