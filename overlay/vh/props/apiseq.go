package props

import (
	"context"
	"fmt"
	"io"

	"google.golang.org/grpc"
	"google.golang.org/grpc/codes"
	"google.golang.org/grpc/status"

	"github.com/avos-io/goat/vh/env"
	"github.com/avos-io/goat/vrt/explore"
	"github.com/avos-io/goat/vrt/vsched"
)

// apiSeq: every sequence (up to a length) of client-stream API operations the
// gRPC API permits from one goroutine — S send, R receive, C half-close,
// H Header(), T Trailer() (only after a failed receive), X cancel — against a
// handler program, enumerated through environment choice points.  One driver,
// several oracles (reported under the property that owns each clause):
//
//	C02  what was received is a prefix of what the handler sent; EOF only after everything
//	C06  the wire automaton (through finishDirect)
//	C07  operations invoked after the cancel fail with the context's status
//	C14  after a final cancel and quiescence the connection is back to its idle state
//
// and, for every property, no panic and no operation that never returns.
func apiSeq(prop, hprog string, first byte, maxLen, bound int) *explore.Scenario {
	return apiSeqL(prop, hprog, first, maxLen, bound, false)
}

// loose: also the repeated uses an application may make - CloseSend again after CloseSend, Trailer() at any
// time and any number of times (what an early Trailer() returns is not judged)
func apiSeqL(prop, hprog string, first byte, maxLen, bound int, loose bool) *explore.Scenario {
	name := fmt.Sprintf("%s/api-seq/handler=%s/first=%c/len<=%d/d=%d", prop, hprog, first, maxLen, bound)
	if loose {
		name += "/repeated-ops"
	}
	return &explore.Scenario{
		Name:   name,
		Family: prop + "/api-seq", Prop: prop, Bound: bound, MaxExecs: 3000000,
		Run: func() {
			w := env.NewWorld()
			env.MsgSize = 0
			d := env.NewDirect(w, env.DirectOpts{Pipe: env.PipeOpts{Cap: 64}})
			vsched.Settle()
			idle := c14State(d)
			vsched.Explore(true)
			r := w.Rec("s", "Bidi")
			var herr error
			switch hprog {
			case "echo":
				w.Handlers["s"] = env.HEcho
			case "collect":
				w.Handlers["s"] = env.HCollect
			case "burst2":
				w.Handlers["s"] = env.HSendThenReturn(2, nil)
			case "retearly":
				w.Handlers["s"] = env.HReturnAfter(1, nil)
			case "fail":
				herr = status.Error(codes.ResourceExhausted, "handler says no")
				w.Handlers["s"] = env.HReturnAfter(1, herr)
			}
			ctx, cancel := context.WithCancel(context.Background())
			seq := ""
			done := false
			cancelled := false
			var log []c07Op
			vsched.GoNamed("caller", func() {
				cs := w.Open(d.CC, ctx, r)
				if cs == nil {
					done = true
					return
				}
				n := 0
				recvFailed := false
				closeTried := false
				for pos := 0; pos < maxLen; pos++ {
					op := first
					if pos > 0 {
						alphabet := "RHX"
						if !r.CClosed && !closeTried {
							alphabet = "SC" + alphabet // no send or second half-close after CloseSend (API contract)
						}
						if recvFailed {
							alphabet += "T"
						}
						if loose {
							if r.CClosed || closeTried {
								alphabet = "SC" + alphabet // CloseSend again; SendMsg after CloseSend (it may be refused, it must return)
							}
							if !recvFailed {
								alphabet += "T" // Trailer() before the end
							}
						}
						c := vsched.Choose(len(alphabet) + 1)
						if c == len(alphabet) {
							break
						}
						op = alphabet[c]
					}
					seq += string(op)
					if op == 'C' {
						closeTried = true
					}
					switch op {
					case 'S', 'R', 'C':
						runOps(r, cs, string(op), func() bool { return cancelled }, &log, &n)
						if op == 'R' && log[len(log)-1].err != nil {
							recvFailed = true
						}
					case 'H':
						if op == 'H' && !cancelled && !r.CClosed && hprog != "burst2" && len(r.CSent) == 0 {
							// Header() blocks until the first response: only ask when one can come
							// (echo/collect/retearly/fail answer only after the caller sent or closed)
							continue
						}
						md, err := cs.Header()
						r.CHeader, r.CHeaderOK = md, err == nil
					case 'T':
						r.CTrailer = cs.Trailer()
					case 'X':
						cancel()
						cancelled = true
					}
				}
				done = true
			})
			vsched.Quiesce()
			vsched.Obs("seq=%s %s", seq, r.Summary())
			// C02 clauses
			if !isPrefix(r.CRecv, r.HSent) {
				vsched.Fail("C02/api-seq|caller-recv-order", "after ops %s: caller received %v, handler sent %v", seq, r.CRecv, r.HSent)
			}
			if r.CErr == io.EOF && (!r.HReturned || r.HRet != nil || !eqStrs(r.CRecv, r.HSent)) && !cancelled {
				vsched.Fail("C02/api-seq|eof-too-early", "after ops %s: caller saw io.EOF but the handler had not finished successfully / messages are missing: %s", seq, r.Summary())
			}
			if loose && !cancelled && r.HReturned && r.HRet == nil && r.CErr != nil && r.CErr != io.EOF {
				vsched.Fail("C02/api-seq|success-as-failure", "after ops %s: the handler returned nil, the caller (who never cancelled) saw %s", seq, env.ErrStr(r.CErr))
			}
			if herr != nil && r.CErr == io.EOF {
				vsched.Fail("C03/api-seq|failure-as-success", "after ops %s: handler failed but the caller saw io.EOF", seq)
			}
			// C07 clause: operations after the cancel
			if cancelled {
				for i, o := range log {
					if !o.after {
						continue
					}
					if o.op == 'R' && o.err == nil {
						vsched.Fail("C07/api-seq|recv-after-cancel-delivered", "after ops %s: RecvMsg #%d invoked after cancel returned a message", seq, i)
					}
					if o.op == 'S' && o.err == nil {
						vsched.Fail("C07/api-seq|send-after-cancel-ok", "after ops %s: SendMsg #%d invoked after cancel succeeded", seq, i)
					}
				}
			}
			// wind the stream down and compare with the idle state (C14), check the wire (C06)
			cancel()
			vsched.Quiesce()
			if !done {
				vsched.Fail(prop+"/api-seq|op-hang", "after ops %s (then cancel): an operation never returned: %s; threads: %s", seq, r.Summary(), threadList())
			}
			if st := c14State(d); st != idle {
				vsched.Fail("C14/api-seq|not-idle:"+diffKey(idle, st), "after ops %s (then cancel) the connection did not return to its idle state:\n%s", seq, diffStates(idle, st))
			}
			finishDirect(d, w, false)
		},
	}
}

// apiSeqs: the family for one property (each property reports only its own clauses).
func apiSeqs(prop, tier string) []*explore.Scenario {
	var out []*explore.Scenario
	maxLen := 4
	if tier == "thorough" {
		maxLen = 5
	}
	for _, h := range []string{"echo", "collect", "burst2", "retearly", "fail"} {
		for _, f := range []byte("SRCX") {
			out = append(out, apiSeq(prop, h, f, maxLen, 0))
		}
	}
	out = append(out, apiSeq(prop, "echo", 'S', 3, 1), apiSeq(prop, "retearly", 'S', 3, 1), apiSeq(prop, "burst2", 'R', 3, 1))
	if prop != "C06" { // (what a second CloseSend puts on the wire is the application's doing: not judged by the wire automaton)
		for _, h := range []string{"echo", "collect", "burst2"} {
			out = append(out, apiSeqL(prop, h, 'S', maxLen, 0, true), apiSeqL(prop, h, 'C', maxLen, 0, true))
		}
		out = append(out, apiSeqL(prop, "echo", 'C', 3, 1, true))
	}
	return out
}

var _ = grpc.ErrServerStopped
