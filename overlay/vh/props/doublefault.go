package props

import (
	"bytes"
	"context"
	"fmt"
	"time"

	"github.com/avos-io/goat/vh/env"
	"github.com/avos-io/goat/vrt/explore"
	"github.com/avos-io/goat/vrt/vsched"
)

// opInWrite: double faults around a client stream operation that is INSIDE the transport's
// Write (the transport holds it: a full kernel buffer, a peer that stopped reading).
//
//	held:   which write is held - "send" (a message), "closesend" (the half-close), "reset" (the
//	        RST_STREAM of a cancelled stream: the cancellation then comes first)
//	second: what happens while it is held - "cancel" (the caller's context ends), "readfail" (the
//	        transport's read side fails, the write side stays usable), "cancel+readfail", "none"
//	fails:  the held write finally fails / goes through
//
// Whatever the combination: every operation of the stream returns, later operations on a
// cancelled stream fail, other calls on the connection are answered (or fail at once when the
// read side is gone), the handler's context is done after a cancellation whose reset could be
// written, and (read side alive) the connection returns to its idle state.
func opInWrite(prop, held, second string, fails bool, bound int) *explore.Scenario {
	fam := prop + "/op-in-write"
	return &explore.Scenario{
		Name: fmt.Sprintf("%s/op-in-write/held=%s/then=%s/write-fails=%v", prop, held, second, fails), Family: fam, Prop: prop, Bound: bound, Horizon: time.Hour,
		Run: func() {
			w := env.NewWorld()
			d := env.NewDirect(w, env.DirectOpts{Pipe: env.PipeOpts{Cap: 64}})
			vsched.Settle()
			idle := c14State(d)
			r := w.Rec("s", "Bidi")
			w.Handlers["s"] = env.HEcho
			other := w.Rec("other", "Unary")
			otherGate := make(chan struct{})
			w.Unaries["other"] = func(r *env.Rec, ctx context.Context, in string) (string, error) {
				<-otherGate
				return "R:" + in, nil
			}
			ctx, cancel := context.WithCancel(context.Background())
			defer cancel()
			cs := w.Open(d.CC, ctx, r)
			if cs == nil || env.CSend(r, cs, "m0") != nil || env.CRecvOne(r, cs) != nil {
				vsched.Fail(fam+"|harness", "stream not established: %s", r.Summary())
				return
			}
			vsched.GoNamed("caller-other", func() { w.CallUnary(d.CC, context.Background(), other, "x") })
			vsched.Settle()
			d.Pipe.A.HoldIf = func(k int, rpc *env.Rpc) bool {
				switch held {
				case "send":
					return rpc.GetBody() != nil && bytes.Contains(rpc.GetBody().GetData(), []byte("m1"))
				case "closesend":
					return rpc.GetTrailer() != nil && rpc.GetBody() == nil && rpc.GetReset_() == nil && rpc.GetId() != 0 && rpc.GetHeader().GetMethod() == env.MBidi
				case "reset":
					return rpc.GetReset_() != nil
				}
				return false
			}
			vsched.Explore(true)
			opDone, opErr := false, error(nil)
			switch held {
			case "send":
				vsched.GoNamed("op", func() { opErr = cs.SendMsg(env.S("m1")); opDone = true })
			case "closesend":
				vsched.GoNamed("op", func() { opErr = cs.CloseSend(); opDone = true })
			case "reset":
				cancel() // the stream's teardown writes the reset: that write is the one held
				opDone = true
			}
			vsched.Quiesce()
			if d.Pipe.A.Holding != 1 {
				vsched.Fail(fam+"|harness", "the %s write is not held (holding %d)", held, d.Pipe.A.Holding)
				return
			}
			cancelled := held == "reset"
			readFailed := false
			switch second {
			case "cancel":
				cancel()
				cancelled = true
			case "readfail":
				d.Pipe.A.FailReads()
				readFailed = true
			case "cancel+readfail":
				cancel()
				cancelled = true
				vsched.Quiesce()
				d.Pipe.A.FailReads()
				readFailed = true
			}
			vsched.Quiesce()
			d.Pipe.A.ReleaseHeld(fails)
			d.Pipe.A.HoldIf = nil
			vsched.Quiesce()
			// operations after the events
			recvDone, sendDone := false, false
			var recvErr, sendErr error
			vsched.GoNamed("later-recv", func() { recvErr = cs.RecvMsg(new(env.Msg)); recvDone = true })
			vsched.Quiesce()
			vsched.GoNamed("later-send", func() { sendErr = cs.SendMsg(env.S("m2")); sendDone = true })
			vsched.Quiesce()
			close(otherGate)
			probe := w.Rec("probe", "Unary")
			vsched.GoNamed("caller-probe", func() {
				pctx, pc := context.WithTimeout(context.Background(), time.Second)
				defer pc()
				w.CallUnary(d.CC, pctx, probe, "x")
			})
			vsched.QuiesceTime()
			vsched.Obs("held=%s then=%s fails=%v: op done=%v err=%s | recv done=%v err=%s | send done=%v err=%s | other done=%v err=%s | probe done=%v err=%s | handler ctx done=%v",
				held, second, fails, opDone, env.ErrStr(opErr), recvDone, env.ErrStr(recvErr), sendDone, env.ErrStr(sendErr), other.CDone, env.ErrStr(other.CErr), probe.CDone, env.ErrStr(probe.CErr), r.HCtx != nil && r.HCtx.Err() != nil)
			what := fmt.Sprintf("a %s write was held in the transport, then %s, then the write %s", held, second, map[bool]string{true: "failed", false: "went through"}[fails])
			if !opDone {
				vsched.Fail(fam+"|op-hang", "%s: the operation never returned; threads: %s", what, threadList())
			} else if fails && held != "reset" && opErr == nil {
				vsched.Fail(fam+"|op-result", "%s: the operation reported success", what)
			}
			if cancelled || readFailed {
				if !recvDone {
					vsched.Fail(fam+"|later-op-hang", "%s: a RecvMsg issued afterwards is blocked forever; threads: %s", what, threadList())
				} else if recvErr == nil {
					vsched.Fail(fam+"|later-op-result", "%s: a RecvMsg issued afterwards succeeded", what)
				}
				if !sendDone {
					vsched.Fail(fam+"|later-op-hang", "%s: a SendMsg issued afterwards is blocked forever; threads: %s", what, threadList())
				} else if sendErr == nil {
					vsched.Fail(fam+"|later-op-result", "%s: a SendMsg issued afterwards succeeded", what)
				}
			}
			if !other.CDone {
				vsched.Fail(fam+"|rpc-hang", "%s: another call that was in flight on the connection never returned", what)
			} else if !readFailed && (other.CErr != nil || other.CReply != "R:other|x") {
				vsched.Fail(fam+"|rpc-wrong", "%s: another call in flight returned err=%v reply=%q", what, other.CErr, other.CReply)
			}
			if !probe.CDone {
				vsched.Fail(fam+"|rpc-hang", "%s: a call with a 1 s deadline started afterwards never returned", what)
			} else if !readFailed && probe.CErr != nil {
				vsched.Fail(fam+"|rpc-wrong", "%s: a call started afterwards failed: %v", what, probe.CErr)
			} else if readFailed && probe.CErr == nil {
				vsched.Fail(fam+"|rpc-wrong", "%s: a call started after the read side failed succeeded", what)
			}
			resetWritten := false
			for _, e := range d.Tap.Events {
				if e.Dir == "a2b" && e.Rpc.GetReset_() != nil {
					resetWritten = true
				}
			}
			if cancelled && !(held == "reset" && fails) && !(fails && held != "reset" && false) {
				// the caller went away and the write side works: the server must learn it
				if !resetWritten && !fails {
					vsched.Fail(fam+"|no-reset", "%s: no reset for the cancelled stream reached the wire although the write side works", what)
				}
				if resetWritten && (r.HCtx == nil || r.HCtx.Err() == nil) {
					vsched.Fail(fam+"|handler-ctx-live", "%s: the reset is on the wire but the handler's context is still live", what)
				}
			}
			if !readFailed && cancelled && resetWritten {
				if st := c14State(d); st != idle {
					vsched.Fail(fam+"|not-idle:"+diffKey(idle, st), "%s: the connection did not return to its idle state:\n%s", what, diffStates(idle, st))
				}
			}
			if !readFailed && cancelled && !resetWritten {
				// the reset could not be written: the client side at least must be released
				st := c14State(d)
				if k := diffKey(idle, st); k == "registration" {
					vsched.Fail(fam+"|not-idle:registration", "%s: the cancelled stream's registration stays in the connection:\n%s", what, diffStates(idle, st))
				}
			}
			finishDirect(d, w, false) // (wire protocol)
		},
	}
}

func opInWriteAll(prop string, bound int) []*explore.Scenario {
	var out []*explore.Scenario
	for _, held := range []string{"send", "closesend", "reset"} {
		for _, second := range []string{"cancel", "readfail", "cancel+readfail", "none"} {
			if held == "reset" && (second == "cancel" || second == "cancel+readfail") {
				continue // the cancellation is what makes the reset
			}
			for _, fails := range []bool{true, false} {
				if second == "none" && !fails && held != "reset" {
					continue // nothing happened at all
				}
				out = append(out, opInWrite(prop, held, second, fails, bound))
			}
		}
	}
	return out
}

// handCtx is a context.Context implementation that is not package context's: a caller may pass
// any implementation of the interface. Its cancellation reaches contexts derived from it through
// a separate goroutine, so "who notices first" is open.
type handCtx struct {
	done chan struct{}
	err  error
	vals map[any]any
	dl   time.Time
}

func newHandCtx() *handCtx                     { return &handCtx{done: make(chan struct{}), vals: map[any]any{}} }
func (c *handCtx) Deadline() (time.Time, bool) { return c.dl, !c.dl.IsZero() }
func (c *handCtx) Done() <-chan struct{}       { return c.done }
func (c *handCtx) Err() error                  { return c.err }
func (c *handCtx) Value(k any) any             { return c.vals[k] }
func (c *handCtx) cancel()                     { c.err = context.Canceled; close(c.done) }

// foreignContextCancel: a stream (or unary call) made under a hand-written context; that
// context ends. The usual clauses of a cancellation apply: operations fail, a reset reaches the
// wire, the handler's context is done, the connection is idle again.
func foreignContextCancel(prop, kind string, bound int) *explore.Scenario {
	fam := prop + "/foreign-context"
	return &explore.Scenario{
		Name: fmt.Sprintf("%s/foreign-context/%s", prop, kind), Family: fam, Prop: prop, Bound: bound, Horizon: time.Hour,
		Run: func() {
			w := env.NewWorld()
			d := env.NewDirect(w, env.DirectOpts{Pipe: env.PipeOpts{Cap: 64}})
			vsched.Settle()
			idle := c14State(d)
			hc := newHandCtx()
			r := w.Rec("s", kind)
			if kind == "Unary" {
				w.Unaries["s"] = func(r *env.Rec, ctx context.Context, in string) (string, error) {
					<-ctx.Done()
					return "late", nil
				}
				vsched.Explore(true)
				vsched.GoNamed("caller", func() { w.CallUnary(d.CC, hc, r, "x") })
				vsched.Quiesce()
				hc.cancel()
				vsched.Quiesce()
				if !r.CDone || r.CErr == nil {
					vsched.Fail(fam+"|caller-hang", "a unary call under a hand-written context that was cancelled: done=%v err=%v", r.CDone, r.CErr)
				}
				return
			}
			w.Handlers["s"] = env.HEcho
			cs := w.Open(d.CC, hc, r)
			if cs == nil || env.CSend(r, cs, "m0") != nil || env.CRecvOne(r, cs) != nil {
				vsched.Fail(fam+"|harness", "stream not established: %s", r.Summary())
				return
			}
			vsched.Explore(true)
			recvDone := false
			var recvErr error
			vsched.GoNamed("receiver", func() { recvErr = cs.RecvMsg(new(env.Msg)); recvDone = true })
			vsched.Quiesce()
			hc.cancel()
			vsched.Quiesce()
			sendErr := cs.SendMsg(env.S("m1"))
			vsched.Quiesce()
			reset := false
			for _, e := range d.Tap.Events {
				if e.Dir == "a2b" && e.Rpc.GetReset_() != nil {
					reset = true
				}
			}
			vsched.Obs("%s: recv done=%v err=%s send err=%s reset=%v handler ctx done=%v", kind, recvDone, env.ErrStr(recvErr), env.ErrStr(sendErr), reset, r.HCtx != nil && r.HCtx.Err() != nil)
			if !recvDone || recvErr == nil {
				vsched.Fail(fam+"|caller-hang", "the caller's hand-written context was cancelled: a blocked RecvMsg: done=%v err=%v", recvDone, recvErr)
			}
			if sendErr == nil {
				vsched.Fail(fam+"|later-op-result", "a SendMsg after the caller's context was cancelled succeeded")
			}
			if !reset {
				vsched.Fail(fam+"|no-reset", "the caller's (hand-written) context was cancelled: no reset for the stream reached the wire")
			}
			if r.HCtx == nil || r.HCtx.Err() == nil {
				vsched.Fail(fam+"|handler-ctx-live", "the caller's (hand-written) context was cancelled: the handler's context is still live")
			}
			if st := c14State(d); st != idle {
				vsched.Fail(fam+"|not-idle:"+diffKey(idle, st), "after a stream under a hand-written context was cancelled the connection did not return to its idle state:\n%s", diffStates(idle, st))
			}
			finishDirect(d, w, false) // (wire protocol)
		},
	}
}
