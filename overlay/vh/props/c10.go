package props

import (
	"context"
	"fmt"
	"github.com/avos-io/goat/gen/goatorepo"
	"io"
	"strings"
	"time"

	"google.golang.org/grpc"
	"google.golang.org/grpc/codes"
	"google.golang.org/grpc/status"

	"github.com/avos-io/goat/vh/env"
	"github.com/avos-io/goat/vrt/explore"
	"github.com/avos-io/goat/vrt/vctx"
	"github.com/avos-io/goat/vrt/vsched"
)

func init() { register("C10", c10) }

// c10Set describes the handlers in flight when the connection ends: each
// letter is one RPC, in request order.
//
//	o  unary that answers at once            U  unary blocked on its context
//	R  stream blocked in RecvMsg             S  stream blocked in SendMsg (peer does not read)
//	X  stream blocked on its context         e  stream that echoes one message and ends
//	Z  stream that the peer resets; its handler notices the cancellation and then winds down slowly
//	H  stream blocked on its context whose peer sends a message and half-closes: the message fills the stream's
//	   inbox, the half-close parks the connection's read loop      F  the same with a second message instead of
//	   the half-close      h  like H with the handler blocked in SendMsg      (H, F, h come last in a set:
//	   nothing after them is read)
type c10End struct {
	kind string // "read" | "write" | "stop"
	at   int
	errv string // write ends: the error value the refused Write reports ("" = the harness's own)
}

// what real transports report for a refused Write: a context error of their own (not the connection's), wrapped or bare
var c10WriteErrs = map[string]error{
	"wrapped-canceled": fmt.Errorf("write tcp: use of closed connection: %w", context.Canceled),
	"canceled":         context.Canceled,
	"wrapped-deadline": fmt.Errorf("write: i/o timeout: %w", context.DeadlineExceeded),
	"eof":              io.EOF,
}

func c10(tier string) []*explore.Scenario {
	var out []*explore.Scenario
	sets := []string{"", "o", "U", "R", "X", "S", "oU", "UR", "RX", "oS", "URX", "UU", "RR", "Z", "ZR", "oZ", "T", "D", "TD", "UT", "DX", "B", "UB", "RB", "oB", "BB", "XBo", "M", "XM", "MR", "UMo", "MM"}
	// more blocked unary handlers than the pool has workers (8): the 9th/10th request waits in the read loop
	sets = append(sets, "UUUUUUUUU", "UUUUUUUUUU", "UUUUUUUUUo", "UUUUUUUUUR")
	// the statement's full range (8 unary and 8 streaming handlers in flight), default schedule
	sets = append(sets, "UUUUUUUU", "RRRRRRRR", "XXXXSSSS", "UUUUUUUURRRRRRRR", "RRRRRRRRUUUUUUUU", "URXSURXSURXSURXS", "TTTTDDDD")
	// the read loop parked delivering to a stream whose handler does not receive
	sets = append(sets, "H", "F", "h", "oH", "UH", "RF", "oh", "XH", "UUUUUUUUH")
	if tier == "thorough" {
		sets = append(sets, "UURR", "oURXS", "oUH", "RXh")
	}
	for _, set := range sets {
		nreq := 0
		for _, c := range set {
			nreq += c10Reqs(c)
		}
		bound := 1
		if len(set) > 3 {
			bound = 0
		}
		if tier == "thorough" && len(set) <= 2 {
			bound = 2
		}
		if strings.Count(set, "U")+strings.Count(set, "o")+strings.Count(set, "T") >= 9 {
			// above the pool's size the read loop is parked handing the 9th request to a
			// worker: it does not read (so no read can fail) and nothing is written; the
			// one end that can happen there is Stop, once the 9 requests are in
			out = append(out, c10One(set, c10End{"stop", 9, ""}, bound))
			continue
		}
		parks := strings.ContainsAny(set, "HFh") // the read after the last request is never issued
		for k := 0; k <= nreq; k++ {
			if !(parks && k == nreq) {
				out = append(out, c10One(set, c10End{"read", k, ""}, bound))
			}
			out = append(out, c10One(set, c10End{"stop", k, ""}, bound))
		}
		nresp := strings.Count(set, "o") + 2*strings.Count(set, "S") + 2*strings.Count(set, "e") + strings.Count(set, "B") + strings.Count(set, "M") + 2*strings.Count(set, "h")
		for k := 0; k < nresp; k++ {
			out = append(out, c10One(set, c10End{"write", k, ""}, bound))
		}
	}
	// the refused write reports a context error of the transport's own (the connection's context is alive), io.EOF, ...
	for _, ev := range []string{"wrapped-canceled", "canceled", "wrapped-deadline", "eof"} {
		for _, set := range []string{"o", "oX", "UoR", "XSo"} {
			out = append(out, c10One(set, c10End{"write", 0, ev}, 1))
		}
		out = append(out, c10One("oo", c10End{"write", 1, ev}, 1), c10One("S", c10End{"write", 0, ev}, 1))
	}
	for _, end := range []string{"stop", "read-fails-on-first", "stop-then-serve"} {
		out = append(out, c10TwoConns(end, 1))
	}
	for _, end := range []string{"stop", "read", "write", "none"} {
		out = append(out, expiredStream("C10", end, 1))
	}
	// a peer that opens an id again while an earlier handler for it has not returned
	for _, how := range []string{"reset", "deadline"} {
		for _, end := range []string{"stop", "read"} {
			out = append(out, c10IdReopened(how, end, 1))
		}
	}
	// the connection ends while resets the server issued are still waiting for its writer
	for _, end := range []string{"stop", "write-fails", "read-fails"} {
		out = append(out, c12ResetsUnread("C10", end, 2))
	}
	// finer granularity (a scheduling point after every Unlock as well) on the small core scenarios
	out = append(out, fineGrained(c10One("UR", c10End{"stop", 1, ""}, 1), c10One("oS", c10End{"read", 1, ""}, 1))...)
	return out
}

// c10TwoConns: one Server object serves two connections, each with a unary and
// a streaming handler blocked on its context. Stop ends both Serve calls; a
// read failure on the first connection ends only that one and leaves the second
// serving; a Serve started after Stop returns at once instead of serving.
func c10TwoConns(end string, bound int) *explore.Scenario {
	fam := "C10/" + strings.SplitN(end, "-", 2)[0]
	return &explore.Scenario{
		Name: "C10/two-connections/" + end, Family: fam, Prop: "C10", Bound: bound,
		Run: func() {
			w := env.NewWorld()
			d := env.NewDirect(w, env.DirectOpts{Pipe: env.PipeOpts{Cap: 16}, NoClient: true})
			p2 := env.NewPipe(d.Tap, env.PipeOpts{Name: "w2", Cap: 16})
			serve2Done := false
			var serve2Err error
			vsched.GoNamed("serve2", func() { serve2Err = d.Srv.Serve(context.Background(), p2.B); serve2Done = true })
			release := make(chan struct{})
			var recs []*env.Rec
			for ci, pipe := range []*env.Pipe{d.Pipe, p2} {
				ut, st := fmt.Sprintf("u%d", ci), fmt.Sprintf("s%d", ci)
				recs = append(recs, w.Rec(ut, "Unary"), w.Rec(st, "Bidi"))
				w.Unaries[ut] = func(r *env.Rec, ctx context.Context, in string) (string, error) {
					select {
					case <-ctx.Done():
					case <-release:
					}
					return "late", nil
				}
				w.Handlers[st] = func(r *env.Rec, ss grpc.ServerStream) error {
					select {
					case <-ss.Context().Done():
					case <-release:
					}
					return status.Error(codes.Aborted, "released")
				}
				pipe.A.Inject(env.ReqUnary(1, ut, "x"))
				pipe.A.Inject(env.ReqOpen(2, env.MBidi, st))
			}
			vsched.Settle()
			vsched.Explore(true)
			switch end {
			case "stop", "stop-then-serve":
				d.Srv.Stop()
			case "read-fails-on-first":
				d.Pipe.A.Break()
				d.Pipe.B.Break()
			}
			vsched.Quiesce()
			ctxDone := func(r *env.Rec) bool { return r.HCtx != nil && vctx.IsDone(r.HCtx) }
			if !d.ServeDone {
				vsched.Fail(fam+"|serve-hang", "two connections on one Server, %s: Serve of the first connection did not return; threads: %s", end, threadList())
			}
			for _, r := range recs[:2] {
				if r.HStarts == 1 && !ctxDone(r) && !r.HReturned {
					vsched.Fail(fam+"|ctx-not-cancelled", "two connections, %s: handler %s of the ended connection still has a live context", end, r.Tag)
				}
			}
			if end == "read-fails-on-first" {
				if serve2Done {
					vsched.Fail(fam+"|other-connection-ended", "the first connection's read failed and the second connection's Serve returned too (%v)", serve2Err)
				}
				for _, r := range recs[2:] {
					if ctxDone(r) || r.HReturned {
						vsched.Fail(fam+"|other-connection-ended", "the first connection's read failed and handler %s of the second connection was cancelled", r.Tag)
					}
				}
				pr := w.Rec("probe", "Unary")
				p2.A.Inject(env.ReqUnary(9, "probe", "x"))
				vsched.Quiesce()
				if pr.HStarts != 1 {
					vsched.Fail(fam+"|other-connection-ended", "after the first connection ended the second no longer serves requests")
				}
			} else {
				if !serve2Done {
					vsched.Fail(fam+"|serve-hang", "Stop: Serve of the second connection did not return; threads: %s", threadList())
				}
				for _, r := range recs[2:] {
					if r.HStarts == 1 && !ctxDone(r) && !r.HReturned {
						vsched.Fail(fam+"|ctx-not-cancelled", "Stop: handler %s of the second connection still has a live context", r.Tag)
					}
				}
			}
			if end == "stop-then-serve" {
				p3 := env.NewPipe(d.Tap, env.PipeOpts{Name: "w3", Cap: 16})
				s3 := false
				vsched.GoNamed("serve3", func() { d.Srv.Serve(context.Background(), p3.B); s3 = true })
				lr := w.Rec("late", "Unary")
				p3.A.Inject(env.ReqUnary(1, "late", "x"))
				vsched.Quiesce()
				if !s3 {
					vsched.Fail(fam+"|serve-hang", "a Serve started after Stop keeps running (handler ran %d times); threads: %s", lr.HStarts, threadList())
				}
				p3.A.Break()
				p3.B.Break()
			}
			close(release)
			d.Pipe.A.Break()
			d.Pipe.B.Break()
			p2.A.Break()
			p2.B.Break()
			vsched.Quiesce()
			if !d.ServeDone || !serve2Done {
				vsched.Fail(fam+"|serve-hang", "after everything was released and closed: serve1 done=%v serve2 done=%v", d.ServeDone, serve2Done)
			}
			if ts := vsched.Threads(); len(ts) > 0 {
				vsched.Fail(fam+"|goroutine-leak", "two connections, %s: after both connections ended and all handlers were released, goroutines remain: %s", end, threadList())
			}
		},
	}
}

func c10Reqs(c rune) int {
	switch c {
	case 'o', 'U', 'T':
		return 1
	case 'R', 'X', 'S', 'D', 'B', 'M':
		return 1
	case 'Z':
		return 2
	case 'e', 'H', 'F', 'h':
		return 3
	}
	return 0
}

func c10One(set string, end c10End, bound int) *explore.Scenario {
	fam := "C10/" + end.kind
	return &explore.Scenario{
		Name:   fmt.Sprintf("C10/set=%q/%s@%d%s", set, end.kind, end.at, map[bool]string{true: "/err=" + end.errv}[end.errv != ""]),
		Family: fam, Prop: "C10", Bound: bound,
		Run: func() {
			w := env.NewWorld()
			release := make(chan struct{})
			d := env.NewDirect(w, env.DirectOpts{Pipe: env.PipeOpts{Cap: 0}, NoClient: true})
			switch end.kind {
			case "read":
				d.Pipe.B.ReadFailAfter = end.at
			case "write":
				d.Pipe.B.WriteFailAt = end.at
				d.Pipe.B.WriteFailErr = c10WriteErrs[end.errv]
			}
			// build the request script
			var script []*env.Rpc
			var recs []*env.Rec
			for i, c := range set {
				id := uint64(i + 1)
				tag := fmt.Sprintf("h%d", i)
				switch c {
				case 'o':
					r := w.Rec(tag, "Unary")
					recs = append(recs, r)
					script = append(script, env.ReqUnary(id, tag, "x"))
				case 'U':
					r := w.Rec(tag, "Unary")
					recs = append(recs, r)
					w.Unaries[tag] = func(r *env.Rec, ctx context.Context, in string) (string, error) {
						select {
						case <-ctx.Done():
						case <-release:
						}
						return "late", nil
					}
					script = append(script, env.ReqUnary(id, tag, "x"))
				case 'T':
					// a unary call that carries a deadline (and metadata): blocked on its context like U
					r := w.Rec(tag, "Unary")
					recs = append(recs, r)
					w.Unaries[tag] = func(r *env.Rec, ctx context.Context, in string) (string, error) {
						select {
						case <-ctx.Done():
						case <-release:
						}
						return "late", nil
					}
					req := env.ReqUnary(id, tag, "x")
					req.Header.Headers = append(req.Header.Headers, kv("GRPC-Timeout", "1H"), kv("x-k", "v"))
					script = append(script, req)
				case 'M':
					// a stream open whose -bin metadata is not valid (unpadded) base64: answered by a reset, no handler
					open := env.ReqOpen(id, env.MBidi, tag)
					open.Header.Headers = append(open.Header.Headers, kv("trace-bin", []string{"YQ", "+/8=", "!!"}[i%3]))
					script = append(script, open)
				case 'B':
					// a message for a stream the server does not know: the server's answer is a reset (no handler)
					script = append(script, env.ReqBody(id, env.MBidi, "x"))
				case 'Z':
					r := w.Rec(tag, "Bidi")
					recs = append(recs, r)
					w.Handlers[tag] = func(r *env.Rec, ss grpc.ServerStream) error {
						<-ss.Context().Done()
						<-release // still busy cleaning up when the connection ends
						return status.Error(codes.Canceled, "reset")
					}
					script = append(script, env.ReqOpen(id, env.MBidi, tag), env.ReqReset(id, env.MBidi))
				case 'R', 'X', 'S', 'D', 'H', 'F', 'h':
					r := w.Rec(tag, "Bidi")
					recs = append(recs, r)
					mode := c
					if c == 'h' {
						mode = 'S'
					}
					w.Handlers[tag] = func(r *env.Rec, ss grpc.ServerStream) error {
						switch mode {
						case 'R':
							m := new(env.Msg)
							err := ss.RecvMsg(m)
							r.HRecvErr = err
						case 'S':
							for j := 0; j < 2; j++ {
								if err := ss.SendMsg(env.S("s")); err != nil {
									r.HSendErr = err
									break
								}
							}
						}
						select {
						case <-ss.Context().Done():
						case <-release:
						}
						return status.Error(codes.Aborted, "handler released")
					}
					open := env.ReqOpen(id, env.MBidi, tag)
					if c == 'D' { // a stream that carries a deadline (and metadata): blocked on its context like X
						open.Header.Headers = append(open.Header.Headers, kv("grpc-timeout", "1H"), kv("x-k", "v"))
					}
					script = append(script, open)
					switch c {
					case 'H', 'h':
						script = append(script, env.ReqBody(id, env.MBidi, tag+".m0"), env.ReqTrailer(id, env.MBidi))
					case 'F':
						script = append(script, env.ReqBody(id, env.MBidi, tag+".m0"), env.ReqBody(id, env.MBidi, tag+".m1"))
					}
				}
			}
			vsched.Settle()
			vsched.Explore(true)
			// the scripted peer: sends the requests; reads responses only for 'o'
			peerDone := false
			vsched.GoNamed("peer", func() {
				for i, rpc := range script {
					if end.kind == "stop" && i == end.at {
						d.Srv.Stop()
					}
					if err := d.Pipe.A.Inject(rpc); err != nil {
						break
					}
				}
				if end.kind == "stop" && end.at >= len(script) {
					d.Srv.Stop()
				}
				peerDone = true
			})
			// a reader for the peer side: takes responses of immediate unary calls only,
			// so that 'S' handlers really block in SendMsg
			nread := strings.Count(set, "o") + strings.Count(set, "B") + strings.Count(set, "M")
			vsched.GoNamed("peer-reader", func() {
				for i := 0; i < nread; i++ {
					if _, err := d.Pipe.A.Read(context.Background()); err != nil {
						return
					}
				}
			})
			vsched.Quiesce()
			// the connection must have ended unless the planned fault position was never reached
			ended := d.Pipe.B.ReadFailed || end.kind == "stop" || (end.kind == "write" && d.Pipe.B.NWritten >= end.at && d.ServeDone)
			if end.kind == "write" && !d.ServeDone {
				if d.Pipe.B.WriteFaulted && !strings.Contains(set, "Z") { // (a Z handler is only released below: Serve waits for it)
					vsched.Fail(fam+"|serve-hang", "the transport refused a write of the server (response %d, in flight %q) but Serve did not return; live threads: %s", end.at, set, threadList())
				}
				// else: the write fault position was not reached (handlers blocked before): end by transport break
				ended = false
			}
			_ = peerDone
			if !ended {
				// fault position not reached in this execution: end the connection by failing the transport now
				d.Pipe.B.Break()
				d.Pipe.A.Break()
				vsched.Quiesce()
			}
			slow := strings.Contains(set, "Z") // a handler that is only released below
			vsched.Obs("serveDone=%v err=%v", d.ServeDone, d.ServeErr)
			if !d.ServeDone && !slow {
				vsched.Fail(fam+"|serve-hang", "Serve did not return after the connection ended (%s@%d, in flight %q); live threads: %s", end.kind, end.at, set, threadList())
			}
			for _, r := range recs {
				if r.HStarts == 0 {
					continue
				}
				ctxDone := r.HCtx != nil && vctx.IsDone(r.HCtx)
				vsched.Obs("%s[%s] started=%d returned=%v ctxDone=%v", r.Tag, r.Kind, r.HStarts, r.HReturned, ctxDone)
				if d.ServeDone && r.Kind != "Unary" && !r.HReturned {
					vsched.Fail(fam+"|stream-handler-running", "Serve returned while stream handler %s was still running", r.Tag)
				}
				if d.ServeDone && !ctxDone && !r.HReturned {
					vsched.Fail(fam+"|ctx-not-cancelled", "Serve returned but the context of in-flight %s handler %s is still live", r.Kind, r.Tag)
				}
			}
			// release handlers that are still blocked, then nothing of the connection may remain
			close(release)
			d.Pipe.A.Break()
			vsched.Quiesce()
			if !d.ServeDone {
				vsched.Fail(fam+"|serve-hang", "Serve did not return after the connection ended and all handlers were released (%s@%d, in flight %q); live threads: %s", end.kind, end.at, set, threadList())
			}
			if ts := vsched.Threads(); len(ts) > 0 {
				vsched.Fail(fam+"|goroutine-leak", "after Serve returned and all handlers were released, goroutines of the connection remain: %s", threadList())
			}
		},
	}
}

func threadList() string {
	var parts []string
	for _, t := range vsched.Threads() {
		parts = append(parts, fmt.Sprintf("%s(%s %s@%s spawned@%s)", t.ID, t.Name, t.Op, t.Site, t.SpawnSite))
	}
	return strings.Join(parts, "; ")
}

// expiredStream: a raw peer opens a bidi stream with a 50 ms grpc-timeout; the
// handler ignores its context and only returns when released. The deadline
// passes; the peer sends two more messages for the stream (they find it
// registered with a done context); then the connection ends (Stop / read
// failure / write failure / not at all) and the handler is released. Serve
// returns, nothing is left behind, and on the wire nothing follows a reset the
// server issued for that id (C06).
func expiredStream(prop, end string, bound int) *explore.Scenario {
	fam := prop + "/expired-stream"
	return &explore.Scenario{
		Name: prop + "/expired-stream/end=" + end, Family: fam, Prop: prop, Bound: bound, Horizon: time.Hour,
		Run: func() {
			w := env.NewWorld()
			d := env.NewDirect(w, env.DirectOpts{Pipe: env.PipeOpts{Cap: 16}, NoClient: true})
			vsched.GoNamed("peer-reader", func() {
				for {
					if _, err := d.Pipe.A.Read(context.Background()); err != nil {
						return
					}
				}
			})
			r := w.Rec("s", "Bidi")
			release := make(chan struct{})
			w.Handlers["s"] = func(r *env.Rec, ss grpc.ServerStream) error {
				<-release
				return status.FromContextError(ss.Context().Err()).Err()
			}
			open := env.ReqOpen(1, env.MBidi, "s")
			open.Header.Headers = append(open.Header.Headers, &goatorepo.KeyValue{Key: "grpc-timeout", Value: "50m"})
			d.Pipe.A.Inject(open)
			vsched.Settle()
			vsched.Explore(true)
			vsched.QuiesceTime() // the stream's deadline passes; its handler is still running
			if r.HCtx == nil || r.HCtx.Err() == nil {
				vsched.Fail(fam+"|harness", "the handler's deadline did not pass")
			}
			d.Pipe.A.Inject(env.ReqBody(1, env.MBidi, "late1"))
			d.Pipe.A.Inject(env.ReqBody(1, env.MBidi, "late2"))
			vsched.Quiesce()
			switch end {
			case "stop":
				d.Srv.Stop()
			case "read":
				d.Pipe.A.Break()
				d.Pipe.B.Break()
			case "write":
				d.Pipe.B.WriteFailAt = d.Pipe.B.NWritten
				pr := w.Rec("p", "Unary")
				_ = pr
				d.Pipe.A.Inject(env.ReqUnary(5, "p", "x")) // its reply hits the write fault
			}
			vsched.Quiesce()
			close(release)
			vsched.Quiesce()
			if end != "none" && !d.ServeDone {
				vsched.Fail(fam+"|serve-hang", "a stream past its own deadline whose handler returned after the connection ended (%s): Serve did not return; threads: %s", end, threadList())
			}
			if !r.HReturned {
				vsched.Fail(fam+"|handler-hang", "handler never returned")
			}
			// wire: nothing for id 1 after a reset the server issued for it
			reset := false
			for _, e := range d.Tap.Events {
				if e.Dir != "b2a" || e.Rpc.GetId() != 1 {
					continue
				}
				if reset {
					vsched.Fail("C06/wire|server-after-reset", "the server reset stream 1 (a message arrived after the stream's deadline) and later wrote another envelope for it (trailer=%v)", e.Rpc.Trailer != nil)
				}
				if e.Rpc.Reset_ != nil {
					reset = true
				}
			}
			if end == "none" {
				d.Pipe.A.Break()
				d.Pipe.B.Break()
				vsched.Quiesce()
				if !d.ServeDone {
					vsched.Fail(fam+"|serve-hang", "Serve did not return when the transport closed; threads: %s", threadList())
				}
			}
			d.Pipe.A.Break()
			d.Pipe.B.Break()
			vsched.Quiesce()
			if ts := vsched.Threads(); len(ts) > 0 {
				vsched.Fail(fam+"|goroutine-leak", "after the connection ended and the handler returned: %s", threadList())
			}
		},
	}
}

// c10IdReopened: a peer that uses an id again. Stream 7 is open with a handler that ignores its
// context until released; the peer resets 7 (or 7's grpc-timeout passes), opens 7 again (a
// second handler, waiting on its context), the first handler is released, the peer opens 7 a
// third time; then the connection ends. However the server treats the repeated opens, when
// Serve has returned and the handlers were released every handler that ever started has
// returned, its context is done, and no goroutine of the connection remains.
func c10IdReopened(how, end string, bound int) *explore.Scenario {
	fam := "C10/id-reopened"
	return &explore.Scenario{
		Name: fmt.Sprintf("C10/id-reopened/%s/end=%s", how, end), Family: fam, Prop: "C10", Bound: bound, Horizon: time.Hour,
		Run: func() {
			w := env.NewWorld()
			d := env.NewDirect(w, env.DirectOpts{Pipe: env.PipeOpts{Cap: 16}, NoClient: true})
			vsched.GoNamed("peer-reader", func() {
				for {
					if _, err := d.Pipe.A.Read(context.Background()); err != nil {
						return
					}
				}
			})
			type hrun struct {
				ctx      context.Context
				returned bool
			}
			var runs []*hrun
			release1, releaseAll := make(chan struct{}), make(chan struct{})
			w.Rec("s", "Bidi")
			w.Handlers["s"] = func(r *env.Rec, ss grpc.ServerStream) error {
				h := &hrun{ctx: ss.Context()}
				first := len(runs) == 0
				runs = append(runs, h)
				if first {
					<-release1 // ignores its context
				} else {
					select {
					case <-ss.Context().Done():
					case <-releaseAll:
					}
				}
				h.returned = true
				return nil
			}
			open := func() *env.Rpc { return env.ReqOpen(7, env.MBidi, "s") }
			o1 := open()
			if how == "deadline" {
				o1.Header.Headers = append(o1.Header.Headers, &goatorepo.KeyValue{Key: "grpc-timeout", Value: "50m"})
			}
			d.Pipe.A.Inject(o1)
			vsched.Settle()
			vsched.Explore(true)
			if how == "reset" {
				d.Pipe.A.Inject(env.ReqReset(7, env.MBidi))
				vsched.Quiesce()
			} else {
				vsched.QuiesceTime()
			}
			d.Pipe.A.Inject(open())
			vsched.Quiesce()
			close(release1)
			vsched.Quiesce()
			d.Pipe.A.Inject(open())
			vsched.Quiesce()
			switch end {
			case "stop":
				d.Srv.Stop()
			case "read":
				d.Pipe.A.Break()
				d.Pipe.B.Break()
			}
			vsched.Quiesce()
			served := d.ServeDone
			live := 0
			for _, h := range runs {
				if !h.returned && h.ctx.Err() == nil {
					live++
				}
			}
			vsched.Obs("%s/%s: handler runs=%d serveDone=%v still running with a live context=%d", how, end, len(runs), served, live)
			if !served {
				vsched.Fail(fam+"|serve-hang", "id 7 opened three times (%s in between), then the connection ended (%s): Serve did not return; threads: %s", how, end, threadList())
			}
			if served && live > 0 {
				vsched.Fail(fam+"|ctx-not-cancelled", "id 7 opened three times (%s in between), then the connection ended (%s): Serve returned while %d of the %d handlers that had started still run with a live context", how, end, live, len(runs))
			}
			close(releaseAll)
			d.Pipe.A.Break()
			d.Pipe.B.Break()
			vsched.Quiesce()
			for i, h := range runs {
				if !h.returned {
					vsched.Fail(fam+"|handler-hang", "handler run %d of id 7 never returned", i+1)
				}
			}
			if ts := vsched.Threads(); len(ts) > 0 {
				vsched.Fail(fam+"|goroutine-leak", "after the connection ended and every handler was released: %s", threadList())
			}
		},
	}
}
