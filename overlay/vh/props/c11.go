package props

import (
	"bytes"
	"context"
	"fmt"
	goat "github.com/avos-io/goat"
	"google.golang.org/protobuf/types/known/wrapperspb"
	"io"
	"time"

	"google.golang.org/grpc"
	"google.golang.org/grpc/codes"
	"google.golang.org/grpc/status"

	"github.com/avos-io/goat/vh/env"
	"github.com/avos-io/goat/vrt/explore"
	"github.com/avos-io/goat/vrt/vsched"
)

func init() { register("C11", c11) }

// abandon describes how a stream is abandoned.
type abandon struct {
	mode     string // "handler-returns" | "caller-cancels" | "caller-stops"
	n, k     int    // handler-returns: caller sends n, handler reads k<n then returns; caller-*: handler sends n, caller reads k<=n then cancels/stops
	herr     bool   // handler returns an error instead of nil
	rstFails bool   // caller-cancels: the transport write that follows the cancellation (the reset) fails
	rstSlow  bool   // caller-cancels: the transport takes the reset only once everything else has come to rest
}

func (a abandon) name() string {
	if a.rstSlow {
		return fmt.Sprintf("%s/n=%d/k=%d/reset-write-slow", a.mode, a.n, a.k)
	}
	if a.rstFails {
		return fmt.Sprintf("%s/n=%d/k=%d/reset-write-fails", a.mode, a.n, a.k)
	}
	return fmt.Sprintf("%s/n=%d/k=%d/herr=%v", a.mode, a.n, a.k, a.herr)
}

func c11(tier string) []*explore.Scenario {
	var out []*explore.Scenario
	maxN, bound := 3, 2
	if tier == "thorough" {
		maxN, bound = 4, 2
	}
	for n := 1; n <= maxN; n++ {
		for k := 0; k < n; k++ {
			for _, cp := range []int{0, 64} {
				for _, others := range []int{0, 1} {
					b := bound
					if others > 0 || n > 2 {
						b = bound - 1
					}
					out = append(out, c11One(abandon{"handler-returns", n, k, false, false, false}, cp, others, b))
					if k == 0 {
						out = append(out, c11One(abandon{"handler-returns", n, k, true, false, false}, cp, others, b))
					}
				}
			}
		}
	}
	for n := 0; n <= maxN; n++ {
		for k := 0; k <= n; k++ {
			if n-k > 3 && tier != "thorough" {
				continue
			}
			for _, cp := range []int{0, 64} {
				b := bound
				if n > 2 {
					b = bound - 1
				}
				out = append(out, c11One(abandon{"caller-cancels", n, k, false, false, false}, cp, 0, b))
				if k == 0 || k == n {
					out = append(out, c11One(abandon{"caller-cancels", n, k, false, true, false}, cp, 0, b))
				}
				if n == 2 {
					out = append(out, c11One(abandon{"caller-cancels", n, k, false, false, false}, cp, 1, b-1))
				}
			}
		}
	}
	for _, replies := range []int{1, 2, 3} {
		out = append(out, c11WriteErrAfterDelivery(replies, bound))
	}
	for _, what := range []string{"recv-into-non-message", "send-non-message", "send-unencodable"} {
		out = append(out, c11FailedCallAbandoned(what, bound-1))
	}
	// a caller that simply stops reading (no cancel) with responses queued
	for _, unread := range []int{1, 2, 3, 4} {
		out = append(out, c11One(abandon{"caller-stops", unread, 0, false, false, false}, 64, 0, 0))
	}
	// the statement's full ranges (n<=8 messages, m<=8 unread, 0..4 other RPCs) under the default schedule
	for _, others := range []int{0, 2, 4} {
		for _, cp := range []int{0, 64} {
			for _, k := range []int{0, 4, 7} {
				out = append(out, c11One(abandon{"handler-returns", 8, k, false, false, false}, cp, others, 0))
			}
			for _, k := range []int{0, 3, 8} {
				out = append(out, c11One(abandon{"caller-cancels", 8, k, false, false, false}, cp, others, 0))
			}
		}
	}
	out = append(out, withHistory(historyKinds(tier), c11One(abandon{"handler-returns", 2, 0, false, false, false}, 64, 1, 1), c11One(abandon{"caller-cancels", 3, 1, false, false, false}, 0, 1, 1),
		c11One(abandon{"caller-cancels", 8, 0, false, false, true}, 64, 1, 0))...)
	out = append(out, withConfig(configKinds(tier), c11One(abandon{"handler-returns", 2, 0, false, false, false}, 64, 1, 1), c11One(abandon{"caller-cancels", 3, 1, false, false, false}, 0, 1, 1),
		c11One(abandon{"caller-cancels", 8, 0, false, false, true}, 64, 1, 0))...)
	// the abandoned stream ends by its caller's deadline (carried to the server in the timeout header) with responses unread
	for _, nk := range [][2]int{{2, 0}, {4, 0}, {8, 0}, {8, 3}} {
		for _, cp := range []int{0, 64} {
			b := 0
			if nk[0] <= 2 {
				b = 1
			}
			out = append(out, c11One(abandon{"caller-deadline", nk[0], nk[1], false, false, false}, cp, 1, b))
		}
	}
	// the reset that follows a cancellation is taken by the transport only after the unread
	// responses have all arrived
	for _, nk := range [][2]int{{2, 0}, {3, 1}, {5, 0}, {6, 1}, {8, 0}, {8, 1}, {8, 4}} {
		for _, cp := range []int{0, 64} {
			b := 0
			if nk[0] <= 3 {
				b = 1
			}
			out = append(out, c11One(abandon{"caller-cancels", nk[0], nk[1], false, false, true}, cp, 1, b))
		}
	}
	if tier == "thorough" {
		for _, n := range []int{6, 8} {
			out = append(out, c11One(abandon{"handler-returns", n, 1, false, false, false}, 64, 2, 1))
			out = append(out, c11One(abandon{"caller-cancels", n, 0, false, false, false}, 64, 2, 1))
		}
	}
	out = append(out, c11TwoAbandoned(0, 3, 1), c11TwoAbandoned(1, 3, 1), c11TwoAbandoned(64, 3, 1), c11TwoAbandonedG(0, 3, 1, true), c11TwoAbandonedG(1, 4, 1, true))
	if tier == "thorough" {
		out = append(out, explore.Sharded(c11TwoAbandoned(0, 3, 2), 8)...)
	}
	out = append(out, c11AbandonedWithReportingStats(4, 64, 1), c11AbandonedWithReportingStats(8, 64, 0), c11AbandonedWithReportingStats(3, 0, 1))
	// repeated / late stream operations an application may make (CloseSend again, SendMsg after CloseSend, early Trailer()),
	// then the caller gives up: every operation returns and the connection is usable
	out = append(out, pickScenarios(apiSeqs("C11", tier), "/repeated-ops")...)
	out = append(out, opInWriteAll("C11", 1)...)
	// finer granularity (a scheduling point after every Unlock as well) on the small core scenarios
	out = append(out, fineGrained(c11One(abandon{"handler-returns", 2, 0, false, false, false}, 64, 0, 1), c11One(abandon{"caller-cancels", 2, 1, false, false, false}, 64, 0, 1))...)
	return out
}

func c11One(a abandon, capn, others, bound int) *explore.Scenario {
	fam := "C11/" + a.mode
	return &explore.Scenario{
		Name:    fmt.Sprintf("C11/cap=%d/others=%d/%s", capn, others, a.name()),
		Family:  fam,
		Prop:    "C11",
		Bound:   bound,
		Horizon: time.Hour,
		Run: func() {
			w := env.NewWorld()
			d := env.NewDirect(w, env.DirectOpts{Pipe: env.PipeOpts{Cap: capn}})
			vsched.Settle()
			vsched.Explore(true)
			r := w.Rec("ab", "Bidi")
			slowGate := make(chan struct{})
			var herr error
			if a.herr {
				herr = status.Error(codes.FailedPrecondition, "handler gave up")
			}
			switch a.mode {
			case "handler-returns":
				w.Handlers["ab"] = env.HReturnAfter(a.k, herr)
				vsched.GoNamed("caller-ab", func() {
					cs := w.Open(d.CC, context.Background(), r)
					if cs != nil {
						env.PSendAllThenRecv(a.n)(r, cs)
					}
					r.CDone = true
				})
			case "caller-cancels", "caller-stops", "caller-deadline":
				w.Handlers["ab"] = func(r *env.Rec, ss grpc.ServerStream) error {
					for i := 0; i < a.n; i++ {
						if err := ss.SendMsg(env.S(fmt.Sprintf("b%d", i))); err != nil {
							return err
						}
						r.HSent = append(r.HSent, fmt.Sprintf("b%d", i))
					}
					if a.mode == "caller-stops" {
						return nil
					}
					<-ss.Context().Done()
					return status.FromContextError(ss.Context().Err()).Err()
				}
				vsched.GoNamed("caller-ab", func() {
					ctx, cancel := context.WithCancel(context.Background())
					if a.mode == "caller-deadline" {
						// the caller's own deadline ends the stream (the server learns it from the timeout header too)
						ctx, cancel = context.WithTimeout(context.Background(), 100*time.Millisecond)
					}
					cs := w.Open(d.CC, ctx, r)
					if cs != nil {
						for i := 0; i < a.k; i++ {
							if env.CRecvOne(r, cs) != nil {
								break
							}
						}
					}
					if a.mode == "caller-cancels" {
						if a.rstFails {
							d.Pipe.A.FailNextWrites = 1
						}
						if a.rstSlow {
							d.Pipe.A.OnWrite = func(k int, rpc *env.Rpc) {
								if rpc.GetReset_() != nil {
									<-slowGate
								}
							}
						}
						cancel()
					}
					_ = cancel
					r.CDone = true // the caller walks away
				})
			}
			var orecs []*env.Rec
			for i := 0; i < others; i++ {
				or := w.Rec(fmt.Sprintf("o%d", i), "Unary")
				orecs = append(orecs, or)
				vsched.GoNamed("other-"+or.Tag, func() { w.CallUnary(d.CC, context.Background(), or, "x") })
			}
			if a.mode == "caller-deadline" {
				vsched.QuiesceTime()
			}
			vsched.Quiesce()
			if a.rstSlow {
				close(slowGate)
				vsched.Quiesce()
			}
			// a probe started afterwards, without a deadline
			p1 := w.Rec("p1", "Unary")
			vsched.GoNamed("probe-p1", func() { w.CallUnary(d.CC, context.Background(), p1, "x") })
			vsched.Quiesce()
			// and one with a deadline
			p2 := w.Rec("p2", "Unary")
			vsched.GoNamed("probe-p2", func() {
				ctx, cancel := context.WithTimeout(context.Background(), time.Second)
				defer cancel()
				w.CallUnary(d.CC, ctx, p2, "x")
			})
			vsched.QuiesceTime()
			vsched.Obs("%s", r.Summary())
			for _, or := range append(orecs, p1, p2) {
				vsched.Obs("%s done=%v err=%s reply=%q", or.Tag, or.CDone, env.ErrStr(or.CErr), or.CReply)
			}
			for _, or := range append(orecs, p1) {
				if !or.CDone {
					vsched.Fail(fam+"|rpc-hang", "unary call %s on the connection never returned after the stream was abandoned (%s)", or.Tag, a.name())
				} else if a.rstFails && or.CErr != nil {
					// the injected write failure may have hit this call instead of the reset: it returned, which is what counts
				} else if or.CErr != nil || or.CReply != "R:"+or.Tag+"|x" {
					vsched.Fail(fam+"|rpc-wrong", "unary call %s returned err=%v reply=%q", or.Tag, or.CErr, or.CReply)
				}
			}
			if !p2.CDone {
				vsched.Fail(fam+"|deadline-rpc-hang", "unary call with a 1s deadline never returned (%s)", a.name())
			} else if a.rstFails && p2.CErr != nil {
			} else if p2.CErr != nil && status.Code(p2.CErr) != codes.DeadlineExceeded && p2.CErr != context.DeadlineExceeded {
				vsched.Fail(fam+"|deadline-rpc-wrong", "unary call with a deadline returned %v", p2.CErr)
			} else if p2.CErr == nil && p2.CReply != "R:p2|x" {
				vsched.Fail(fam+"|deadline-rpc-wrong", "unary call with a deadline returned reply %q", p2.CReply)
			}
			finishDirect(d, w, true)
			if a.mode == "handler-returns" && !r.CDone {
				vsched.Fail(fam+"|own-caller-hang", "the caller of the abandoned stream never got its result: %s", r.Summary())
			}
		},
	}
}

// c11WriteErrAfterDelivery: a unary call's request reaches the peer, but the
// transport's Write reports an error to the caller (a timeout while waiting for
// an acknowledgement, say), so the caller abandons the call; the peer answers
// it anyway, `replies` times. The connection must not wedge: later calls complete.
func c11WriteErrAfterDelivery(replies, bound int) *explore.Scenario {
	fam := "C11/write-error"
	return &explore.Scenario{
		Name: fmt.Sprintf("C11/write-error-after-delivery/replies=%d", replies), Family: fam, Prop: "C11", Bound: bound, Horizon: time.Hour,
		Run: func() {
			w := env.NewWorld()
			d := env.NewDirect(w, env.DirectOpts{Pipe: env.PipeOpts{Cap: 64}, NoServer: true})
			// the scripted peer: answers request id N `replies` times (the first request), once afterwards
			first := true
			vsched.GoNamed("peer", func() {
				for {
					rpc, err := d.Pipe.B.Read(context.Background())
					if err != nil {
						return
					}
					n := 1
					if first {
						n, first = replies, false
					}
					for i := 0; i < n; i++ {
						d.Pipe.B.Inject(env.RespUnary(rpc.GetId(), "R:late"))
					}
				}
			})
			vsched.Settle()
			d.Pipe.A.DeliverThenFailAt = d.Pipe.A.NWritten
			vsched.Explore(true)
			r := w.Rec("ab", "Unary")
			vsched.GoNamed("caller-ab", func() { w.CallUnary(d.CC, context.Background(), r, "x") })
			vsched.Quiesce()
			if !r.CDone {
				vsched.Fail(fam+"|own-caller-hang", "the call whose request write reported an error never returned; threads: %s", threadList())
			}
			p1 := w.Rec("p1", "Unary")
			vsched.GoNamed("probe-p1", func() { w.CallUnary(d.CC, context.Background(), p1, "x") })
			vsched.Quiesce()
			p2 := w.Rec("p2", "Unary")
			vsched.GoNamed("probe-p2", func() {
				ctx, cancel := context.WithTimeout(context.Background(), time.Second)
				defer cancel()
				w.CallUnary(d.CC, ctx, p2, "x")
			})
			vsched.QuiesceTime()
			vsched.Obs("replies=%d: ab done=%v err=%s; p1 done=%v err=%s; p2 done=%v", replies, r.CDone, env.ErrStr(r.CErr), p1.CDone, env.ErrStr(p1.CErr), p2.CDone)
			if !p1.CDone {
				vsched.Fail(fam+"|rpc-hang", "a call abandoned because its request write reported an error was answered %d times by the peer; a later unary call never returned; threads: %s", replies, threadList())
			} else if p1.CErr != nil || p1.CReply != "R:late" {
				vsched.Fail(fam+"|rpc-wrong", "a later unary call returned err=%v reply=%q", p1.CErr, p1.CReply)
			}
			if !p2.CDone {
				vsched.Fail(fam+"|deadline-rpc-hang", "a later unary call with a 1s deadline never returned")
			}
			d.Pipe.A.Break()
			d.Pipe.B.Break()
			vsched.Quiesce()
		},
	}
}

// c11FailedCallAbandoned: a call of the stream API fails for a reason of the
// caller's own making - RecvMsg into something that is not a message, SendMsg of
// something the codec cannot encode - and the caller, as the contract has it
// after a failed call, walks away from the stream without cancelling. The
// handler still has 5 messages to send. Later calls on the connection complete.
func c11FailedCallAbandoned(what string, bound int) *explore.Scenario {
	return failedCallAbandoned("C11", what, bound)
}

func failedCallAbandoned(prop, what string, bound int) *explore.Scenario {
	fam := prop + "/failed-call-abandoned"
	return &explore.Scenario{
		Name: prop + "/failed-call-abandoned/" + what, Family: fam, Prop: prop, Bound: bound, Horizon: time.Hour,
		Run: func() {
			w := env.NewWorld()
			d := env.NewDirect(w, env.DirectOpts{Pipe: env.PipeOpts{Cap: 64}})
			vsched.Settle()
			vsched.Explore(true)
			r := w.Rec("ab", "Bidi")
			w.Handlers["ab"] = env.HBurst(5)
			var opErr error
			vsched.GoNamed("caller-ab", func() {
				cs := w.Open(d.CC, context.Background(), r)
				if cs != nil {
					env.CSend(r, cs, "go")
					switch what {
					case "recv-into-non-message":
						s := "not a message"
						opErr = cs.RecvMsg(&s)
					case "send-non-message":
						opErr = cs.SendMsg("not a message")
					case "send-unencodable":
						opErr = cs.SendMsg(&wrapperspb.StringValue{Value: "\xff\xfe invalid utf-8"})
					}
				}
				r.CDone = true // walks away
			})
			vsched.Quiesce()
			if !r.CDone {
				vsched.Fail(fam+"|own-caller-hang", "the failing call (%s) never returned; threads: %s", what, threadList())
			} else if opErr == nil {
				vsched.Fail(fam+"|harness", "%s was expected to fail", what)
			}
			p1 := w.Rec("p1", "Unary")
			vsched.GoNamed("probe-p1", func() { w.CallUnary(d.CC, context.Background(), p1, "x") })
			vsched.Quiesce()
			p2 := w.Rec("p2", "Unary")
			vsched.GoNamed("probe-p2", func() {
				ctx, cancel := context.WithTimeout(context.Background(), time.Second)
				defer cancel()
				w.CallUnary(d.CC, ctx, p2, "x")
			})
			vsched.QuiesceTime()
			vsched.Obs("%s: err=%v; p1 done=%v p2 done=%v", what, opErr, p1.CDone, p2.CDone)
			if !p1.CDone {
				vsched.Fail(fam+"|rpc-hang", "after a stream call failed (%s) and the caller walked away with 5 handler messages outstanding, a later unary call never returned; threads: %s", what, threadList())
			} else {
				checkUnary(p1, "x", fam)
			}
			if !p2.CDone {
				vsched.Fail(fam+"|deadline-rpc-hang", "after %s: a later unary call with a 1s deadline never returned", what)
			}
			finishDirect(d, w, false)
		},
	}
}

// c11TwoAbandoned: two kinds of abandonment at once on one connection - stream "hr" whose handler returns
// after one message while its caller goes on sending (the server answers the late messages with resets), and
// stream "cc" whose caller cancels with responses unread (late responses reach a client that no longer knows
// the stream). Whatever each side does with envelopes for streams it no longer knows, the connection stays
// usable: the first caller gets its result and later calls complete.
func c11TwoAbandoned(capn, n, bound int) *explore.Scenario {
	return c11TwoAbandonedG(capn, n, bound, false)
}

// gated: the transport is slow taking the last response of the cancelled stream from the server (the server's
// writer sits in that Write until everything else has come to rest; then the transport takes it)
func c11TwoAbandonedG(capn, n, bound int, gated bool) *explore.Scenario {
	fam := "C11/two-abandoned"
	name := fmt.Sprintf("C11/two-abandoned/cap=%d/n=%d/d=%d", capn, n, bound)
	if gated {
		name += "/server-writer-held"
	}
	return &explore.Scenario{
		Name: name, Family: fam, Prop: "C11", Bound: bound, Horizon: time.Hour,
		Run: func() {
			w := env.NewWorld()
			d := env.NewDirect(w, env.DirectOpts{Pipe: env.PipeOpts{Cap: capn}})
			if gated {
				last := []byte(fmt.Sprintf("b%d", n-1))
				d.Pipe.B.HoldIf = func(k int, rpc *env.Rpc) bool {
					return rpc.GetBody() != nil && bytes.Contains(rpc.GetBody().GetData(), last)
				}
			}
			vsched.Settle()
			vsched.Explore(true)
			hr, cc := w.Rec("hr", "Bidi"), w.Rec("cc", "Bidi")
			w.Handlers["hr"] = env.HReturnAfter(1, nil)
			w.Handlers["cc"] = func(r *env.Rec, ss grpc.ServerStream) error {
				for i := 0; i < n; i++ {
					if err := ss.SendMsg(env.S(fmt.Sprintf("b%d", i))); err != nil {
						return err
					}
					r.HSent = append(r.HSent, fmt.Sprintf("b%d", i))
				}
				<-ss.Context().Done()
				return status.FromContextError(ss.Context().Err()).Err()
			}
			vsched.GoNamed("caller-cc", func() {
				ctx, cancel := context.WithCancel(context.Background())
				if cs := w.Open(d.CC, ctx, cc); cs != nil {
					env.CRecvOne(cc, cs)
				}
				cancel()
				cc.CDone = true // walks away
			})
			vsched.GoNamed("caller-hr", func() {
				if cs := w.Open(d.CC, context.Background(), hr); cs != nil {
					env.PSendAllThenRecv(n)(hr, cs)
				}
				hr.CDone = true
			})
			vsched.Quiesce()
			if gated {
				d.Pipe.B.HoldIf = nil // (from here on the transport is prompt again, whether or not that Write had begun)
				d.Pipe.B.ReleaseHeld(false)
				vsched.Quiesce()
			}
			p1 := w.Rec("p1", "Unary")
			vsched.GoNamed("probe-p1", func() { w.CallUnary(d.CC, context.Background(), p1, "x") })
			vsched.Quiesce()
			p2 := w.Rec("p2", "Unary")
			vsched.GoNamed("probe-p2", func() {
				ctx, cancel := context.WithTimeout(context.Background(), time.Second)
				defer cancel()
				w.CallUnary(d.CC, ctx, p2, "x")
			})
			vsched.QuiesceTime()
			vsched.Obs("%s | %s | p1 done=%v p2 done=%v", hr.Summary(), cc.Summary(), p1.CDone, p2.CDone)
			if !hr.CDone {
				vsched.Fail(fam+"|own-caller-hang", "the caller of the stream whose handler returned early never got its result: %s; threads: %s", hr.Summary(), threadList())
			}
			if !p1.CDone {
				vsched.Fail(fam+"|rpc-hang", "a later unary call never returned; threads: %s", threadList())
			} else {
				checkUnary(p1, "x", fam)
			}
			if !p2.CDone {
				vsched.Fail(fam+"|deadline-rpc-hang", "a later unary call with a 1s deadline never returned")
			}
			finishDirect(d, w, true)
		},
	}
}

// c11AbandonedWithReportingStats: the client has a stats handler that reports the End of an RPC with a unary call on
// the same connection (telemetry). The caller of a server stream never reads and cancels with n responses
// outstanding (the connection's read loop is parked delivering them). The report and later calls complete: by the
// time user code learns that the stream is over, the stream no longer holds the connection up.
func c11AbandonedWithReportingStats(n, capn, bound int) *explore.Scenario {
	fam := "C11/abandoned-with-reporting-stats"
	return &explore.Scenario{
		Name: fmt.Sprintf("C11/abandoned-with-reporting-stats/n=%d/cap=%d/d=%d", n, capn, bound), Family: fam, Prop: "C11", Bound: bound, Horizon: time.Hour,
		Run: func() {
			w := env.NewWorld()
			var d *env.Direct
			var report *env.Rec
			sh := &reentrantSH{seen: map[string]bool{}}
			sh.do = func(rpc int, event string) {
				if event == "End" {
					report = w.Rec("report", "Unary")
					w.CallUnary(d.CC, context.Background(), report, "x")
				}
			}
			d = env.NewDirect(w, env.DirectOpts{Pipe: env.PipeOpts{Cap: capn}, DialOpts: []goat.DialOption{goat.WithStatsHandler(sh)}})
			vsched.Settle()
			vsched.Explore(true)
			ab := w.Rec("ab", "SStream")
			w.Handlers["ab"] = func(r *env.Rec, ss grpc.ServerStream) error {
				if _, err := recvOne(r, ss); err != nil && err != io.EOF {
					return err
				}
				for i := 0; i < n; i++ {
					if err := ss.SendMsg(env.S(fmt.Sprintf("b%d", i))); err != nil {
						return err
					}
				}
				<-ss.Context().Done()
				return status.FromContextError(ss.Context().Err()).Err()
			}
			ctx, cancel := context.WithCancel(context.Background())
			vsched.GoNamed("caller-ab", func() {
				if cs := w.Open(d.CC, ctx, ab); cs != nil {
					env.CSend(ab, cs, "go")
					env.CClose(ab, cs)
				}
				ab.CDone = true // never reads
			})
			vsched.Quiesce()
			cancel()
			vsched.Quiesce()
			p1 := w.Rec("p1", "Unary")
			vsched.GoNamed("probe-p1", func() { w.CallUnary(d.CC, context.Background(), p1, "x") })
			vsched.Quiesce()
			p2 := w.Rec("p2", "Unary")
			vsched.GoNamed("probe-p2", func() {
				c2, cancel2 := context.WithTimeout(context.Background(), time.Second)
				defer cancel2()
				w.CallUnary(d.CC, c2, p2, "x")
			})
			vsched.QuiesceTime()
			if report == nil {
				vsched.Fail(fam+"|harness", "the stats handler never saw the End of the abandoned stream")
			} else if !report.CDone {
				vsched.Fail(fam+"|rpc-hang", "the call a stats handler makes when it is told that the abandoned stream ended never returns; threads: %s", threadList())
			} else {
				checkUnary(report, "x", fam)
			}
			if !p1.CDone {
				vsched.Fail(fam+"|rpc-hang", "a later unary call never returned; threads: %s", threadList())
			} else {
				checkUnary(p1, "x", fam)
			}
			if !p2.CDone {
				vsched.Fail(fam+"|deadline-rpc-hang", "a later unary call with a 1s deadline never returned")
			}
			finishDirect(d, w, true)
		},
	}
}
