//vsched:noinstr
package props

import (
	"context"
	"fmt"
	"net/http"
	"net/http/httptest"
	"strings"
	"time"

	"github.com/coder/websocket"
	"google.golang.org/protobuf/proto"

	goat "github.com/avos-io/goat"
	"github.com/avos-io/goat/gen/goatorepo"
	"github.com/avos-io/goat/vrt/vsched"
)

// c19WS runs outside the scheduler: the WebSocket library's goroutines and
// sockets cannot be controlled, the outcome per input is deterministic, and
// what is enumerated is inputs.
func c19WS(fam string, big bool) (viol []vsched.Violation, obs []string, inputs int64) {
	fail := func(key, f string, a ...any) {
		viol = append(viol, vsched.Violation{Key: fam + "|" + key, Msg: fmt.Sprintf(f, a...)})
	}
	type pair struct {
		srvConn chan *websocket.Conn
	}
	p := pair{srvConn: make(chan *websocket.Conn, 1)}
	ts := httptest.NewServer(http.HandlerFunc(func(w http.ResponseWriter, r *http.Request) {
		c, err := websocket.Accept(w, r, nil)
		if err != nil {
			return
		}
		c.SetReadLimit(8 << 20)
		p.srvConn <- c
		<-r.Context().Done()
	}))
	defer ts.Close()
	ctx, cancel := context.WithTimeout(context.Background(), 120*time.Second)
	defer cancel()
	cli, _, err := websocket.Dial(ctx, "ws"+strings.TrimPrefix(ts.URL, "http"), nil)
	if err != nil {
		fail("harness", "dial: %v", err)
		return
	}
	defer cli.CloseNow()
	cli.SetReadLimit(8 << 20)
	srv := <-p.srvConn
	defer srv.CloseNow()
	a, b := goat.NewGoatOverWebsocket(cli), goat.NewGoatOverWebsocket(srv)

	// 1. envelope values, both directions, order kept
	vals := c19Values(big)
	for dir, ends := range [][2]goat.RpcReadWriter{{a, b}, {b, a}} {
		errc := make(chan error, 1)
		go func() {
			for _, v := range vals {
				if err := ends[0].Write(ctx, v); err != nil {
					errc <- err
					return
				}
			}
			errc <- nil
		}()
		for i, v := range vals {
			got, err := ends[1].Read(ctx)
			inputs++
			if err != nil {
				fail("delivery", "direction %d: reading envelope %d: %v", dir, i, err)
				return
			}
			if !proto.Equal(v, got) {
				fail("altered-or-reordered", "direction %d: envelope %d differs after the WebSocket transport", dir, i)
			}
		}
		if err := <-errc; err != nil {
			fail("delivery", "direction %d: write: %v", dir, err)
		}
	}
	obs = append(obs, fmt.Sprintf("websocket: %d envelope values each way", len(vals)))

	// 2. raw input: differential against proto.Unmarshal; non-binary messages are errors.
	// One fresh goat reader per raw message on the same socket (Read does not keep state).
	raw := [][]byte{}
	for x := 0; x < 256; x++ {
		raw = append(raw, []byte{byte(x)})
	}
	for x := 0; x < 256; x++ {
		for y := 0; y < 256; y += 1 {
			raw = append(raw, []byte{byte(x), byte(y)})
		}
	}
	raw = append(raw, []byte{})
	bases := []*goatorepo.Rpc{vals[1], vals[len(vals)/2], vals[len(vals)-2]}
	for _, base := range bases {
		enc, _ := proto.Marshal(base)
		if len(enc) > 300 {
			enc = enc[:300]
		}
		for pos := 0; pos < len(enc); pos++ {
			for _, sub := range []byte{0x00, 0xff, enc[pos] ^ 0x80, enc[pos] + 1} {
				m := append([]byte{}, enc...)
				m[pos] = sub
				raw = append(raw, m)
			}
		}
	}
	mism := 0
	for _, m := range raw {
		inputs++
		if err := cli.Write(ctx, websocket.MessageBinary, m); err != nil {
			fail("harness", "raw write: %v", err)
			return
		}
		got, err := b.Read(ctx)
		var ref goatorepo.Rpc
		refErr := proto.Unmarshal(m, &ref)
		switch {
		case refErr != nil && err == nil:
			fail("undecodable-delivered", "bytes %x are not a well-formed envelope but were delivered", m)
			mism++
		case refErr == nil && err != nil:
			fail("valid-rejected", "bytes %x decode as an envelope but the transport reported %v", m, err)
			mism++
		case refErr == nil && !proto.Equal(&ref, got):
			fail("misdecoded", "bytes %x were delivered as a different envelope", m)
			mism++
		}
		if mism > 5 {
			return
		}
	}
	obs = append(obs, fmt.Sprintf("websocket: %d raw binary messages compared with proto.Unmarshal", len(raw)))
	for _, txt := range []string{"", "hello", string(func() []byte { e, _ := proto.Marshal(vals[1]); return e }())} {
		inputs++
		if err := cli.Write(ctx, websocket.MessageText, []byte(txt)); err != nil {
			// the library refuses invalid UTF-8 in text frames: not an input a peer can produce through it
			continue
		}
		if got, err := b.Read(ctx); err == nil {
			fail("text-delivered", "a non-binary WebSocket message was delivered as envelope %v", got)
		}
	}

	// 2b. a Write queued behind a Write that is stuck (the peer does not read) returns once ITS context is done
	{
		stuck := make(chan *websocket.Conn, 1)
		ts2 := httptest.NewServer(http.HandlerFunc(func(w http.ResponseWriter, r *http.Request) {
			c, err := websocket.Accept(w, r, nil)
			if err != nil {
				return
			}
			stuck <- c
			<-r.Context().Done() // never reads
		}))
		cli2, _, err := websocket.Dial(ctx, "ws"+strings.TrimPrefix(ts2.URL, "http"), nil)
		if err != nil {
			fail("harness", "dial 2: %v", err)
			ts2.Close()
			return
		}
		srv2 := <-stuck
		w2 := goat.NewGoatOverWebsocket(cli2)
		bigc, cancelBig := context.WithCancel(context.Background())
		progress := make(chan struct{}, 64)
		go func() {
			big := &goatorepo.Rpc{Id: 1, Body: &goatorepo.Body{Data: make([]byte, 1<<20)}}
			for {
				if err := w2.Write(bigc, big); err != nil {
					return
				}
				select {
				case progress <- struct{}{}:
				default:
				}
			}
		}()
		// wait until the first writer stops making progress
		for quiet := 0; quiet < 3; {
			select {
			case <-progress:
				quiet = 0
			case <-time.After(300 * time.Millisecond):
				quiet++
			}
		}
		wctx, wcancel := context.WithTimeout(context.Background(), 200*time.Millisecond)
		wdone := make(chan error, 1)
		go func() { wdone <- w2.Write(wctx, &goatorepo.Rpc{Id: 2}) }()
		select {
		case err := <-wdone:
			if err == nil {
				fail("write-ignores-ctx", "a Write queued behind a stuck Write succeeded although the peer never reads")
			}
		case <-time.After(30 * time.Second):
			fail("write-ignores-ctx", "a Write waiting behind a stuck Write on the WebSocket transport did not return within 30s of its context being done")
		}
		wcancel()
		cancelBig()
		cli2.CloseNow()
		srv2.CloseNow()
		ts2.Close()
		inputs++
	}

	// 3. a blocked Read returns once its context is done
	rctx, rcancel := context.WithCancel(context.Background())
	done := make(chan error, 1)
	go func() { _, err := a.Read(rctx); done <- err }()
	time.Sleep(20 * time.Millisecond)
	rcancel()
	select {
	case err := <-done:
		if err == nil {
			fail("read-ignores-ctx", "blocked Read returned nil after cancellation")
		}
	case <-time.After(30 * time.Second):
		fail("read-ignores-ctx", "a Read blocked on the WebSocket transport did not return within 30s of its context being cancelled")
	}
	return
}
