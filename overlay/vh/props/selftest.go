package props

import (
	"fmt"
	"strings"

	"github.com/avos-io/goat/litmus"
	"github.com/avos-io/goat/vrt/explore"
	"github.com/avos-io/goat/vrt/vsched"
)

// SELF: litmus programs with known outcome sets, instrumented like goat's own
// code. They check the engine (scheduler model, explorer, race detector)
// against Go's semantics; `bin/check SELF` fails with an engine error when an
// expected outcome is never produced, an impossible one is, or the race
// detector's verdict differs.
func init() { register("SELF", selfTests) }

type litmusCase struct {
	name  string
	bound int
	want  []string // exact set of outcomes over all explored executions
	race  string   // "" (not a race litmus) | "race" | "norace"
}

var litmusTests = []litmusCase{
	{"lost-update", 2, []string{"1", "2"}, ""},
	{"mutex-update", 2, []string{"2"}, ""},
	{"select-both-ready", 1, []string{"1", "2"}, ""},
	{"rendezvous-order", 2, []string{"12", "21"}, ""},
	{"lock-order-deadlock", 2, []string{"completed", "DEADLOCK"}, ""},
	{"cancel-vs-send", 2, []string{"sent", "cancelled"}, ""},
	{"timer-vs-message", 1, []string{"message"}, ""},
	{"timer-alone", 1, []string{"timeout"}, ""},
	{"once", 2, []string{"1"}, ""},
	{"rwmutex", 2, []string{"00", "02", "22"}, ""},
	{"afterfunc", 2, []string{"ran"}, ""},
	{"map-order", 1, []string{"a", "b", "c"}, ""},
	{"close-wakes-all", 2, []string{"2"}, ""},
	{"buffered-capacity", 2, []string{"123"}, ""},
	{"send-on-closed", 1, []string{"PP"}, ""},
	{"recv-on-closed", 1, []string{"70tf"}, ""},
	{"close-closed", 1, []string{"P"}, ""},
	{"global-fresh", 1, []string{"fresh"}, ""},
	{"race-global", 1, nil, "race"},
	{"race-atomic-plain", 1, nil, "race"},
	{"norace-atomic-atomic", 1, nil, "norace"},
	{"race-plain", 1, nil, "race"},
	{"race-map", 1, nil, "race"},
	{"race-map-range", 1, nil, "race"},
	{"race-delete", 1, nil, "race"},
	{"race-after-unlock", 2, nil, "race"},
	{"norace-mutex", 2, nil, "norace"},
	{"norace-channel", 2, nil, "norace"},
	{"norace-atomic-publish", 2, nil, "norace"},
	{"norace-cancel-publish", 2, nil, "norace"},
}

func selfTests(tier string) []*explore.Scenario {
	var out []*explore.Scenario
	for _, l := range litmusTests {
		l := l
		sc := &explore.Scenario{
			Name: "SELF/" + l.name, Family: "SELF/" + l.name, Prop: "SELF", Bound: l.bound, Race: l.race != "", Horizon: 0,
			Run: func() {
				vsched.Explore(true)
				done := false
				res := ""
				vsched.GoNamed("litmus", func() { res = litmus.Run(l.name); done = true })
				vsched.QuiesceTime()
				if !done {
					res = "DEADLOCK"
				}
				vsched.Obs("%s", res)
			},
		}
		if l.race == "" {
			sc.ExpectOutcomes = l.want
		} else {
			sc.ExpectRace = l.race
		}
		out = append(out, sc)
	}
	// the same program in both granularities: the goroutine's Done can only come before its parent's Add
	// when the go statement is a scheduling point (fine-grained mode)
	for _, fine := range []bool{false, true} {
		fine := fine
		sc := &explore.Scenario{
			Name: fmt.Sprintf("SELF/add-after-go/fine=%v", fine), Family: "SELF/add-after-go", Prop: "SELF", Bound: 1, UnlockPoints: fine,
			Run: func() {
				vsched.Explore(true)
				done := false
				res := ""
				vsched.GoNamed("litmus", func() { res = litmus.Run("add-after-go"); done = true })
				vsched.QuiesceTime()
				if !done {
					res = "DEADLOCK"
				}
				vsched.Obs("%s", res)
			},
		}
		sc.ExpectOutcomes = []string{"ok"}
		if fine {
			sc.ExpectOutcomes = []string{"negative", "ok"}
		}
		out = append(out, sc)
	}
	return out
}

var _ = strings.Join
