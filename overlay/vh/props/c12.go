package props

import (
	"google.golang.org/grpc/status"
	"strings"
	"time"

	"context"
	"fmt"
	goat "github.com/avos-io/goat"
	"google.golang.org/grpc"

	"github.com/avos-io/goat/gen/goatorepo"
	"github.com/avos-io/goat/vh/env"
	"github.com/avos-io/goat/vrt/explore"
	"github.com/avos-io/goat/vrt/vsched"
)

func init() { register("C12", c12) }

// c12Shape is one envelope shape a hostile peer may send to a server.
type c12Shape struct {
	name  string
	build func(id uint64, tag string) *env.Rpc
	// what a correct server may/must do with it when no stream with this id is open
	unaryMust bool // a unary handler invocation with this tag must happen exactly once
	unaryMay  bool // … may happen (empty or garbage body)
	opens     bool // opens a stream (handler start must happen exactly once) if the id is free
	body      bool // a body for a stream: if the id is not open the server must answer with a reset
	opensMay  bool // header-only with stray fields: may be taken as an open
}

func badMD(h *goatorepo.RequestHeader) *goatorepo.RequestHeader {
	h.Headers = append(h.Headers, &goatorepo.KeyValue{Key: "x-bin", Value: "!!not-base64!!"})
	return h
}

func withHdr(r *env.Rpc, k, v string) *env.Rpc {
	r.Header.Headers = append(r.Header.Headers, &goatorepo.KeyValue{Key: k, Value: v})
	return r
}

// streamKind: the method an opening shape addresses (the harness's service reports a handler of another method)
func (sh c12Shape) streamKind() string {
	switch sh.name {
	case "open-sstream":
		return "SStream"
	case "open-cstream":
		return "CStream"
	}
	return "Bidi"
}

var c12Shapes = []c12Shape{
	{name: "valid-unary", build: func(id uint64, tag string) *env.Rpc { return env.ReqUnary(id, tag, "x") }, unaryMust: true},
	{name: "no-header", build: func(id uint64, tag string) *env.Rpc { r := env.ReqUnary(id, tag, "x"); r.Header = nil; return r }},
	{name: "unparsable-method", build: func(id uint64, tag string) *env.Rpc {
		r := env.ReqUnary(id, tag, "x")
		r.Header.Method = "nomethod"
		return r
	}},
	{name: "unknown-service", build: func(id uint64, tag string) *env.Rpc {
		r := env.ReqUnary(id, tag, "x")
		r.Header.Method = "/no.Such/Unary"
		return r
	}},
	{name: "unknown-method", build: func(id uint64, tag string) *env.Rpc {
		r := env.ReqUnary(id, tag, "x")
		r.Header.Method = "/verif.Svc/Nope"
		return r
	}},
	{name: "wrong-destination", build: func(id uint64, tag string) *env.Rpc {
		r := env.ReqUnary(id, tag, "x")
		r.Header.Destination = "other"
		return r
	}},
	{name: "wrong-destination-open", build: func(id uint64, tag string) *env.Rpc {
		r := env.ReqOpen(id, env.MBidi, tag)
		r.Header.Destination = "other"
		return r
	}},
	{name: "unary-no-body", build: func(id uint64, tag string) *env.Rpc { r := env.ReqUnary(id, tag, "x"); r.Body = nil; return r }, unaryMay: true},
	{name: "unary-bad-metadata", build: func(id uint64, tag string) *env.Rpc { r := env.ReqUnary(id, tag, "x"); badMD(r.Header); return r }},
	{name: "unary-garbage-body", build: func(id uint64, tag string) *env.Rpc {
		r := env.ReqUnary(id, tag, "x")
		r.Body.Data = []byte{0xff, 0xff, 0xff}
		return r
	}, unaryMay: true},
	{name: "unary-timeout", build: func(id uint64, tag string) *env.Rpc { return withHdr(env.ReqUnary(id, tag, "x"), "grpc-timeout", "1S") }, unaryMust: true},
	{name: "unary-bad-timeout", build: func(id uint64, tag string) *env.Rpc { return withHdr(env.ReqUnary(id, tag, "x"), "GRPC-Timeout", "-x") }, unaryMust: true},
	{name: "unary-with-trailer", build: func(id uint64, tag string) *env.Rpc {
		r := env.ReqUnary(id, tag, "x")
		r.Trailer = &goatorepo.Trailer{}
		return r
	}, unaryMust: true},
	{name: "open-bidi", build: func(id uint64, tag string) *env.Rpc { return env.ReqOpen(id, env.MBidi, tag) }, opens: true},
	{name: "open-sstream", build: func(id uint64, tag string) *env.Rpc { return env.ReqOpen(id, env.MSStream, tag) }, opens: true},
	{name: "open-cstream", build: func(id uint64, tag string) *env.Rpc { return env.ReqOpen(id, env.MCStream, tag) }, opens: true},
	{name: "open-bad-metadata", build: func(id uint64, tag string) *env.Rpc { r := env.ReqOpen(id, env.MBidi, tag); badMD(r.Header); return r }},
	{name: "body", build: func(id uint64, tag string) *env.Rpc { return env.ReqBody(id, env.MBidi, tag) }, body: true},
	{name: "trailer-ok", build: func(id uint64, tag string) *env.Rpc { return env.ReqTrailer(id, env.MBidi) }},
	{name: "trailer-error", build: func(id uint64, tag string) *env.Rpc { r := env.ReqTrailer(id, env.MBidi); r.Status.Code = 9; return r }},
	{name: "reset", build: func(id uint64, tag string) *env.Rpc { return env.ReqReset(id, env.MBidi) }},
	{name: "reset-unknown-type", build: func(id uint64, tag string) *env.Rpc {
		r := env.ReqOpen(id, env.MBidi, tag)
		r.Reset_ = &goatorepo.Reset{Type: "FOO"}
		return r
	}, opensMay: true},
	{name: "body+trailer", build: func(id uint64, tag string) *env.Rpc {
		r := env.ReqBody(id, env.MBidi, tag)
		r.Trailer = &goatorepo.Trailer{}
		return r
	}, body: true},
	{name: "status-only", build: func(id uint64, tag string) *env.Rpc {
		return &env.Rpc{Id: id, Header: env.ReqOpen(id, env.MBidi, tag).Header, Status: &goatorepo.ResponseStatus{Code: 3}}
	}, opensMay: true},
	{name: "empty-envelope", build: func(id uint64, tag string) *env.Rpc { return &env.Rpc{Id: id} }},
	{name: "empty-body", build: func(id uint64, tag string) *env.Rpc {
		r := env.ReqBody(id, env.MBidi, tag)
		r.Body = &goatorepo.Body{} // a message that encodes to zero bytes is a message
		return r
	}, body: true},
}

// indices into c12Shapes used by the back-to-back ("burst") sequences
var c12BurstShapes = []int{0, 13, 17, 18, 20, 22} // valid-unary, open-bidi, body, trailer-ok, reset, body+trailer

func c12(tier string) []*explore.Scenario {
	var out []*explore.Scenario
	// every short sequence of handler-side operations (repeated SendHeader / SetHeader / SetTrailer included): the call is answered
	out = append(out, handlerSeqs("C12", tier)...)
	maxLen := 3
	if tier == "thorough" {
		maxLen = 4
	}
	// one scenario per first symbol (shape x id); the rest of the sequence is
	// enumerated by environment choice points
	for si := range c12Shapes {
		for _, id := range []uint64{1, 2} {
			if id == 2 && tier != "thorough" && si%2 == 1 {
				// quick: the second id as first symbol only for every other shape (sequences still mix both ids later)
			}
			out = append(out, c12Seq(si, id, maxLen, 0))
		}
	}
	// back-to-back sequences around stream opens and bodies
	for _, si := range []int{13, 17, 18, 20, 22} { // open-bidi, body, trailer-ok, reset, body+trailer
		out = append(out, c12SeqT(si, 1, maxLen+2, 0, true))
		out = append(out, c12SeqT(si, 1, maxLen, 1, true))
	}
	out = append(out, c12Interference(1), c12MethodNames(), c12MethodGrammar())
	out = append(out, c12ExpiredStream(true, 1), c12ExpiredStream(false, 2))
	// the same sequences against a server with stats handlers / interceptors installed
	for _, si := range []int{0, 13, 17, 20, len(c12Shapes) - 1} { // valid-unary, open-bidi, body, reset, empty-body
		out = append(out, withConfig([]string{"stats", "stats2+chain+services"}, c12Seq(si, 1, maxLen, 0))...)
	}
	out = append(out, withConfig([]string{"stats", "stats2+chain+services"}, c12Long("cycle"), c12ExpiredStream(true, 0))...)
	for _, mode := range []string{"repeat", "cycle", "cycle-fresh"} {
		out = append(out, c12Long(mode))
	}
	for _, end := range []string{"stop", "write-fails", "read-fails"} {
		out = append(out, c12ResetsUnread("C12", end, 2))
	}
	for _, where := range []string{"fresh-id", "open-stream", "half-closed-stream"} {
		out = append(out, c12Product(where, 1))
	}
	if tier == "thorough" {
		for _, where := range []string{"fresh-id", "open-stream"} {
			out = append(out, c12Product(where, 2))
		}
	}
	if tier == "thorough" {
		for si := range c12Shapes {
			out = append(out, c12Seq(si, 1, 2, 1))
		}
	} else {
		for _, si := range []int{0, 8, 13, 17, 20} {
			out = append(out, c12Seq(si, 1, 2, 1))
		}
	}
	return out
}

func c12Seq(first int, firstID uint64, maxLen, bound int) *explore.Scenario {
	return c12SeqT(first, firstID, maxLen, bound, false)
}

// burst: the envelopes are sent back to back (no quiescence in between) and
// stream handlers read one message and return, so that envelopes race with
// handlers starting, running and finishing; only the end-state oracles apply.
func c12SeqT(first int, firstID uint64, maxLen, bound int, burst bool) *explore.Scenario {
	fam := "C12/hostile"
	mode := "seq"
	if burst {
		mode = "burst"
	}
	return &explore.Scenario{
		Name:   fmt.Sprintf("C12/%s/first=%s@%d/len<=%d/d=%d", mode, c12Shapes[first].name, firstID, maxLen, bound),
		Family: fam, Prop: "C12", Bound: bound, MaxExecs: 3000000,
		Run: func() {
			w := env.NewWorld()
			d := env.NewDirect(w, env.DirectOpts{Pipe: env.PipeOpts{Cap: 256}, NoClient: true})
			vsched.GoNamed("peer-reader", func() {
				for {
					if _, err := d.Pipe.A.Read(context.Background()); err != nil {
						return
					}
				}
			})
			vsched.Settle()
			vsched.Explore(true)
			seq := ""
			streamRec := map[uint64]*env.Rec{} // the stream currently believed open per id
			for pos := 0; pos < maxLen; pos++ {
				si, id := first, firstID
				if pos > 0 && burst {
					// reduced alphabet around streams: longer sequences instead
					c := vsched.Choose(len(c12BurstShapes) + 1)
					if c == len(c12BurstShapes) {
						break
					}
					si = c12BurstShapes[c]
					id = uint64(1 + vsched.Choose(2))
				} else if pos > 0 {
					c := vsched.Choose(len(c12Shapes) + 1)
					if c == len(c12Shapes) {
						break
					}
					si = c
					id = uint64(1 + vsched.Choose(2))
				}
				sh := c12Shapes[si]
				tag := fmt.Sprintf("p%d", pos)
				seq += fmt.Sprintf(" %s@%d", sh.name, id)
				rpc := sh.build(id, tag)
				open := streamRec[id] != nil && streamRec[id].HStarts > 0 && !streamRec[id].HReturned
				var rec *env.Rec
				if sh.unaryMust || sh.unaryMay {
					rec = w.Rec(tag, "Unary")
				}
				if (sh.opens || sh.opensMay) && (!open || burst) {
					rec = w.Rec(tag, sh.streamKind())
					streamRec[id] = rec
					if burst {
						w.Handlers[tag] = env.HReturnAfter(1, nil)
					}
				}
				resetsBefore := countResets(d, id)
				if err := d.Pipe.A.Inject(rpc); err != nil {
					vsched.Fail(fam+"|harness", "inject failed: %v", err)
					return
				}
				if burst {
					continue
				}
				vsched.Quiesce()
				if d.ServeDone {
					vsched.Fail(fam+"|serve-ended", "Serve returned (%v) after the peer sent:%s", d.ServeErr, seq)
					return
				}
				switch {
				case sh.unaryMust && rec.HStarts != 1:
					vsched.Fail(fam+"|unary-not-served", "after%s: the handler for the well-formed unary request ran %d times", seq, rec.HStarts)
				case sh.unaryMay && rec.HStarts > 1:
					vsched.Fail(fam+"|unary-twice", "after%s: handler ran %d times", seq, rec.HStarts)
				case sh.opensMay && !open && rec.HStarts > 1:
					vsched.Fail(fam+"|stream-twice", "after%s: handler started %d times", seq, rec.HStarts)
				case sh.opens && !open && rec.HStarts != 1:
					vsched.Fail(fam+"|stream-not-started", "after%s: the handler for the opened stream started %d times", seq, rec.HStarts)
				case sh.body && !open && countResets(d, id) != resetsBefore+1:
					vsched.Fail(fam+"|no-reset-for-unknown-stream", "after%s: a body for a stream the server does not know must be answered by a reset for id %d (resets before %d, after %d)", seq, id, resetsBefore, countResets(d, id))
				}
				if (sh.name == "reset" || sh.name == "trailer-ok") && open && !streamRec[id].HReturned {
					// the reference is the envelope sequence, not the server's own idea of what is open: a reset (or the
					// peer's half-close) ends the stream whatever its handler is doing, so the id is free for the next open
					vsched.Fail(fam+"|stream-not-ended", "after%s: the %s stream on id %d was sent a %s but its handler is still running (%s)", seq, streamRec[id].Kind, id, sh.name, streamRec[id].Summary())
				}
			}
			vsched.Quiesce()
			if d.ServeDone {
				vsched.Fail(fam+"|serve-ended", "Serve returned (%v) after the peer sent:%s", d.ServeErr, seq)
				return
			}
			if len(w.Stray) > 0 {
				// a handler ran for something that is not a well-formed request: only the
				// body-less / garbage-body unary shapes may do that (empty message, no tag)
				for _, s := range w.Stray {
					if s != "unary:" {
						vsched.Fail(fam+"|handler-for-malformed", "after%s: a handler ran for a request that is not well-formed/addressed to this server: %q", seq, s)
					}
				}
			}
			// probes on fresh ids
			pu := w.Rec("probe-u", "Unary")
			d.Pipe.A.Inject(env.ReqUnary(100, "probe-u", "x"))
			ps := w.Rec("probe-s", "Bidi")
			d.Pipe.A.Inject(env.ReqOpen(101, env.MBidi, "probe-s"))
			d.Pipe.A.Inject(env.ReqBody(101, env.MBidi, "ping"))
			d.Pipe.A.Inject(env.ReqTrailer(101, env.MBidi))
			vsched.Quiesce()
			vsched.Obs("seq:%s | probe-u=%d probe-s recv=%v ret=%v", seq, pu.HStarts, ps.HRecv, ps.HReturned)
			if pu.HStarts != 1 || !hasUnaryReply(d, 100, "R:probe-u|x") {
				vsched.Fail(fam+"|probe-unary", "after%s: a valid unary request was not served (handler runs %d, reply on the wire %v)", seq, pu.HStarts, hasUnaryReply(d, 100, "R:probe-u|x"))
			}
			if ps.HStarts != 1 || !ps.HReturned || !eqStrs(ps.HRecv, []string{"ping"}) || !hasStreamEcho(d, 101) {
				vsched.Fail(fam+"|probe-stream", "after%s: a valid bidi stream was not served: %s", seq, ps.Summary())
			}
			d.Pipe.A.Break()
			d.Pipe.B.Break()
			vsched.Quiesce()
			if !d.ServeDone {
				vsched.Fail(fam+"|serve-hang", "after%s: Serve did not return when the transport closed; threads: %s", seq, threadList())
			}
		},
	}
}

func countResets(d *env.Direct, id uint64) int {
	n := 0
	for _, e := range d.Tap.Events {
		if e.Dir == "b2a" && e.Rpc.GetId() == id && e.Rpc.Reset_ != nil {
			n++
		}
	}
	return n
}

func hasUnaryReply(d *env.Direct, id uint64, want string) bool {
	for _, e := range d.Tap.Events {
		if e.Dir == "b2a" && e.Rpc.GetId() == id && e.Rpc.Body != nil && e.Rpc.Trailer != nil && e.Rpc.Status == nil {
			m := new(env.Msg)
			if unmarshal(e.Rpc.Body.Data, m) == nil && string(m.Value) == want {
				return true
			}
		}
	}
	return false
}

func hasStreamEcho(d *env.Direct, id uint64) bool {
	echo, trailer := false, false
	for _, e := range d.Tap.Events {
		if e.Dir != "b2a" || e.Rpc.GetId() != id {
			continue
		}
		if e.Rpc.Body != nil {
			m := new(env.Msg)
			if unmarshal(e.Rpc.Body.Data, m) == nil && string(m.Value) == "e:ping" {
				echo = true
			}
		}
		if e.Rpc.Trailer != nil && e.Rpc.Reset_ == nil && e.Rpc.GetStatus().GetCode() == 0 {
			trailer = true
		}
	}
	return echo && trailer
}

// c12Interference: a well-formed bidi stream is open and echoing; the peer
// then sends, under the SAME id, an envelope that is not a well-formed request
// for this server (wrong destination, unparsable method, unknown service or
// method, no header) carrying a body, a trailer or a reset. Such envelopes are
// ignored: the open stream goes on echoing and ends normally.
func c12Interference(bound int) *explore.Scenario {
	fam := "C12/hostile"
	return &explore.Scenario{
		Name: "C12/interference/open-stream-vs-malformed-same-id", Family: fam, Prop: "C12", Bound: bound,
		Run: func() {
			w := env.NewWorld()
			d := env.NewDirect(w, env.DirectOpts{Pipe: env.PipeOpts{Cap: 256}, NoClient: true})
			vsched.GoNamed("peer-reader", func() {
				for {
					if _, err := d.Pipe.A.Read(context.Background()); err != nil {
						return
					}
				}
			})
			vsched.Settle()
			kinds := []struct {
				name string
				mk   func() *env.Rpc
			}{
				{"body", func() *env.Rpc { return env.ReqBody(1, env.MBidi, "INTRUDER") }},
				{"trailer", func() *env.Rpc { return env.ReqTrailer(1, env.MBidi) }},
				{"reset", func() *env.Rpc { return env.ReqReset(1, env.MBidi) }},
			}
			breaks := []struct {
				name string
				do   func(r *env.Rpc)
			}{
				{"wrong-destination", func(r *env.Rpc) { r.Header.Destination = "someone-else" }},
				{"unparsable-method", func(r *env.Rpc) { r.Header.Method = "nomethod" }},
				{"unknown-service", func(r *env.Rpc) { r.Header.Method = "/no.Such/Bidi" }},
				{"unknown-method", func(r *env.Rpc) { r.Header.Method = "/verif.Svc/Nope" }},
				{"no-header", func(r *env.Rpc) { r.Header = nil }},
			}
			k := kinds[vsched.Choose(len(kinds))]
			b := breaks[vsched.Choose(len(breaks))]
			vsched.Explore(true)
			r := w.Rec("s", "Bidi")
			d.Pipe.A.Inject(env.ReqOpen(1, env.MBidi, "s"))
			d.Pipe.A.Inject(env.ReqBody(1, env.MBidi, "one"))
			vsched.Quiesce()
			bad := k.mk()
			b.do(bad)
			d.Pipe.A.Inject(bad)
			vsched.Quiesce()
			d.Pipe.A.Inject(env.ReqBody(1, env.MBidi, "two"))
			d.Pipe.A.Inject(env.ReqTrailer(1, env.MBidi))
			vsched.Quiesce()
			echoes, okTrailer, resets := []string{}, false, 0
			for _, e := range d.Tap.Events {
				if e.Dir != "b2a" || e.Rpc.GetId() != 1 {
					continue
				}
				if e.Rpc.Reset_ != nil {
					resets++
				}
				if e.Rpc.Body != nil {
					m := new(env.Msg)
					if unmarshal(e.Rpc.Body.Data, m) == nil {
						echoes = append(echoes, string(m.Value))
					}
				}
				if e.Rpc.Trailer != nil && e.Rpc.Reset_ == nil && e.Rpc.GetStatus().GetCode() == 0 {
					okTrailer = true
				}
			}
			vsched.Obs("%s with %s: handler recv=%v echoes=%v okTrailer=%v resets=%d", k.name, b.name, r.HRecv, echoes, okTrailer, resets)
			if !eqStrs(r.HRecv, []string{"one", "two"}) || !eqStrs(echoes, []string{"e:one", "e:two"}) || !okTrailer || r.HStarts != 1 {
				vsched.Fail(fam+"|open-stream-disturbed", "an open stream (id 1) was echoing; the peer sent a %s with %s under the same id, which is not a well-formed request for this server and must be ignored; afterwards the stream's handler had received %v (want [one two]), the peer saw echoes %v, OK trailer %v, %d resets", k.name, b.name, r.HRecv, echoes, okTrailer, resets)
			}
			pu := w.Rec("probe-u", "Unary")
			d.Pipe.A.Inject(env.ReqUnary(100, "probe-u", "x"))
			vsched.Quiesce()
			if pu.HStarts != 1 || !hasUnaryReply(d, 100, "R:probe-u|x") {
				vsched.Fail(fam+"|probe-unary", "after a %s with %s: a valid unary request was not served", k.name, b.name)
			}
			d.Pipe.A.Break()
			d.Pipe.B.Break()
			vsched.Quiesce()
			if !d.ServeDone {
				vsched.Fail(fam+"|serve-hang", "Serve did not return when the transport closed; threads: %s", threadList())
			}
		},
	}
}

// c12Product: the full product of field shapes - header {valid for the
// target, valid unary, wrong destination, unparsable method, unknown method,
// absent} x body {absent, message, undecodable, empty} x trailer {absent,
// present, with undecodable metadata} x status {absent, OK, error} x reset
// {absent, RST_STREAM, unknown type} = 6*4*3*3*3 = 648 envelopes, n of them in
// sequence, aimed at a fresh id, at the id of an open echoing stream, or at a
// stream the peer has half-closed. Whatever arrives: no crash, Serve goes on,
// an envelope whose header is not a well-formed request for this server leaves
// an open stream untouched, later valid requests are served, Serve returns at close.
func c12Product(where string, n int) *explore.Scenario {
	fam := "C12/hostile"
	return &explore.Scenario{
		Name: fmt.Sprintf("C12/product/%s/len=%d", where, n), Family: fam, Prop: "C12", Bound: 0, MaxExecs: 3000000,
		Run: func() {
			w := env.NewWorld()
			d := env.NewDirect(w, env.DirectOpts{Pipe: env.PipeOpts{Cap: 256}, NoClient: true})
			vsched.GoNamed("peer-reader", func() {
				for {
					if _, err := d.Pipe.A.Read(context.Background()); err != nil {
						return
					}
				}
			})
			vsched.Settle()
			const id = 1
			r := w.Rec("s", "Bidi")
			w.Handlers["s"] = func(r *env.Rec, ss grpc.ServerStream) error { // echo until end of stream, then wait to be released
				err := env.HEcho(r, ss)
				return err
			}
			if where != "fresh-id" {
				d.Pipe.A.Inject(env.ReqOpen(id, env.MBidi, "s"))
				d.Pipe.A.Inject(env.ReqBody(id, env.MBidi, "one"))
				if where == "half-closed-stream" {
					// the handler here keeps the stream registered after the half-close
					release := make(chan struct{})
					defer close(release)
					w.Handlers["s"] = func(r *env.Rec, ss grpc.ServerStream) error {
						env.HEcho(r, ss)
						<-release
						return nil
					}
				}
				vsched.Quiesce()
				if where == "half-closed-stream" {
					d.Pipe.A.Inject(env.ReqTrailer(id, env.MBidi))
					vsched.Quiesce()
				}
			}
			seq := ""
			validForStream := true
			for k := 0; k < n; k++ {
				hk, bk, tk, sk, rk := vsched.Choose(6), vsched.Choose(4), vsched.Choose(3), vsched.Choose(3), vsched.Choose(3)
				rpc := &env.Rpc{Id: id}
				switch hk {
				case 0:
					rpc.Header = env.ReqBody(id, env.MBidi, "").Header
				case 1:
					rpc.Header = env.ReqUnary(id, "x", "").Header
				case 2:
					rpc.Header = env.ReqBody(id, env.MBidi, "").Header
					rpc.Header.Destination = "someone-else"
				case 3:
					rpc.Header = env.ReqBody(id, env.MBidi, "").Header
					rpc.Header.Method = "nomethod"
				case 4:
					rpc.Header = env.ReqBody(id, env.MBidi, "").Header
					rpc.Header.Method = "/verif.Svc/Nope"
				}
				switch bk {
				case 1:
					rpc.Body = env.ReqBody(id, env.MBidi, fmt.Sprintf("X%d", k)).Body
				case 2:
					rpc.Body = &goatorepo.Body{Data: []byte{0xff, 0xff, 0xff}}
				case 3:
					rpc.Body = &goatorepo.Body{}
				}
				switch tk {
				case 1:
					rpc.Trailer = &goatorepo.Trailer{}
				case 2:
					rpc.Trailer = &goatorepo.Trailer{Metadata: []*goatorepo.KeyValue{{Key: "t-bin", Value: "!!bad!!"}}}
				}
				switch sk {
				case 1:
					rpc.Status = &goatorepo.ResponseStatus{Code: 0, Message: "OK"}
				case 2:
					rpc.Status = &goatorepo.ResponseStatus{Code: 9, Message: "bad"}
				}
				switch rk {
				case 1:
					rpc.Reset_ = &goatorepo.Reset{Type: "RST_STREAM"}
				case 2:
					rpc.Reset_ = &goatorepo.Reset{Type: "SOMETHING_ELSE"}
				}
				seq += fmt.Sprintf(" [h%d b%d t%d s%d r%d]", hk, bk, tk, sk, rk)
				if hk == 0 || hk == 1 {
					validForStream = false // a well-formed header: the envelope may legitimately act on the stream / start a call
				}
				if err := d.Pipe.A.Inject(rpc); err != nil {
					vsched.Fail(fam+"|harness", "inject: %v", err)
					return
				}
				vsched.Quiesce()
				if d.ServeDone {
					vsched.Fail(fam+"|serve-ended", "Serve returned (%v) after the peer sent%s (%s)", d.ServeErr, seq, where)
					return
				}
			}
			vsched.Obs("%s:%s | %s", where, seq, r.Summary())
			if where == "open-stream" && validForStream {
				// only envelopes that are not well-formed requests for this server arrived: the stream is untouched
				d.Pipe.A.Inject(env.ReqBody(id, env.MBidi, "two"))
				d.Pipe.A.Inject(env.ReqTrailer(id, env.MBidi))
				vsched.Quiesce()
				if !eqStrs(r.HRecv, []string{"one", "two"}) || !r.HReturned || r.HRet != nil || r.HStarts != 1 {
					vsched.Fail(fam+"|open-stream-disturbed", "an open echoing stream was sent%s under its id - none a well-formed request for this server; afterwards its handler had received %v (want [one two]), returned=%v err=%v", seq, r.HRecv, r.HReturned, r.HRet)
				}
			}
			if validForStream {
				// none of the envelopes had a header that makes it a request for this server: no handler may have run for them
				for _, s := range w.Stray {
					vsched.Fail(fam+"|handler-for-malformed", "after%s (%s): a handler ran for %q", seq, where, s)
				}
			}
			pu := w.Rec("probe-u", "Unary")
			d.Pipe.A.Inject(env.ReqUnary(100, "probe-u", "x"))
			ps := w.Rec("probe-s", "Bidi")
			d.Pipe.A.Inject(env.ReqOpen(101, env.MBidi, "probe-s"))
			d.Pipe.A.Inject(env.ReqBody(101, env.MBidi, "ping"))
			d.Pipe.A.Inject(env.ReqTrailer(101, env.MBidi))
			vsched.Quiesce()
			if pu.HStarts != 1 || !hasUnaryReply(d, 100, "R:probe-u|x") {
				vsched.Fail(fam+"|probe-unary", "after%s (%s): a valid unary request was not served", seq, where)
			}
			if ps.HStarts != 1 || !ps.HReturned || !eqStrs(ps.HRecv, []string{"ping"}) || !hasStreamEcho(d, 101) {
				vsched.Fail(fam+"|probe-stream", "after%s (%s): a valid bidi stream was not served: %s", seq, where, ps.Summary())
			}
			d.Pipe.A.Break()
			d.Pipe.B.Break()
			vsched.Quiesce()
			if !d.ServeDone && where != "half-closed-stream" {
				vsched.Fail(fam+"|serve-hang", "after%s (%s): Serve did not return when the transport closed; threads: %s", seq, where, threadList())
			}
		},
	}
}

// c12MethodGrammar: every method string of length <= 6 over {'/', 'a', '.'}
// (1093 strings) and a list of odd ones through the real parser: it never
// panics, and it accepts exactly the strings that contain a slash after an
// optional leading one, splitting at the last slash.
func c12MethodGrammar() *explore.Scenario {
	fam := "C12/hostile"
	return &explore.Scenario{
		Name: "C12/method-grammar", Family: fam, Prop: "C12", Once: true,
		Run: func() {
			var all []string
			var gen func(p string, n int)
			gen = func(p string, n int) {
				all = append(all, p)
				if n == 0 {
					return
				}
				for _, c := range "/a." {
					gen(p+string(c), n-1)
				}
			}
			gen("", 6)
			all = append(all, "/verif.Svc/Unary", "verif.Svc/Unary", "/Unary", "/", "//", "///", "/a/", "a/", "/a//b", " /a/b", "/a/b ", "/\x00/b", "/a/b/c/d", strings.Repeat("/", 300), "/"+strings.Repeat("s", 70000)+"/m")
			for _, m := range all {
				svc, meth, err := goat.VerifParseRawMethod(m)
				t := strings.TrimPrefix(m, "/")
				pos := strings.LastIndex(t, "/")
				switch {
				case pos < 0 && err == nil:
					vsched.Fail(fam+"|method-grammar", "method %q has no service/method separator but was parsed as (%q, %q)", m, svc, meth)
				case pos >= 0 && (err != nil || svc != t[:pos] || meth != t[pos+1:]):
					vsched.Fail(fam+"|method-grammar", "method %q parsed as (%q, %q, %v), want (%q, %q)", m, svc, meth, err, t[:pos], t[pos+1:])
				}
			}
			vsched.Count("inputs", int64(len(all)))
			vsched.Obs("method strings=%d", len(all))
		},
	}
}

// c12MethodNames: requests (unary shaped and stream-open shaped) whose method
// name is odd - only a leading slash, empty, only slashes, trailing slash, no
// service, nested - : no crash, no handler, valid requests afterwards are served.
func c12MethodNames() *explore.Scenario {
	fam := "C12/hostile"
	return &explore.Scenario{
		Name: "C12/method-names", Family: fam, Prop: "C12", Bound: 0,
		Run: func() {
			w := env.NewWorld()
			d := env.NewDirect(w, env.DirectOpts{Pipe: env.PipeOpts{Cap: 256}, NoClient: true})
			vsched.GoNamed("peer-reader", func() {
				for {
					if _, err := d.Pipe.A.Read(context.Background()); err != nil {
						return
					}
				}
			})
			vsched.Settle()
			names := []string{"/Unary", "Unary", "/", "", "//", "///", "/verif.Svc/", "verif.Svc/", "/verif.Svc", "//Unary", "/verif.Svc//Unary", "/a/verif.Svc/Unary", "/verif.Svc/Unary/", " /verif.Svc/Unary", "/VERIF.SVC/UNARY", "/verif.Svc/unary"}
			m := names[vsched.Choose(len(names))]
			shape := vsched.Choose(3)
			var rpc *env.Rpc
			switch shape {
			case 0:
				rpc = env.ReqUnary(1, "x", "x")
			case 1:
				rpc = env.ReqOpen(1, env.MBidi, "x")
			default:
				rpc = env.ReqReset(1, env.MBidi)
			}
			rpc.Header.Method = m
			d.Pipe.A.Inject(rpc)
			vsched.Quiesce()
			if d.ServeDone {
				vsched.Fail(fam+"|serve-ended", "Serve returned (%v) after a request (shape %d) for method %q", d.ServeErr, shape, m)
				return
			}
			if len(w.Stray) > 0 {
				vsched.Fail(fam+"|handler-for-malformed", "a handler ran (%v) for a request (shape %d) whose method is %q", w.Stray, shape, m)
			}
			pu := w.Rec("probe-u", "Unary")
			d.Pipe.A.Inject(env.ReqUnary(100, "probe-u", "x"))
			vsched.Quiesce()
			vsched.Obs("method %q shape %d: probe=%d", m, shape, pu.HStarts)
			if pu.HStarts != 1 || !hasUnaryReply(d, 100, "R:probe-u|x") {
				vsched.Fail(fam+"|probe-unary", "after a request for method %q: a valid unary request was not served", m)
			}
			d.Pipe.A.Break()
			d.Pipe.B.Break()
			vsched.Quiesce()
			if !d.ServeDone {
				vsched.Fail(fam+"|serve-hang", "after a request for method %q: Serve did not return when the transport closed", m)
			}
		},
	}
}

// c12ResetsUnread: the peer sends bodies for streams the server does not know
// and does NOT read the server's answers, so the resets queue up behind a
// writer that is stuck in the transport; then the connection ends. No crash
// (a second connection of the same Server keeps working), Serve returns.
func c12ResetsUnread(prop, end string, bound int) *explore.Scenario {
	fam := "C12/hostile"
	if prop != "C12" {
		fam = prop + "/resets-unread"
	}
	return &explore.Scenario{
		Name: prop + "/resets-unread/end=" + end, Family: fam, Prop: prop, Bound: bound,
		Run: func() {
			w := env.NewWorld()
			d := env.NewDirect(w, env.DirectOpts{Pipe: env.PipeOpts{Cap: 0}, NoClient: true})
			p2 := env.NewPipe(d.Tap, env.PipeOpts{Name: "w2", Cap: 16})
			s2 := false
			vsched.GoNamed("serve2", func() { d.Srv.Serve(context.Background(), p2.B); s2 = true })
			vsched.GoNamed("peer2-reader", func() {
				for {
					if _, err := p2.A.Read(context.Background()); err != nil {
						return
					}
				}
			})
			vsched.Settle()
			vsched.Explore(true)
			vsched.GoNamed("peer", func() {
				for id := uint64(5); id <= 7; id++ {
					if d.Pipe.A.Inject(env.ReqBody(id, env.MBidi, "x")) != nil {
						return
					}
				}
			})
			vsched.Quiesce() // nobody reads the server's side: its writer is stuck on the first reset
			switch end {
			case "stop":
				// (Stop would end the other connection too: use the first connection's own context)
				d.StopServe()
				d.Pipe.B.Break()
			case "write-fails":
				d.Pipe.B.Break()
			case "read-fails":
				d.Pipe.A.Break()
				d.Pipe.B.Break()
			}
			vsched.Quiesce()
			if !d.ServeDone {
				vsched.Fail(fam+"|serve-hang", "bodies for unknown streams whose resets nobody read, then the connection ended (%s): Serve did not return; threads: %s", end, threadList())
			}
			pu := w.Rec("probe-u", "Unary")
			p2.A.Inject(env.ReqUnary(100, "probe-u", "x"))
			vsched.Quiesce()
			if pu.HStarts != 1 {
				vsched.Fail(fam+"|probe-unary", "after the first connection ended (%s) a valid request on a second connection of the same Server was not served", end)
			}
			d.Pipe.A.Break() // (releases the scripted peer if it is still offering an envelope)
			p2.A.Break()
			p2.B.Break()
			vsched.Quiesce()
			if !s2 {
				vsched.Fail(fam+"|serve-hang", "the second connection's Serve did not return")
			}
			if ts := vsched.Threads(); len(ts) > 0 && d.ServeDone && s2 {
				vsched.Fail(fam+"|goroutine-leak", "resets nobody read, then the connection ended (%s): after both Serve calls returned, goroutines remain: %s", end, threadList())
			}
		},
	}
}

// c12Long: long conversations (hundreds of envelopes on one connection) under the default
// schedule. mode "repeat": every shape 12 times in a row on fresh ids; "cycle": the whole
// alphabet three times over on ids 1 and 2; "cycle-fresh": the same on fresh ids. After every
// hostile envelope a valid unary request on a fresh id must be served and Serve must still run;
// at the end the usual probes and close.
func c12Long(mode string) *explore.Scenario {
	fam := "C12/hostile"
	return &explore.Scenario{
		Name: "C12/long/" + mode, Family: fam, Prop: "C12", Bound: 0,
		Run: func() {
			w := env.NewWorld()
			d := env.NewDirect(w, env.DirectOpts{Pipe: env.PipeOpts{Cap: 256}, NoClient: true})
			vsched.GoNamed("peer-reader", func() {
				for {
					if _, err := d.Pipe.A.Read(context.Background()); err != nil {
						return
					}
				}
			})
			vsched.Settle()
			type step struct {
				si int
				id uint64
			}
			var steps []step
			next := uint64(1000)
			switch mode {
			case "repeat":
				for si := range c12Shapes {
					for k := 0; k < 12; k++ {
						next++
						steps = append(steps, step{si, next})
					}
				}
			case "cycle":
				for pass := 0; pass < 3; pass++ {
					for si := range c12Shapes {
						steps = append(steps, step{si, uint64(1 + (si+pass)%2)})
					}
				}
			case "cycle-fresh":
				for pass := 0; pass < 3; pass++ {
					for si := range c12Shapes {
						next++
						steps = append(steps, step{si, next})
					}
				}
			}
			probeID := uint64(500000)
			for n, st := range steps {
				sh := c12Shapes[st.si]
				tag := fmt.Sprintf("p%d", n)
				if sh.unaryMust || sh.unaryMay {
					w.Rec(tag, "Unary")
				}
				if sh.opens || sh.opensMay {
					w.Rec(tag, sh.streamKind())
				}
				if err := d.Pipe.A.Inject(sh.build(st.id, tag)); err != nil {
					vsched.Fail(fam+"|harness", "inject failed: %v", err)
					return
				}
				vsched.Quiesce()
				probeID++
				ptag := fmt.Sprintf("q%d", n)
				pr := w.Rec(ptag, "Unary")
				d.Pipe.A.Inject(env.ReqUnary(probeID, ptag, "x"))
				vsched.Quiesce()
				if d.ServeDone {
					vsched.Fail(fam+"|serve-ended", "long conversation (%s): Serve returned (%v) after envelope %d (%s@%d)", mode, d.ServeErr, n, sh.name, st.id)
					return
				}
				if pr.HStarts != 1 || !hasUnaryReply(d, probeID, "R:"+ptag+"|x") {
					vsched.Fail(fam+"|probe-unary", "long conversation (%s): after envelope %d (%s@%d) a valid unary request was not served (handler runs %d)", mode, n, sh.name, st.id, pr.HStarts)
					return
				}
			}
			for _, s := range w.Stray {
				if s != "unary:" {
					vsched.Fail(fam+"|handler-for-malformed", "long conversation (%s): a handler ran for a request that is not well-formed/addressed to this server: %q", mode, s)
				}
			}
			ps := w.Rec("probe-s", "Bidi")
			d.Pipe.A.Inject(env.ReqOpen(900001, env.MBidi, "probe-s"))
			d.Pipe.A.Inject(env.ReqBody(900001, env.MBidi, "ping"))
			d.Pipe.A.Inject(env.ReqTrailer(900001, env.MBidi))
			vsched.Quiesce()
			vsched.Obs("%s: %d envelopes, probe-s recv=%v ret=%v", mode, len(steps), ps.HRecv, ps.HReturned)
			if ps.HStarts != 1 || !ps.HReturned || !eqStrs(ps.HRecv, []string{"ping"}) || !hasStreamEcho(d, 900001) {
				vsched.Fail(fam+"|probe-stream", "long conversation (%s): a valid bidi stream was not served afterwards: %s", mode, ps.Summary())
			}
			d.Pipe.A.Break()
			d.Pipe.B.Break()
			vsched.Quiesce()
			if !d.ServeDone {
				vsched.Fail(fam+"|serve-hang", "long conversation (%s): Serve did not return when the transport closed; threads: %s", mode, threadList())
			}
		},
	}
}

// c12ExpiredStream: a stream whose own grpc-timeout passes while its handler is still running;
// the handler then returns (with the deadline's status). writerBusy: at that moment the
// connection's writer is occupied - an earlier reply is still waiting for the peer to read.
// One stream running out of time is that stream's business: the connection goes on, earlier
// and later valid requests are answered, Serve keeps running until the transport closes.
func c12ExpiredStream(writerBusy bool, bound int) *explore.Scenario {
	fam := "C12/hostile"
	return &explore.Scenario{
		Name: fmt.Sprintf("C12/expired-stream/writer-busy=%v", writerBusy), Family: fam, Prop: "C12", Bound: bound, Horizon: time.Hour,
		Run: func() {
			w := env.NewWorld()
			d := env.NewDirect(w, env.DirectOpts{Pipe: env.PipeOpts{Cap: 0}, NoClient: true})
			reading := make(chan struct{})
			var replies []*env.Rpc
			vsched.GoNamed("peer-reader", func() {
				if writerBusy {
					<-reading
				}
				for {
					r, err := d.Pipe.A.Read(context.Background())
					if err != nil {
						return
					}
					replies = append(replies, r)
				}
			})
			rs := w.Rec("s", "Bidi")
			release := make(chan struct{})
			w.Handlers["s"] = func(r *env.Rec, ss grpc.ServerStream) error {
				<-release
				return status.FromContextError(ss.Context().Err()).Err()
			}
			p0 := w.Rec("p0", "Unary")
			vsched.Settle()
			vsched.Explore(true)
			d.Pipe.A.Inject(env.ReqUnary(1, "p0", "x")) // its reply occupies the writer while nobody reads
			vsched.Quiesce()
			open := env.ReqOpen(2, env.MBidi, "s")
			open.Header.Headers = append(open.Header.Headers, &goatorepo.KeyValue{Key: "grpc-timeout", Value: "50m"})
			d.Pipe.A.Inject(open)
			vsched.QuiesceTime() // the stream's deadline passes
			if rs.HCtx == nil || rs.HCtx.Err() == nil {
				vsched.Fail(fam+"|harness", "the stream's deadline did not pass")
				return
			}
			close(release) // the handler returns: its trailer has to wait for the writer
			vsched.QuiesceTime()
			if writerBusy {
				close(reading)
			}
			vsched.Quiesce()
			p1 := w.Rec("p1", "Unary")
			d.Pipe.A.Inject(env.ReqUnary(3, "p1", "x"))
			vsched.Quiesce()
			got := map[uint64]int{}
			for _, r := range replies {
				got[r.GetId()]++
			}
			vsched.Obs("writer busy=%v: serveDone=%v p0=%d p1=%d replies by id %v", writerBusy, d.ServeDone, p0.HStarts, p1.HStarts, got)
			if d.ServeDone {
				vsched.Fail(fam+"|serve-ended", "a stream ran past its own grpc-timeout and its handler then returned (writer busy=%v): Serve returned (%v)", writerBusy, d.ServeErr)
			}
			if p0.HStarts != 1 || got[1] != 1 {
				vsched.Fail(fam+"|earlier-reply-lost", "the unary request sent before the stream timed out: handler runs %d, replies received %d", p0.HStarts, got[1])
			}
			if p1.HStarts != 1 || got[3] != 1 {
				vsched.Fail(fam+"|probe-unary", "after a stream timed out (writer busy=%v) a valid unary request was not served: handler runs %d, replies received %d", writerBusy, p1.HStarts, got[3])
			}
			d.Pipe.A.Break()
			d.Pipe.B.Break()
			vsched.Quiesce()
			if !d.ServeDone {
				vsched.Fail(fam+"|serve-hang", "Serve did not return when the transport closed; threads: %s", threadList())
			}
		},
	}
}
