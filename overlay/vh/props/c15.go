package props

import (
	"context"
	"fmt"
	"google.golang.org/grpc"
	"google.golang.org/grpc/metadata"

	"github.com/avos-io/goat/vh/env"
	"github.com/avos-io/goat/vrt/explore"
	"github.com/avos-io/goat/vrt/vsched"
)

func init() { register("C15", c15) }

// C15 re-runs workloads of the other properties with the scheduler's
// happens-before race detector switched on: every explored schedule is
// checked for conflicting accesses to goat's struct fields and maps that no
// chain of synchronisation operations orders.
func c15(tier string) []*explore.Scenario {
	pick := func(l []*explore.Scenario, names ...string) []*explore.Scenario {
		var out []*explore.Scenario
		for _, sc := range l {
			for _, n := range names {
				if n == "*" || containsStr(sc.Name, n) {
					out = append(out, sc)
					break
				}
			}
		}
		return out
	}
	var lists [][]*explore.Scenario
	lists = append(lists,
		pick(c01(tier), "k=2/cap=64/ser=false/startup=false/size=0", "k=3/cap=0", "startup=true", "k=8"),
		pick(c02(tier), "concurrent/echo/n=2", "pingpong/echo/n=2", "retearly/n=2/m=1", "burst/n=1/m=2", "collect/n=2", "pingpong/echo/n=1/m=0/Bidi"),
		pick(c07(tier), "pingpong/at=2/cap=64/others=1", "pingpong/at=4/cap=0", "sendall/at=3", "unread/m=2/read=1/other=true", "deadline/rounds=1"),
		pick(c09(tier), "1u1s/failafter=2", "2u/failafter=1", "1s/failafter=1"),
		pick(c10(tier), `set="URX"`, `set="oS"`, `set="ZR"`),
		pick(c11(tier), "handler-returns/n=2/k=0/herr=false", "caller-cancels/n=2/k=1"),
		pick(c03(tier), "early-error/concurrent/n=2/k=1"),
		pick(c16(tier), "unary+stream", "2streams/preattach=false"),
		pick(c17(tier), "bad-peer/failing-writer", "bad-peer/slow-dial", "reattach/before", "shutdown/after=2"),
		pick(c18(tier), "delivery/keys=2/per=2/late=false", "cancel/after=0/concurrent=true", "stop/after=1"),
		pick(c19(tier), "http/duplex", "http/idle-timeout/pending=both", "channel/cap=1", "tick-vs-registration", "source-mapper"),
		pick(c20(tier), "stats/handlers=2/d=1", "chain-overlap/n=2"),
		pick(c04(tier), "header-race"),
		pick(c14(tier), "batch/k=16/rounds=2/d=0"),
		pick(c12(tier), "interference"),
		// scale: buffers full and overflowing, pools exhausted, many calls in flight
		pick(c01(tier), "gated-proxy/k=64", "gated-demux/k=40", "gated-direct/k=32"),
		pick(c16(tier), "burst/n=50", "many/clients=8", "dial-backlog/n=12"),
		pick(c17(tier), "bad-peer/stuck-writer-flood"),
		pick(c09(tier), "many/unary=40/streams=8/writefails=false"),
		pick(c02(tier), "cap=64/Bidi/concurrent/echo/n=200", "cap=0/SStream/sendall/burst/n=1/m=200"),
		pick(c10(tier), `set="UUUUUUUURRRRRRRR"/stop@16`, `set="UUUUUUUUUo"`),
		pick(c18(tier), "delivery/keys=8/per=2"),
		pick(c08(tier), "C08/concurrent/k=3", "C08/concurrent/k=8", "C08/queued/busy=8/wait=400ms", "C08/concurrent-raw/"),
	)
	all := donors("C15", lists...)
	var out []*explore.Scenario
	seen := map[string]bool{}
	for _, sc := range all {
		if !seen[sc.Name] {
			seen[sc.Name] = true
			out = append(out, sc)
		}
	}
	out = append(out, c15ProxyAttach(), c15StreamThreeThreads(), c15LateReplyVsNewCalls(2), c15UnaryHeaderRace())
	for _, sc := range out {
		sc.Race = true
		if sc.Bound > 1 && tier != "thorough" && !containsStr(sc.Name, "late-replies-vs-new-calls") && !containsStr(sc.Name, "header-race/concurrent-se") && !containsStr(sc.Name, "handler-goroutine-headers") { // (that one is small: 2 deviations in the quick tier too)
			sc.Bound = 1
		}
	}
	return out
}

func containsStr(s, sub string) bool {
	return len(sub) <= len(s) && (func() bool {
		for i := 0; i+len(sub) <= len(s); i++ {
			if s[i:i+len(sub)] == sub {
				return true
			}
		}
		return false
	})()
}

// c15ProxyAttach: a peer is attached while the proxy is forwarding.
func c15ProxyAttach() *explore.Scenario {
	return &explore.Scenario{
		Name: "C15/proxy/attach-during-traffic", Family: "C15/api", Prop: "C15", Bound: 1,
		Run: func() {
			t, peers := c17Env(4)
			vsched.Settle()
			vsched.Explore(true)
			vsched.GoNamed("peer-a", func() {
				peers["a"].A.Inject(c17Msg(1, "a", "b"))
				peers["a"].A.Inject(c17Msg(2, "a", "c"))
				peers["a"].A.Inject(c17Msg(3, "a", "b"))
			})
			pc := env.NewPipe(t.Tap, env.PipeOpts{Name: "c", Cap: 4})
			t.Proxy.AddClient("c", pc.B)
			vsched.Quiesce()
			t.Cancel()
			vsched.Quiesce()
		},
	}
}

// c15StreamThreeThreads: one sending, one receiving goroutine and Header()
// from a third, as the gRPC API permits.
func c15StreamThreeThreads() *explore.Scenario {
	return &explore.Scenario{
		Name: "C15/stream/sender-receiver-header", Family: "C15/api", Prop: "C15", Bound: 1,
		Run: func() {
			w := env.NewWorld()
			env.MsgSize = 0
			d := env.NewDirect(w, env.DirectOpts{Pipe: env.PipeOpts{Cap: 64}})
			vsched.Settle()
			vsched.Explore(true)
			r := w.Rec("s", "Bidi")
			w.Handlers["s"] = env.HEcho
			cs := w.Open(d.CC, context.Background(), r)
			if cs == nil {
				return
			}
			vsched.GoNamed("sender", func() {
				env.CSend(r, cs, "m0")
				env.CSend(r, cs, "m1")
				env.CClose(r, cs)
			})
			vsched.GoNamed("receiver", func() {
				env.CRecvAll(r, cs)
				_ = cs.Trailer()
			})
			vsched.GoNamed("header", func() { cs.Header() })
			vsched.Quiesce()
		},
	}
}

// c15LateReplyVsNewCalls: against a scripted peer. Call a has finished; the peer then sends envelopes
// nobody waits for (a second reply for a, an envelope for an id never issued, a message for a stream that
// was cancelled) while new calls - a unary one and a stream - are being started on the connection.
func c15LateReplyVsNewCalls(bound int) *explore.Scenario {
	return &explore.Scenario{
		Name: fmt.Sprintf("C15/client/late-replies-vs-new-calls/d=%d", bound), Family: "C15/api", Prop: "C15", Bound: bound,
		Run: func() {
			w := env.NewWorld()
			env.MsgSize = 0
			d := env.NewDirect(w, env.DirectOpts{Pipe: env.PipeOpts{Cap: 64}, NoServer: true})
			vsched.GoNamed("peer-reader", func() {
				for {
					if _, err := d.Pipe.B.Read(context.Background()); err != nil {
						return
					}
				}
			})
			vsched.Settle()
			a := w.Rec("a", "Unary")
			vsched.GoNamed("caller-a", func() { w.CallUnary(d.CC, context.Background(), a, "x") })
			vsched.Settle()
			d.Pipe.B.Inject(env.RespUnary(1, "R:a|x"))
			sc := w.Rec("sc", "Bidi")
			sctx, scancel := context.WithCancel(context.Background())
			vsched.GoNamed("caller-sc", func() { w.Open(d.CC, sctx, sc) })
			vsched.Settle()
			scancel() // stream id 2 is cancelled: what the peer still sends for it finds nobody
			vsched.Settle()
			vsched.Explore(true)
			vsched.GoNamed("peer", func() {
				d.Pipe.B.Inject(env.RespUnary(1, "R:a|x"))
				d.Pipe.B.Inject(env.RespBody(2, env.MBidi, "late"))
				d.Pipe.B.Inject(env.RespUnary(99, "stray"))
			})
			b := w.Rec("b", "Unary")
			bctx, bcancel := context.WithCancel(context.Background())
			vsched.GoNamed("caller-b", func() { w.CallUnary(d.CC, bctx, b, "x") })
			s2 := w.Rec("s2", "Bidi")
			s2ctx, s2cancel := context.WithCancel(context.Background())
			vsched.GoNamed("caller-s2", func() { w.Open(d.CC, s2ctx, s2) })
			vsched.Quiesce()
			bcancel()
			s2cancel()
			vsched.Quiesce()
			d.Pipe.A.Break()
			d.Pipe.B.Break()
			vsched.Quiesce()
		},
	}
}

// c15UnaryHeaderRace: a unary handler whose helper goroutine sets headers while the handler itself sends them (and
// sets a trailer), joined before the handler returns - every call is allowed by the API at that time.
func c15UnaryHeaderRace() *explore.Scenario {
	return &explore.Scenario{
		Name: "C15/unary/handler-goroutine-headers", Family: "C15/api", Prop: "C15", Bound: 2,
		Run: func() {
			w := env.NewWorld()
			env.MsgSize = 0
			d := env.NewDirect(w, env.DirectOpts{Pipe: env.PipeOpts{Cap: 64}})
			vsched.Settle()
			vsched.Explore(true)
			r := w.Rec("u", "Unary")
			w.Unaries["u"] = func(r *env.Rec, ctx context.Context, in string) (string, error) {
				done := make(chan struct{})
				vsched.GoNamed("handler-helper", func() {
					grpc.SetHeader(ctx, metadata.MD{"a": {"1"}})
					grpc.SetTrailer(ctx, metadata.MD{"t": {"1"}})
					close(done)
				})
				grpc.SendHeader(ctx, metadata.MD{"b": {"2"}})
				grpc.SetHeader(ctx, metadata.MD{"c": {"3"}})
				<-done
				return "R:" + in, nil
			}
			w.CallUnary(d.CC, context.Background(), r, "x")
			d.Pipe.A.Break()
			d.Pipe.B.Break()
			vsched.Quiesce()
		},
	}
}
