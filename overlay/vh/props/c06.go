package props

import (
	"strings"

	"github.com/avos-io/goat/vrt/explore"
)

func init() { register("C06", c06) }

// C06 re-runs the drivers of the other properties with the wire-protocol
// automaton as the only reporting oracle.
func c06(tier string) []*explore.Scenario {
	var out []*explore.Scenario
	for _, sc := range c06All(tier) {
		if !strings.Contains(sc.Name, "/repeated-ops") { // (a second CloseSend puts a second half-close on the wire: the application's doing, not judged here)
			out = append(out, sc)
		}
	}
	return out
}

func c06All(tier string) []*explore.Scenario {
	return donors("C06", c01(tier), c02(tier), c11(tier), c07(tier), c03(tier), c04(tier), c09(tier), c14idle(tier), apiSeqs("C06", tier), handlerSeqs("C06", tier),
		[]*explore.Scenario{expiredStream("C06", "none", 1), expiredStream("C06", "stop", 1)}, c14AfterCancelAll())
}

// the idle-fixpoint scenarios of C14 (not its long history)
func c14idle(tier string) []*explore.Scenario {
	var out []*explore.Scenario
	for _, sc := range c14(tier) {
		if !sc.Once && strings.Contains(sc.Name, "idle-fixpoint") {
			out = append(out, sc) // (not the batches, which run without a wire tap, nor C14's copies of the operation-sequence families)
		}
	}
	return out
}

// handlers that go on using their stream (headers, messages, trailers) after their context has ended
func c14AfterCancelAll() []*explore.Scenario {
	var out []*explore.Scenario
	for _, ops := range []string{"h", "H", "s", "t", "hs", "Hs", "sh", "ts", "hh", "hts"} {
		out = append(out, c14AfterCancel(ops, 1))
	}
	return out
}
