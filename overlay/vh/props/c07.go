package props

import (
	"context"
	"errors"
	"fmt"
	"io"
	"time"

	"google.golang.org/grpc"
	"google.golang.org/grpc/codes"
	"google.golang.org/grpc/metadata"
	"google.golang.org/grpc/status"

	"github.com/avos-io/goat/vh/env"
	"github.com/avos-io/goat/vrt/explore"
	"github.com/avos-io/goat/vrt/vctx"
	"github.com/avos-io/goat/vrt/vsched"
)

func init() { register("C07", c07) }

// c07Prog: caller op script + handler program.  Ops: S send, R receive, C half-close.
type c07Prog struct {
	name, kind, ops string
	handler         func(m int) func(*env.Rec, grpc.ServerStream) error
	events          int // wire events of the fault-free run
}

func hBurstThenBlock(m int) func(*env.Rec, grpc.ServerStream) error {
	return func(r *env.Rec, ss grpc.ServerStream) error {
		for i := 0; i < m; i++ {
			if err := ss.SendMsg(env.S(fmt.Sprintf("b%d", i))); err != nil {
				r.HSendErr = err
				return err
			}
			r.HSent = append(r.HSent, fmt.Sprintf("b%d", i))
		}
		<-ss.Context().Done()
		return status.FromContextError(ss.Context().Err()).Err()
	}
}

// hMdSendUntilErr: sets response metadata, sends n messages, gives up at the first failing send.
func hMdSendUntilErr(n int) func(*env.Rec, grpc.ServerStream) error {
	return func(r *env.Rec, ss grpc.ServerStream) error {
		// (a binary entry spelled in mixed case, as an MD literal allows, with a value that is not itself base64)
		ss.SetHeader(metadata.MD{"resp-md": {"v"}, "Blob-Bin": {"\x00\xffnot base64!"}})
		ss.SetTrailer(metadata.MD{"resp-trailer": {"t"}, "T-BIN": {"\xfe!"}})
		if _, err := recvOne(r, ss); err != nil && err != io.EOF {
			return err
		}
		for i := 0; i < n; i++ {
			if err := ss.SendMsg(env.S(fmt.Sprintf("b%d", i))); err != nil {
				r.HSendErr = err
				return status.Error(codes.Aborted, "send failed: "+err.Error())
			}
			r.HSent = append(r.HSent, fmt.Sprintf("b%d", i))
		}
		return nil
	}
}

func recvOne(r *env.Rec, ss grpc.ServerStream) (string, error) {
	m := new(env.Msg)
	if err := ss.RecvMsg(m); err != nil {
		r.HRecvErr = err
		return "", err
	}
	r.HRecv = append(r.HRecv, string(m.Value))
	return string(m.Value), nil
}

var c07Progs = []c07Prog{
	{"mdburst", "SStream", "SCRRR", func(int) func(*env.Rec, grpc.ServerStream) error { return hMdSendUntilErr(3) }, 7},
	{"pingpong", "Bidi", "SRSRCR", func(int) func(*env.Rec, grpc.ServerStream) error { return env.HEcho }, 7},
	{"sendall", "Bidi", "SSCRRR", func(int) func(*env.Rec, grpc.ServerStream) error { return env.HEcho }, 7},
	{"sstream", "SStream", "SCRRR", func(int) func(*env.Rec, grpc.ServerStream) error { return env.HBurst(2) }, 6},
	{"cstream", "CStream", "SSCRR", func(int) func(*env.Rec, grpc.ServerStream) error { return env.HCollect }, 6},
}

type c07Op struct {
	op    byte
	after bool // invoked after cancel() had returned / the deadline had passed
	err   error
	msg   string
}

func c07(tier string) []*explore.Scenario {
	var out []*explore.Scenario
	bound := 1
	if tier == "thorough" {
		bound = 2
	}
	for _, p := range c07Progs {
		for k := 0; k <= p.events; k++ {
			for _, cp := range []int{0, 64} {
				out = append(out, c07Cancel(p, k, cp, 0, bound))
			}
			if p.name == "pingpong" {
				out = append(out, c07Cancel(p, k, 64, 1, bound))
				// a transport that, like goat's channel transport, lets a done context merely compete with the queue
				out = append(out, c07CancelT(p, k, 64, 0, bound, true))
				out = append(out, c07CancelD(p, k, 64, 0, bound, false, true))
			}
		}
	}
	// responses queued unread when the cancellation lands
	maxUnread := 2
	if tier == "thorough" {
		maxUnread = 5
	}
	for m := 0; m <= maxUnread; m++ {
		for read := 0; read <= m && read <= 1; read++ {
			out = append(out, c07Unread(m, read, false, bound), c07Unread(m, read, true, bound))
		}
	}
	if tier != "thorough" {
		// the rest of the statement's range (0..5 unread) under the default schedule
		for m := 3; m <= 5; m++ {
			out = append(out, c07Unread(m, 0, false, 0), c07Unread(m, 1, true, 0))
		}
	}
	// deadline expiry while blocked at each position of the ping-pong
	for j := 0; j <= 2; j++ {
		out = append(out, c07Deadline(j, bound, false), c07Deadline(j, bound, true))
	}
	// another call's responses sit unread (its caller is slow) when the cancellation lands
	for m := 1; m <= 4; m++ {
		out = append(out, c07OtherUnread(m, bound))
	}
	// the context handed to Serve has a deadline (earlier / later than the call's own): a cancel still reaches the handler
	for _, serve := range []time.Duration{10 * time.Minute, 3 * time.Hour} {
		for _, call := range []time.Duration{0, time.Hour} {
			out = append(out, c07ServeDeadline(serve, call, bound))
		}
	}
	// a stream that has been open for a while (longer than any internal timeout) before it is cancelled
	for _, age := range []time.Duration{29 * time.Second, 31 * time.Second, time.Hour} {
		out = append(out, c07OldStream(age, bound))
	}
	// calls started on a context that is already over
	for _, kind := range []string{"Unary", "Bidi", "SStream", "CStream"} {
		for _, how := range []string{"cancelled", "expired"} {
			for _, ctxRace := range []bool{false, true} {
				out = append(out, c07PreDone(kind, how, ctxRace, bound))
			}
		}
	}
	// over the HTTP transport: the reset of a cancelled stream parked across its own write timeout
	out = append(out, httpResetAcrossTimeout("C07"))
	out = append(out, apiSeqs("C07", tier)...)
	// the same cancellations on a connection with a history
	out = append(out, withHistory(historyKinds(tier), pickScenarios(out, "cancel/pingpong/at=2/cap=64/others=0/ctxrace=false/deadline=false", "cancel/sendall/at=3/cap=0/others=0/ctxrace=false/deadline=false",
		"unread/m=2/read=1/other=false", "deadline/rounds=1/deaf=false", "predone/Bidi")...)...)
	out = append(out, withConfig(configKinds(tier), pickScenarios(out, "cancel/pingpong/at=2/cap=64/others=0/ctxrace=false/deadline=false", "cancel/sendall/at=3/cap=0/others=0/ctxrace=false/deadline=false",
		"unread/m=2/read=1/other=false", "deadline/rounds=1/deaf=false", "predone/Bidi")...)...)
	// double faults: an operation inside the transport's Write when the context ends / the read side fails, and the fate of that write
	out = append(out, opInWriteAll("C07", 1)...)
	for _, kind := range []string{"Bidi", "SStream", "CStream", "Unary"} {
		out = append(out, foreignContextCancel("C07", kind, 2))
	}
	// finer granularity (a scheduling point after every Unlock as well) on the small core scenarios
	out = append(out, fineGrained(pickScenarios(out, "cancel/pingpong/at=2/cap=64/others=0/ctxrace=false/deadline=false", "unread/m=2/read=1/other=false")[:2]...)...)
	return out
}

// c07OtherUnread: stream B's handler has sent m responses that B's caller has
// not read yet (from 3 on, the connection's read loop is parked delivering to
// B); stream A is cancelled in that state. A's handler context must become
// done and A's reset must reach the wire without B's caller doing anything;
// afterwards B's caller reads everything.
func c07OtherUnread(m, bound int) *explore.Scenario {
	fam := "C07/other-unread"
	return &explore.Scenario{
		Name:   fmt.Sprintf("C07/other-unread/m=%d", m),
		Family: fam, Prop: "C07", Bound: bound,
		Run: func() {
			w := env.NewWorld()
			d := env.NewDirect(w, env.DirectOpts{Pipe: env.PipeOpts{Cap: 64}})
			vsched.Settle()
			vsched.Explore(true)
			ra := w.Rec("a", "Bidi")
			var actx context.Context
			w.Handlers["a"] = func(r *env.Rec, ss grpc.ServerStream) error {
				actx = ss.Context()
				<-ss.Context().Done()
				return status.FromContextError(ss.Context().Err()).Err()
			}
			rb := w.Rec("b", "SStream")
			w.Handlers["b"] = env.HBurst(m)
			ctx, cancel := context.WithCancel(context.Background())
			defer cancel()
			var csA, csB grpc.ClientStream
			vsched.GoNamed("caller-a", func() { csA = w.Open(d.CC, ctx, ra) })
			vsched.Quiesce()
			vsched.GoNamed("caller-b", func() {
				csB = w.Open(d.CC, context.Background(), rb)
				if csB != nil {
					env.CSend(rb, csB, "go")
					env.CClose(rb, csB)
				}
			})
			vsched.Quiesce() // B's responses are queued as far as they go; nobody reads them
			if csA == nil || csB == nil {
				vsched.Fail(fam+"|harness", "streams did not open: a=%v b=%v", ra.COpenErr, rb.COpenErr)
				return
			}
			var aid uint64
			for _, e := range d.Tap.Events {
				if e.Dir == "a2b" && e.Rpc.Body == nil && e.Rpc.Trailer == nil && e.Rpc.Reset_ == nil && aid == 0 {
					aid = e.Rpc.GetId()
				}
			}
			var aerr error
			adone := false
			vsched.GoNamed("caller-a2", func() {
				cancel()
				aerr = csA.RecvMsg(new(env.Msg))
				adone = true
			})
			vsched.Quiesce()
			resetSeen := false
			for _, e := range d.Tap.Events {
				if e.Dir == "a2b" && e.Rpc.GetId() == aid && e.Rpc.Reset_ != nil {
					resetSeen = true
				}
			}
			vsched.Obs("m=%d: A recv done=%v err=%s reset=%v handler-ctx-done=%v", m, adone, env.ErrStr(aerr), resetSeen, actx != nil && actx.Err() != nil)
			if !adone {
				vsched.Fail(fam+"|recv-hang", "a receive on cancelled stream A is still blocked while stream B's caller has %d responses unread; threads: %s", m, threadList())
			} else if status.Code(aerr) != codes.Canceled {
				vsched.Fail(fam+"|status", "a receive on cancelled stream A returned %s", env.ErrStr(aerr))
			}
			if !resetSeen {
				vsched.Fail(fam+"|no-reset", "stream A was cancelled while stream B's caller has %d responses unread: no reset for A reached the wire", m)
			}
			if ra.HStarts == 1 && (actx == nil || actx.Err() == nil) {
				vsched.Fail(fam+"|handler-ctx-live", "stream A was cancelled while stream B's caller has %d responses unread: A's handler still has a live context", m)
			}
			// B's caller now reads: everything arrives
			vsched.GoNamed("caller-b2", func() { env.CRecvAll(rb, csB); rb.CDone = true })
			vsched.Quiesce()
			if !rb.CDone || rb.CErr != io.EOF || len(rb.CRecv) != m {
				vsched.Fail(fam+"|bystander", "stream B (bystander) did not complete: %s", rb.Summary())
			}
			finishDirect(d, w, true)
		},
	}
}

// c07ServeDeadline: Serve was given a context with a deadline; the streaming
// call has a deadline of its own (or none); the caller cancels explicitly while
// the handler waits on its context. The handler's context becomes done, the
// reset is on the wire, the caller sees Canceled.
func c07ServeDeadline(serve, call time.Duration, bound int) *explore.Scenario {
	fam := "C07/serve-deadline"
	return &explore.Scenario{
		Name:   fmt.Sprintf("C07/serve-deadline/serve=%v/call=%v", serve, call),
		Family: fam, Prop: "C07", Bound: bound,
		Run: func() {
			w := env.NewWorld()
			d := env.NewDirect(w, env.DirectOpts{Pipe: env.PipeOpts{Cap: 64}, ServeTimeout: serve})
			vsched.Settle()
			vsched.Explore(true)
			r := w.Rec("s", "Bidi")
			var hctx context.Context
			w.Handlers["s"] = func(r *env.Rec, ss grpc.ServerStream) error {
				hctx = ss.Context()
				ss.RecvMsg(new(env.Msg))
				<-ss.Context().Done()
				return status.FromContextError(ss.Context().Err()).Err()
			}
			ctx, cancel := context.WithCancel(context.Background())
			defer cancel()
			if call > 0 {
				var c2 context.CancelFunc
				ctx, c2 = context.WithTimeout(ctx, call)
				defer c2()
			}
			var rerr error
			done := false
			var cs grpc.ClientStream
			vsched.GoNamed("caller", func() {
				cs = w.Open(d.CC, ctx, r)
				if cs != nil {
					env.CSend(r, cs, "m")
				}
			})
			vsched.Quiesce() // the handler has the message and waits on its context
			vsched.GoNamed("caller2", func() {
				if cs != nil {
					cancel()
					rerr = cs.RecvMsg(new(env.Msg))
				}
				done = true
			})
			vsched.Quiesce()
			vsched.Obs("serve=%v call=%v: done=%v err=%s handler-ctx-done=%v", serve, call, done, env.ErrStr(rerr), hctx != nil && hctx.Err() != nil)
			if !done {
				vsched.Fail(fam+"|hang", "the caller never returned; threads: %s", threadList())
			} else if status.Code(rerr) != codes.Canceled {
				vsched.Fail(fam+"|status", "a receive on the cancelled stream returned %s", env.ErrStr(rerr))
			}
			if r.HStarts == 1 && (hctx == nil || hctx.Err() == nil) {
				vsched.Fail(fam+"|handler-ctx-live", "Serve context deadline %v, call deadline %v: the caller cancelled, but the handler's context is still live", serve, call)
			}
			finishDirect(d, w, true)
		},
	}
}

// c07OldStream: the stream has been open (and idle) for `age` when its caller
// cancels. As for a young stream: Canceled for the caller, a reset on the wire,
// the handler's context done, nothing left on either side.
func c07OldStream(age time.Duration, bound int) *explore.Scenario {
	fam := "C07/old-stream"
	return &explore.Scenario{
		Name:   fmt.Sprintf("C07/old-stream/age=%v", age),
		Family: fam, Prop: "C07", Bound: bound, Horizon: 2 * time.Hour,
		Run: func() {
			w := env.NewWorld()
			d := env.NewDirect(w, env.DirectOpts{Pipe: env.PipeOpts{Cap: 64}})
			vsched.Settle()
			idle := c14State(d)
			r := w.Rec("s", "Bidi")
			var hctx context.Context
			w.Handlers["s"] = func(r *env.Rec, ss grpc.ServerStream) error {
				hctx = ss.Context()
				ss.RecvMsg(new(env.Msg))
				<-ss.Context().Done()
				return status.FromContextError(ss.Context().Err()).Err()
			}
			ctx, cancel := context.WithCancel(context.Background())
			defer cancel()
			var cs grpc.ClientStream
			vsched.GoNamed("caller", func() {
				cs = w.Open(d.CC, ctx, r)
				if cs != nil {
					env.CSend(r, cs, "m")
				}
			})
			vsched.Quiesce()
			vsched.GoNamed("time-passes", func() { vsched.SleepFor("age", age) })
			vsched.QuiesceTime()
			vsched.Explore(true)
			var rerr error
			done := false
			vsched.GoNamed("caller2", func() {
				if cs != nil {
					cancel()
					rerr = cs.RecvMsg(new(env.Msg))
				}
				done = true
			})
			vsched.Quiesce()
			resetSeen := false
			for _, e := range d.Tap.Events {
				if e.Dir == "a2b" && e.Rpc.Reset_ != nil {
					resetSeen = true
				}
			}
			vsched.Obs("age=%v: done=%v err=%s reset=%v handler-ctx-done=%v", age, done, env.ErrStr(rerr), resetSeen, hctx != nil && hctx.Err() != nil)
			if !done || status.Code(rerr) != codes.Canceled {
				vsched.Fail(fam+"|status", "a receive on the cancelled stream: returned=%v %s", done, env.ErrStr(rerr))
			}
			if !resetSeen {
				vsched.Fail(fam+"|no-reset", "a stream cancelled %v after it was opened: no reset reached the wire", age)
			}
			if r.HStarts == 1 && (hctx == nil || hctx.Err() == nil) {
				vsched.Fail(fam+"|handler-ctx-live", "a stream cancelled %v after it was opened: the handler's context is still live", age)
			}
			if st := c14State(d); st != idle {
				vsched.Fail("C14/release|not-idle:"+diffKey(idle, st)+"|old-stream", "a stream cancelled %v after it was opened: the connection did not return to its idle state:\n%s", age, diffStates(idle, st))
			}
			finishDirect(d, w, true)
		},
	}
}

// c07PreDone: the call's context is already cancelled / past its deadline
// when the call is made, on a transport that refuses writes on a done context
// and on one where a done context merely competes; a healthy call follows.
func c07PreDone(kind, how string, ctxRace bool, bound int) *explore.Scenario {
	fam := "C07/predone"
	return &explore.Scenario{
		Name:   fmt.Sprintf("C07/predone/%s/%s/ctxrace=%v", kind, how, ctxRace),
		Family: fam, Prop: "C07", Bound: bound,
		Run: func() {
			w := env.NewWorld()
			d := env.NewDirect(w, env.DirectOpts{Pipe: env.PipeOpts{Cap: 64, CtxRace: ctxRace}})
			vsched.Settle()
			vsched.Explore(true)
			ctx, cancel := context.WithCancel(context.Background())
			if how == "expired" {
				var c2 context.CancelFunc
				ctx, c2 = context.WithDeadline(ctx, time.Now().Add(-time.Second))
				defer c2()
			} else {
				cancel()
			}
			defer cancel()
			want := codes.Canceled
			if how == "expired" {
				want = codes.DeadlineExceeded
			}
			r := w.Rec("s", kind)
			var hctx context.Context
			if kind == "Unary" {
				// (a cancelled unary call is not signalled to the server: C14's recorded finding, not C07's subject)
				w.Unaries["s"] = func(r *env.Rec, c context.Context, in string) (string, error) { return "r", nil }
			} else {
				w.Handlers["s"] = func(r *env.Rec, ss grpc.ServerStream) error {
					hctx = ss.Context()
					<-ss.Context().Done()
					return status.FromContextError(ss.Context().Err()).Err()
				}
			}
			done := false
			var opErrs []string
			vsched.GoNamed("caller-s", func() {
				defer func() { done = true }()
				if kind == "Unary" {
					w.CallUnary(d.CC, ctx, r, "x")
					return
				}
				cs := w.Open(d.CC, ctx, r)
				if cs == nil {
					return
				}
				// the open went through (the transport let it race): everything after it must fail
				if err := cs.SendMsg(env.S("m")); err == nil {
					opErrs = append(opErrs, "SendMsg succeeded")
				} else if !isCtxStatus(err) && !isCtxErr(err) && err != io.EOF {
					opErrs = append(opErrs, "SendMsg: "+env.ErrStr(err))
				}
				m := new(env.Msg)
				if err := cs.RecvMsg(m); err == nil {
					opErrs = append(opErrs, "RecvMsg succeeded")
				} else {
					r.CErr = err
				}
			})
			vsched.Quiesce()
			vsched.Obs("%s %s ctxrace=%v: done=%v err=%s hstarts=%d opErrs=%v", kind, how, ctxRace, done, env.ErrStr(r.CErr), r.HStarts, opErrs)
			if !done {
				vsched.Fail(fam+"|hang", "%s call on a context that is already %s never returned; threads: %s", kind, how, threadList())
			} else if kind != "Unary" && status.Code(r.CErr) != want && !(r.CStream == nil && isCtxErr(r.CErr)) {
				// (a failed open / unary call may report the context's own error; receives on an open stream report the status)
				vsched.Fail(fam+"|status", "%s call on a context that is already %s ended with %s, want %v", kind, how, env.ErrStr(r.CErr), want)
			}
			for _, e := range opErrs {
				vsched.Fail(fam+"|op-after-done", "%s call on a context that is already %s: %s", kind, how, e)
			}
			if kind != "Unary" && r.HStarts > 0 && (hctx == nil || hctx.Err() == nil) {
				vsched.Fail(fam+"|handler-ctx-live", "%s call on a context that is already %s reached a handler whose context is still live", kind, how)
			}
			or := w.Rec("after", "Unary")
			w.CallUnary(d.CC, context.Background(), or, "x")
			checkUnary(or, "x", fam)
			finishDirect(d, w, true)
		},
	}
}

func runOps(r *env.Rec, cs grpc.ClientStream, ops string, isCancelled func() bool, log *[]c07Op, n *int) {
	for i := 0; i < len(ops); i++ {
		o := c07Op{op: ops[i], after: isCancelled()}
		switch ops[i] {
		case 'S':
			o.msg = fmt.Sprintf("%s.m%d", r.Tag, *n)
			*n++
			o.err = cs.SendMsg(env.S(o.msg))
			if o.err == nil {
				r.CSent = append(r.CSent, o.msg)
			}
		case 'C':
			o.err = cs.CloseSend()
		case 'R':
			m := new(env.Msg)
			o.err = cs.RecvMsg(m)
			if o.err == nil {
				o.msg = string(m.Value)
				r.CRecv = append(r.CRecv, o.msg)
			} else {
				r.CErr = o.err
				_ = cs.Trailer() // permitted once RecvMsg has returned an error
			}
		}
		*log = append(*log, o)
	}
}

func isCtxStatus(err error) bool {
	c := status.Code(err)
	return c == codes.Canceled || c == codes.DeadlineExceeded
}

func isCtxErr(err error) bool {
	return errors.Is(err, context.Canceled) || errors.Is(err, context.DeadlineExceeded) || isCtxStatus(err)
}

// c07Check is the C07 oracle over the op log.
func c07Check(fam string, r *env.Rec, log []c07Op, done bool, trailerBefore bool, d *env.Direct, id uint64, cancelled bool) {
	for i, o := range log {
		vsched.Obs("op%d %c after=%v err=%s msg=%q", i, o.op, o.after, env.ErrStr(o.err), o.msg)
	}
	if !done {
		vsched.Fail(fam+"|caller-hang", "the caller's operation never returned after the cancellation: %s", r.Summary())
		return
	}
	if !cancelled {
		return
	}
	// once the server has finished the stream (its trailer is on the wire) the
	// final status may stand and no reset is owed
	if serverTrailerSeen(d, id) {
		trailerBefore = true
	}
	for i, o := range log {
		if !o.after {
			continue
		}
		switch o.op {
		case 'R':
			if isCtxStatus(o.err) {
				continue
			}
			if trailerBefore && o.err != nil {
				continue // the stream had already finished: its final status stands
			}
			if o.err == nil {
				vsched.Fail(fam+"|recv-after-cancel-delivered", "RecvMsg #%d invoked after the cancellation returned message %q instead of the Canceled/DeadlineExceeded status", i, o.msg)
			} else {
				vsched.Fail(fam+"|recv-after-cancel-status", "RecvMsg #%d invoked after the cancellation returned %s, want Canceled/DeadlineExceeded", i, env.ErrStr(o.err))
			}
		case 'S', 'C':
			if o.err == nil {
				vsched.Fail(fam+"|send-after-cancel-ok", "send op #%d (%c) invoked after the cancellation succeeded", i, o.op)
			} else if !isCtxErr(o.err) && !(trailerBefore || o.err == io.EOF) {
				vsched.Fail(fam+"|send-after-cancel-error", "send op #%d (%c) invoked after the cancellation failed with %v, which is not the context's error", i, o.op, o.err)
			}
		}
	}
	// reset on the wire, unless the server's trailer was already out
	if !trailerBefore {
		reset := false
		for _, e := range d.Tap.Events {
			if e.Dir == "a2b" && e.Rpc.GetId() == id && e.Rpc.Reset_ != nil {
				reset = true
			}
		}
		if !reset {
			vsched.Fail(fam+"|no-reset", "no reset for the cancelled stream %d was sent to the server", id)
		}
	}
	if r.HStarts > 0 && !r.HReturned && !(r.HCtx != nil && vctx.IsDone(r.HCtx)) {
		vsched.Fail(fam+"|handler-ctx-live", "the handler of the cancelled stream is still running with a live context")
	}
}

func serverTrailerSeen(d *env.Direct, id uint64) bool {
	for _, e := range d.Tap.Events {
		if e.Dir == "b2a" && e.Rpc.GetId() == id && e.Rpc.Trailer != nil && e.Rpc.Reset_ == nil {
			return true
		}
	}
	return false
}

func c07Cancel(p c07Prog, k, capn, others, bound int) *explore.Scenario {
	return c07CancelT(p, k, capn, others, bound, false)
}

func c07CancelT(p c07Prog, k, capn, others, bound int, ctxRace bool) *explore.Scenario {
	return c07CancelD(p, k, capn, others, bound, ctxRace, false)
}

// withDeadline: the caller's context also has a (far) deadline, so the call carries a timeout header;
// the explicit cancel must still reach the handler at once (no clock advance).
func c07CancelD(p c07Prog, k, capn, others, bound int, ctxRace, withDeadline bool) *explore.Scenario {
	fam := "C07/cancel"
	return &explore.Scenario{
		Name:   fmt.Sprintf("C07/cancel/%s/at=%d/cap=%d/others=%d/ctxrace=%v/deadline=%v", p.name, k, capn, others, ctxRace, withDeadline),
		Family: fam, Prop: "C07", Bound: bound,
		Run: func() {
			w := env.NewWorld()
			d := env.NewDirect(w, env.DirectOpts{Pipe: env.PipeOpts{Cap: capn, CtxRace: ctxRace}})
			vsched.Settle()
			vsched.Explore(true)
			var orecs []*env.Rec
			for i := 0; i < others; i++ {
				or := w.Rec(fmt.Sprintf("o%d", i), "Unary")
				orecs = append(orecs, or)
				vsched.GoNamed("other-"+or.Tag, func() { w.CallUnary(d.CC, context.Background(), or, "x") })
			}
			r := w.Rec("s", p.kind)
			w.Handlers["s"] = p.handler(0)
			ctx, cancel := context.WithCancel(context.Background())
			if withDeadline {
				var c2 context.CancelFunc
				ctx, c2 = context.WithTimeout(ctx, 20*time.Second)
				defer c2()
			}
			cancelled, trailerBefore := false, false
			var streamID uint64
			doCancel := func() {
				trailerBefore = serverTrailerSeen(d, streamID)
				cancel()
				cancelled = true
			}
			nth := 0
			d.Pipe.OnEvent = func(n int, dir string, rpc *env.Rpc) {
				if len(rpc.GetHeader().GetHeaders()) > 0 && dir == "a2b" && streamID == 0 && rpc.Body == nil {
					streamID = rpc.GetId()
				}
				if streamID == 0 || rpc.GetId() != streamID {
					return
				}
				nth++
				if nth == k && !cancelled {
					doCancel()
				}
			}
			var log []c07Op
			done := false
			vsched.GoNamed("caller-s", func() {
				cs := w.Open(d.CC, ctx, r)
				if cs == nil {
					done = true
					return
				}
				if k == 0 {
					doCancel()
				}
				n := 0
				runOps(r, cs, p.ops, func() bool { return cancelled }, &log, &n)
				if cancelled {
					runOps(r, cs, "RSR", func() bool { return cancelled }, &log, &n)
				}
				done = true
			})
			vsched.Quiesce()
			if !cancelled {
				doCancel() // position beyond this execution's trace: after completion
				vsched.Quiesce()
			}
			c07Check(fam, r, log, done, trailerBefore, d, streamID, cancelled)
			for _, or := range orecs {
				checkUnary(or, "x", fam)
			}
			finishDirect(d, w, true)
		},
	}
}

// c07Unread: the handler has sent m responses, the caller has read `read` of
// them and then cancels (others remain queued unread).
func c07Unread(m, read int, other bool, bound int) *explore.Scenario {
	fam := "C07/unread"
	return &explore.Scenario{
		Name:   fmt.Sprintf("C07/unread/m=%d/read=%d/other=%v", m, read, other),
		Family: fam, Prop: "C07", Bound: bound,
		Run: func() {
			w := env.NewWorld()
			d := env.NewDirect(w, env.DirectOpts{Pipe: env.PipeOpts{Cap: 64}})
			vsched.Settle()
			vsched.Explore(true)
			r := w.Rec("s", "Bidi")
			w.Handlers["s"] = hBurstThenBlock(m)
			ctx, cancel := context.WithCancel(context.Background())
			cancelled := false
			var log []c07Op
			done := false
			var cs grpc.ClientStream
			n := 0
			opened := false
			vsched.GoNamed("caller-s", func() {
				cs = w.Open(d.CC, ctx, r)
				if cs == nil {
					done = true
					return
				}
				ops := ""
				for i := 0; i < read; i++ {
					ops += "R"
				}
				runOps(r, cs, ops, func() bool { return cancelled }, &log, &n)
				opened = true
			})
			var or *env.Rec
			if other {
				or = w.Rec("o", "Unary")
				vsched.GoNamed("other", func() { w.CallUnary(d.CC, context.Background(), or, "x") })
			}
			vsched.Quiesce() // responses are now queued as far as they go
			if !opened {
				vsched.Fail(fam+"|caller-hang", "caller did not get through opening and %d receives", read)
				return
			}
			var id uint64
			for _, e := range d.Tap.Events {
				if e.Dir == "a2b" && len(e.Rpc.GetHeader().GetHeaders()) > 0 && e.Rpc.Body == nil {
					id = e.Rpc.GetId()
				}
			}
			vsched.GoNamed("caller-s2", func() {
				cancel()
				cancelled = true
				runOps(r, cs, "RSRC", func() bool { return cancelled }, &log, &n)
				done = true
			})
			vsched.Quiesce()
			c07Check(fam, r, log, done, false, d, id, true)
			if or != nil {
				checkUnary(or, "x", fam)
			}
			// the connection still works
			p := w.Rec("p", "Unary")
			vsched.GoNamed("probe", func() { w.CallUnary(d.CC, context.Background(), p, "x") })
			vsched.Quiesce()
			checkUnary(p, "x", fam)
			finishDirect(d, w, true)
		},
	}
}

// c07Deadline: the caller's deadline expires while it is blocked after j rounds.
// deafHandler: the handler does not watch its context after the rounds, so the
// server never finishes the stream by itself and only the caller's deadline acts.
func c07Deadline(j, bound int, deafHandler bool) *explore.Scenario {
	fam := "C07/deadline"
	return &explore.Scenario{
		Name:   fmt.Sprintf("C07/deadline/rounds=%d/deaf=%v", j, deafHandler),
		Family: fam, Prop: "C07", Bound: bound, Horizon: time.Hour,
		Run: func() {
			w := env.NewWorld()
			d := env.NewDirect(w, env.DirectOpts{Pipe: env.PipeOpts{Cap: 64}})
			vsched.Settle()
			vsched.Explore(true)
			r := w.Rec("s", "Bidi")
			w.Handlers["s"] = env.HEcho
			release := make(chan struct{})
			if deafHandler {
				w.Handlers["s"] = func(r *env.Rec, ss grpc.ServerStream) error {
					for i := 0; i < j; i++ {
						m := new(env.Msg)
						if err := ss.RecvMsg(m); err != nil {
							return err
						}
						if err := ss.SendMsg(env.S("e:" + string(m.Value))); err != nil {
							return err
						}
					}
					<-release
					return nil
				}
			}
			ctx, cancel := context.WithTimeout(context.Background(), 100*time.Millisecond)
			defer cancel()
			start := time.Now()
			expired := func() bool { return time.Since(start) >= 100*time.Millisecond }
			var log []c07Op
			done := false
			vsched.GoNamed("caller-s", func() {
				cs := w.Open(d.CC, ctx, r)
				if cs == nil {
					done = true
					return
				}
				n := 0
				ops := ""
				for i := 0; i < j; i++ {
					ops += "SR"
				}
				ops += "R" // blocks: the echo handler has nothing to echo
				runOps(r, cs, ops, expired, &log, &n)
				runOps(r, cs, "RSRC", expired, &log, &n)
				done = true
			})
			vsched.QuiesceTime()
			var id uint64
			for _, e := range d.Tap.Events {
				if e.Dir == "a2b" && len(e.Rpc.GetHeader().GetHeaders()) > 0 && e.Rpc.Body == nil {
					id = e.Rpc.GetId()
				}
			}
			// the blocked receive itself must have returned the deadline status
			if done && len(log) > 2*j {
				if o := log[2*j]; status.Code(o.err) != codes.DeadlineExceeded && !(serverTrailerSeen(d, id) && o.err != nil) {
					vsched.Fail(fam+"|pending-recv", "the RecvMsg pending when the deadline expired returned %s", env.ErrStr(o.err))
				}
			}
			c07Check(fam, r, log, done, false, d, id, true)
			if deafHandler {
				if serverTrailerSeen(d, id) {
					vsched.Fail(fam+"|harness", "deaf handler finished by itself")
				}
				if r.HStarts > 0 && !vctx.IsDone(r.HCtx) {
					vsched.Fail(fam+"|handler-ctx-live", "the caller's deadline expired but the handler's context is still live")
				}
				close(release)
				vsched.Quiesce()
			}
			finishDirect(d, w, true)
		},
	}
}
