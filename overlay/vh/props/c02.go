package props

import (
	"context"
	"fmt"
	"io"

	"google.golang.org/grpc"

	"github.com/avos-io/goat/vh/env"
	"github.com/avos-io/goat/vrt/explore"
	"github.com/avos-io/goat/vrt/vsched"
)

func init() { register("C02", c02) }

// streamCase is one (kind, caller program, handler program) combination that
// terminates by design.
type streamCase struct {
	kind, cprog, hprog string
	n, m               int // messages caller->handler, handler->caller (where the program has such a count)
	size               int // pad messages to this many bytes (0: short)
}

func (c streamCase) name() string {
	if c.size > 0 {
		return fmt.Sprintf("%s/%s/%s/n=%d/m=%d/size=%d", c.kind, c.cprog, c.hprog, c.n, c.m, c.size)
	}
	return fmt.Sprintf("%s/%s/%s/n=%d/m=%d", c.kind, c.cprog, c.hprog, c.n, c.m)
}

func (c streamCase) handler() func(*env.Rec, grpc.ServerStream) error {
	switch c.hprog {
	case "echo":
		return env.HEcho
	case "burst":
		return env.HBurst(c.m)
	case "collect":
		return env.HCollect
	case "retearly":
		return env.HReturnAfter(c.m, nil) // m = messages read before returning
	case "sendret":
		return env.HSendThenReturn(c.m, nil)
	case "hconc":
		return env.HConcurrent(c.m, true)
	case "hconcret":
		return env.HConcurrent(c.m, false)
	}
	panic("unknown handler program " + c.hprog)
}

// runCaller runs the caller program for r (as the calling thread).
func (c streamCase) runCaller(w *env.World, cc grpc.ClientConnInterface, ctx context.Context, r *env.Rec) {
	cs := w.Open(cc, ctx, r)
	if cs == nil {
		r.CDone = true
		return
	}
	switch c.cprog {
	case "sendall":
		env.PSendAllThenRecv(c.n)(r, cs)
	case "pingpong":
		env.PPingPong(c.n)(r, cs)
	case "earlyclose":
		env.PEarlyClose(r, cs)
	case "recvfirst":
		// reads the handler's m messages before sending anything
		for i := 0; i < c.m; i++ {
			if env.CRecvOne(r, cs) != nil {
				break
			}
		}
		for i := 0; i < c.n && r.CErr == nil; i++ {
			if env.CSend(r, cs, env.Pad(fmt.Sprintf("%s.m%d", r.Tag, i))) != nil {
				break
			}
		}
		env.CClose(r, cs)
		if r.CErr == nil {
			env.CRecvAll(r, cs)
		}
		r.CDone = true
	case "concurrent":
		sent := false
		vsched.GoNamed("sender-"+r.Tag, func() {
			for i := 0; i < c.n; i++ {
				if env.CSend(r, cs, env.Pad(fmt.Sprintf("%s.m%d", r.Tag, i))) != nil {
					break
				}
			}
			env.CClose(r, cs)
			sent = true
		})
		env.CRecvAll(r, cs)
		_ = sent
		r.CDone = true
	default:
		panic("unknown caller program " + c.cprog)
	}
}

func c02Cases(maxN int) []streamCase {
	var out []streamCase
	for n := 0; n <= maxN; n++ {
		out = append(out, streamCase{"Bidi", "sendall", "echo", n, 0, 0})
		out = append(out, streamCase{"Bidi", "concurrent", "echo", n, 0, 0})
		if n > 0 {
			out = append(out, streamCase{"Bidi", "pingpong", "echo", n, 0, 0})
		}
		out = append(out, streamCase{"CStream", "sendall", "collect", n, 0, 0})
		out = append(out, streamCase{"Bidi", "concurrent", "collect", n, 0, 0})
		out = append(out, streamCase{"SStream", "sendall", "burst", 1, n, 0})
		out = append(out, streamCase{"Bidi", "earlyclose", "sendret", 0, n, 0})
		if n > 0 {
			// handler with its own receiver goroutine (waiting for it / returning with it pending)
			out = append(out, streamCase{"Bidi", "recvfirst", "hconc", n - 1, n, 0}, streamCase{"Bidi", "recvfirst", "hconcret", n - 1, n, 0},
				streamCase{"Bidi", "concurrent", "hconc", n, n, 0})
		}
		for k := 0; k < n; k++ {
			out = append(out, streamCase{"Bidi", "sendall", "retearly", n, k, 0})
			out = append(out, streamCase{"Bidi", "concurrent", "retearly", n, k, 0})
		}
	}
	return out
}

func c02(tier string) []*explore.Scenario {
	var out []*explore.Scenario
	maxN, bound := 2, 2
	if tier == "thorough" {
		maxN, bound = 3, 3
	}
	for _, c := range c02Cases(maxN) {
		for _, cp := range []int{0, 64} {
			if cp == 0 && c.cprog == "sendall" && c.hprog == "echo" && c.n > 2 {
				continue // would be a flow-control deadlock by construction of the driver, not a goat property
			}
			b := bound
			if (c.hprog == "hconc" || c.hprog == "hconcret") && c.n+c.m >= 5 {
				b = bound - 1 // a third thread on the handler side: the tree at the full bound exceeds the execution cap
			}
			out = append(out, c02One([]streamCase{c}, cp, b))
		}
	}
	// messages above 1 KiB (the codec's pooled-buffer path), by-reference and serialising transports
	for _, ser := range []bool{false, true} {
		for _, c := range []streamCase{
			{"Bidi", "sendall", "echo", 2, 0, 2000}, {"Bidi", "pingpong", "echo", 2, 0, 1100}, {"SStream", "sendall", "burst", 1, 3, 4000},
			{"Bidi", "concurrent", "echo", 2, 0, 2000}, {"CStream", "sendall", "collect", 3, 0, 1500}, {"Bidi", "earlyclose", "sendret", 0, 3, 70000},
		} {
			out = append(out, c02OneT([]streamCase{c}, 64, bound-1, ser))
		}
		out = append(out, c02OneT([]streamCase{{"SStream", "sendall", "burst", 1, 2, 2000}, {"SStream", "sendall", "burst", 1, 2, 2000}}, 64, 1, ser))
	}
	// messages that encode to zero bytes (an empty body is not an open)
	for _, c := range []streamCase{{"Bidi", "sendall", "echo", 2, 0, -1}, {"Bidi", "sendall", "retearly", 2, 0, -1}, {"Bidi", "concurrent", "retearly", 2, 1, -1},
		{"CStream", "sendall", "collect", 2, 0, -1}, {"Bidi", "sendall", "retearly", 3, 0, -1}} {
		out = append(out, c02OneT([]streamCase{c}, 64, bound, false), c02OneT([]streamCase{c}, 0, bound, true))
	}
	// two streams multiplexed on the connection
	two := [][]streamCase{
		{{"Bidi", "pingpong", "echo", 1, 0, 0}, {"Bidi", "pingpong", "echo", 1, 0, 0}},
		{{"Bidi", "sendall", "echo", 2, 0, 0}, {"SStream", "sendall", "burst", 1, 2, 0}},
		{{"CStream", "sendall", "collect", 2, 0, 0}, {"Bidi", "concurrent", "echo", 1, 0, 0}},
		{{"Bidi", "sendall", "retearly", 2, 1, 0}, {"Bidi", "pingpong", "echo", 2, 0, 0}},
	}
	for _, cs := range two {
		out = append(out, c02One(cs, 64, bound-1))
	}
	out = append(out, c16RPCFam("C02", "2streams", true, 1), c16RPCFam("C02", "unary+stream", false, 1))
	out = append(out, c02ProxyServerReattach(true, 3, 0), c02ProxyServerReattach(false, 3, 0), c02ProxyServerReattach(true, 1, 1))
	if tier == "thorough" {
		out = append(out, c02One([]streamCase{{"Bidi", "pingpong", "echo", 1, 0, 0}, {"Bidi", "pingpong", "echo", 1, 0, 0}, {"Bidi", "pingpong", "echo", 1, 0, 0}}, 64, 1))
		long2 := c02One([]streamCase{{"Bidi", "sendall", "echo", 40, 0, 0}}, 64, 1)
		long2.SelectCost = true
		out = append(out, long2)
	}
	// scale, under the default schedule: streams of 200 messages of every kind and program that
	// does not need flow control, and 32 streams multiplexed at once (same and mixed kinds)
	for _, c := range []streamCase{{"Bidi", "pingpong", "echo", 200, 0, 0}, {"Bidi", "concurrent", "echo", 200, 0, 0}, {"SStream", "sendall", "burst", 1, 200, 0},
		{"CStream", "sendall", "collect", 200, 0, 0}, {"Bidi", "concurrent", "collect", 200, 0, 0}, {"Bidi", "earlyclose", "sendret", 0, 200, 0}, {"Bidi", "concurrent", "retearly", 200, 100, 0}} {
		for _, cp := range []int{0, 64} {
			long := c02One([]streamCase{c}, cp, 0)
			long.SelectCost = true
			out = append(out, long)
		}
	}
	// medium scale with one deviation (buffers of 16 overflow, spawned helpers may be delayed)
	for _, c := range []streamCase{{"CStream", "sendall", "collect", 24, 0, 0}, {"SStream", "sendall", "burst", 1, 24, 0}, {"Bidi", "concurrent", "echo", 20, 0, 0}} {
		for _, cp := range []int{0, 64} {
			sc := c02One([]streamCase{c}, cp, 1)
			sc.SelectCost = true
			out = append(out, sc)
		}
	}
	// the same through a demultiplexer, with handlers that keep up and handlers that start late
	for _, c := range []streamCase{{"CStream", "sendall", "collect", 200, 0, 0}, {"Bidi", "concurrent", "echo", 200, 0, 0}, {"Bidi", "concurrent", "collect", 40, 0, 0},
		{"SStream", "sendall", "burst", 1, 200, 0}, {"Bidi", "pingpong", "echo", 20, 0, 0}} {
		for _, cp := range []int{0, 64} {
			out = append(out, c02ViaDemux(c, cp, false, 0), c02ViaDemux(c, cp, true, 0))
		}
	}
	out = append(out, c02ViaDemux(streamCase{"CStream", "sendall", "collect", 24, 0, 0}, 64, false, 1), c02ViaDemux(streamCase{"CStream", "sendall", "collect", 24, 0, 0}, 64, true, 1))
	out = append(out, c02ViaDemux(streamCase{"CStream", "sendall", "collect", 3, 0, 0}, 64, true, 1), c02ViaDemux(streamCase{"Bidi", "concurrent", "echo", 2, 0, 0}, 0, true, 1))
	for _, mixed := range []bool{false, true} {
		var many []streamCase
		for i := 0; i < 32; i++ {
			c := streamCase{"Bidi", "pingpong", "echo", 1, 0, 0}
			if mixed {
				c = []streamCase{{"Bidi", "pingpong", "echo", 2, 0, 0}, {"SStream", "sendall", "burst", 1, 3, 0}, {"CStream", "sendall", "collect", 3, 0, 0}, {"Bidi", "concurrent", "echo", 2, 0, 0}}[i%4]
			}
			many = append(many, c)
		}
		m := c02One(many, 64, 0)
		m.SelectCost = true
		out = append(out, m)
	}
	// on a connection with a history
	out = append(out, withHistory(historyKinds(tier),
		c02One([]streamCase{{"Bidi", "pingpong", "echo", 2, 0, 0}}, 0, 1), c02One([]streamCase{{"Bidi", "sendall", "retearly", 2, 1, 0}}, 64, 1),
		c02One([]streamCase{{"Bidi", "concurrent", "echo", 2, 0, 0}}, 64, 1), c02One([]streamCase{{"SStream", "sendall", "burst", 1, 2, 0}}, 0, 1),
		c02One([]streamCase{{"CStream", "sendall", "collect", 2, 0, 0}}, 64, 1))...)
	out = append(out, withConfig(configKinds(tier),
		c02One([]streamCase{{"Bidi", "pingpong", "echo", 2, 0, 0}}, 0, 1), c02One([]streamCase{{"Bidi", "sendall", "retearly", 2, 1, 0}}, 64, 1),
		c02One([]streamCase{{"Bidi", "concurrent", "echo", 2, 0, 0}}, 64, 1), c02One([]streamCase{{"SStream", "sendall", "burst", 1, 2, 0}}, 0, 1),
		c02One([]streamCase{{"CStream", "sendall", "collect", 2, 0, 0}}, 64, 1))...)
	// one stream of every kind on one connection (each kind is a method of its own: whatever an option sets up
	// per server or per connection - interceptor chains, stats, routing - must not be tied to the first method served)
	mixedKinds := []streamCase{{"Bidi", "pingpong", "echo", 1, 0, 0}, {"CStream", "sendall", "collect", 2, 0, 0}, {"SStream", "sendall", "burst", 1, 2, 0}}
	out = append(out, withConfig(env.ConfigKinds, c02One(mixedKinds, 64, 0))...)
	out = append(out, withConfig([]string{"chain", "chain+stats", "interceptors"}, c02One(mixedKinds, 64, 1), c02One([]streamCase{mixedKinds[2], mixedKinds[1], mixedKinds[0]}, 0, 1))...)
	// a failed stream call (of the caller's own making) followed by walking away must not stall the connection's other calls
	out = append(out, failedCallAbandoned("C02", "recv-into-non-message", 1), failedCallAbandoned("C02", "send-unencodable", 1))
	// over the HTTP transport: a POST whose response is lost must not lead to a duplicated message
	out = append(out, httpResponseLost("C02"))
	out = append(out, apiSeqs("C02", tier)...)
	out = append(out, handlerSeqs("C02", tier)...)
	for _, kind := range []string{"Bidi", "SStream", "CStream"} {
		out = append(out, c03HandlerErrorValues("C02", kind, 0))
	}
	// everything the handler sent and its clean end have reached the client's queues; then the connection goes away;
	// then the caller reads: it still gets every message and the clean end
	out = append(out, c03LateReaderFP("C02", "SStream", 1, false, 64, true, 1), c03LateReaderFP("C02", "SStream", 0, false, 64, true, 1), c03LateReaderFP("C02", "Bidi", 2, false, 64, true, 1))
	out = append(out, opInWriteAll("C02", 0)...)
	// finer granularity (a scheduling point after every Unlock as well) on the small core scenarios
	out = append(out, fineGrained(c02One([]streamCase{{"Bidi", "pingpong", "echo", 2, 0, 0}}, 0, 1), c02One([]streamCase{{"Bidi", "concurrent", "echo", 2, 0, 0}}, 64, 1), c02One([]streamCase{{"Bidi", "sendall", "retearly", 2, 1, 0}}, 64, 1))...)
	return out
}

func c02One(cases []streamCase, capn, bound int) *explore.Scenario {
	return c02OneT(cases, capn, bound, false)
}

func c02OneT(cases []streamCase, capn, bound int, serialize bool) *explore.Scenario {
	name := fmt.Sprintf("C02/cap=%d", capn)
	if serialize {
		name += "/ser"
	}
	for _, c := range cases {
		name += "/" + c.name()
	}
	return &explore.Scenario{
		Name:   name,
		Family: "C02/stream",
		Prop:   "C02",
		Bound:  bound,
		Run: func() {
			w := env.NewWorld()
			env.MsgSize = 0
			for _, c := range cases {
				if c.size > env.MsgSize || c.size < 0 {
					env.MsgSize = c.size
				}
			}
			d := env.NewDirect(w, env.DirectOpts{Pipe: env.PipeOpts{Cap: capn, Serialize: serialize}})
			vsched.Settle()
			vsched.Explore(true)
			for i, c := range cases {
				c := c
				r := w.Rec(fmt.Sprintf("s%d", i), c.kind)
				w.Handlers[r.Tag] = c.handler()
				vsched.GoNamed("caller-"+r.Tag, func() { c.runCaller(w, d.CC, context.Background(), r) })
			}
			vsched.Quiesce()
			for i, c := range cases {
				r := w.Recs[fmt.Sprintf("s%d", i)]
				vsched.Obs("%s", r.Summary())
				checkC02(r, c)
			}
			finishDirect(d, w, true)
		},
	}
}

func eqStrs(a, b []string) bool {
	if len(a) != len(b) {
		return false
	}
	for i := range a {
		if a[i] != b[i] {
			return false
		}
	}
	return true
}

func isPrefix(p, full []string) bool {
	if len(p) > len(full) {
		return false
	}
	return eqStrs(p, full[:len(p)])
}

// checkC02: the C02 oracle for one stream whose handler returns nil.
func checkC02(r *env.Rec, c streamCase) {
	fam := "C02/stream"
	if r.Runaway {
		vsched.Fail(fam+"|recv-success-without-data", "%s: RecvMsg keeps returning nil without delivering anything", r.Tag)
		return
	}
	if !r.CDone {
		vsched.Fail(fam+"|caller-hang", "%s: the caller program never finished: %s", r.Tag, r.Summary())
		return
	}
	if r.COpenErr != nil {
		vsched.Fail(fam+"|open", "%s: NewStream failed: %v", r.Tag, r.COpenErr)
		return
	}
	if r.HStarts != 1 {
		vsched.Fail(fam+"|handler-count", "%s: handler ran %d times", r.Tag, r.HStarts)
		return
	}
	if !r.HReturned {
		vsched.Fail(fam+"|handler-hang", "%s: handler never returned: %s", r.Tag, r.Summary())
		return
	}
	// handler side: what it received is what the caller sent (a prefix if it returned early)
	if !isPrefix(r.HRecv, r.CSent) {
		vsched.Fail(fam+"|handler-recv", "%s: handler received %v, caller sent %v", r.Tag, r.HRecv, r.CSent)
	}
	readToEnd := c.hprog == "echo" || c.hprog == "collect" || c.hprog == "hconc" || (c.hprog == "burst" && false)
	if readToEnd {
		if r.HRecvErr != io.EOF {
			vsched.Fail(fam+"|handler-eof", "%s: handler's terminal receive error is %v, want io.EOF after the caller's half-close", r.Tag, r.HRecvErr)
		} else if !r.CClosed {
			vsched.Fail(fam+"|handler-eof-early", "%s: handler saw io.EOF but the caller never half-closed", r.Tag)
		}
		if !eqStrs(r.HRecv, r.CSent) {
			vsched.Fail(fam+"|handler-recv-all", "%s: handler saw EOF after %v, caller sent %v", r.Tag, r.HRecv, r.CSent)
		}
	}
	// caller side
	if r.HRet == nil {
		if r.CErr != io.EOF {
			vsched.Fail(fam+"|success-reported-as-failure", "%s: handler returned success but the caller's stream ended with %s", r.Tag, env.ErrStr(r.CErr))
		} else if !eqStrs(r.CRecv, r.HSent) {
			vsched.Fail(fam+"|caller-recv", "%s: caller saw io.EOF after receiving %v, handler had sent %v", r.Tag, r.CRecv, r.HSent)
		}
	} else if r.CErr == io.EOF {
		vsched.Fail(fam+"|failure-reported-as-success", "%s: handler failed with %v but the caller saw io.EOF", r.Tag, r.HRet)
	}
	if !isPrefix(r.CRecv, r.HSent) {
		vsched.Fail(fam+"|caller-recv-order", "%s: caller received %v, handler sent %v", r.Tag, r.CRecv, r.HSent)
	}
}

// c02ViaDemux: one stream through client - Demux(by source) - Serve. slowStart: the handler starts
// working only when the caller cannot make progress any more (every queue on the path is full:
// the caller has out-run the handler as far as the path allows).
func c02ViaDemux(c streamCase, capn int, slowStart bool, bound int) *explore.Scenario {
	return &explore.Scenario{
		Name:   fmt.Sprintf("C02/via-demux/cap=%d/slowstart=%v/%s", capn, slowStart, c.name()),
		Family: "C02/stream", Prop: "C02", Bound: bound, SelectCost: true,
		Run: func() {
			w := env.NewWorld()
			env.MsgSize = 0
			d := env.NewDirect(w, env.DirectOpts{Pipe: env.PipeOpts{Cap: capn}, Demux: true})
			vsched.Settle()
			vsched.Explore(true)
			r := w.Rec("s0", c.kind)
			gate := make(chan struct{})
			h := c.handler()
			w.Handlers[r.Tag] = func(r *env.Rec, ss grpc.ServerStream) error {
				if slowStart {
					<-gate
				}
				return h(r, ss)
			}
			vsched.GoNamed("caller-"+r.Tag, func() { c.runCaller(w, d.CC, context.Background(), r) })
			vsched.Quiesce()
			close(gate)
			vsched.Quiesce()
			vsched.Obs("%s", r.Summary())
			checkC02(r, c)
			finishDirect(d, w, true)
		},
	}
}

// c02ProxyServerReattach: streams through clients - proxy - Demux - Serve; after the first one
// the server re-attaches under its name on a new link (the proxy's end of the old link has not
// failed); the following streams - on the same client connection - complete like the first.
func c02ProxyServerReattach(preAttach bool, after, bound int) *explore.Scenario {
	fam := "C02/stream"
	return &explore.Scenario{
		Name: fmt.Sprintf("C02/via-proxy/server-reattaches/preattach=%v/streams-after=%d", preAttach, after), Family: fam, Prop: "C02", Bound: bound,
		Run: func() {
			w := env.NewWorld()
			env.MsgSize = 0
			t := env.NewProxyTopo(w, env.ProxyOpts{Clients: 1, PreAttach: preAttach, Cap: 64})
			vsched.Settle()
			c := streamCase{"Bidi", "pingpong", "echo", 3, 0, 0}
			run := func(tag string) {
				r := w.Rec(tag, c.kind)
				w.Handlers[tag] = c.handler()
				vsched.GoNamed("caller-"+tag, func() { c.runCaller(w, t.CCs[0], context.Background(), r) })
				vsched.Quiesce()
				vsched.Obs("%s", r.Summary())
				checkC02(r, c)
			}
			run("first")
			t.ReattachServer(64)
			vsched.Quiesce()
			vsched.Explore(true)
			for i := 0; i < after; i++ {
				run(fmt.Sprintf("after%d", i))
			}
		},
	}
}
