package props

import (
	"context"
	"errors"
	"fmt"
	goat "github.com/avos-io/goat"
	"io"
	"strings"

	"google.golang.org/grpc"
	"google.golang.org/grpc/codes"
	"google.golang.org/grpc/status"
	"google.golang.org/protobuf/proto"
	"google.golang.org/protobuf/protoadapt"
	"google.golang.org/protobuf/types/known/wrapperspb"

	"github.com/avos-io/goat/gen/goatorepo"
	"github.com/avos-io/goat/vh/env"
	"github.com/avos-io/goat/vrt/explore"
	"github.com/avos-io/goat/vrt/vsched"
)

func init() { register("C03", c03) }

type okStatusErr struct{}

func (okStatusErr) Error() string              { return "an error whose GRPCStatus is OK" }
func (okStatusErr) GRPCStatus() *status.Status { return status.New(codes.OK, "looks fine") }

type c03Err struct {
	name string
	err  error
}

func c03Errors(full bool) []c03Err {
	msgs := []string{"", "plain ascii message", "ünïcødé ✓ 你好", strings.Repeat("long ", 820)}
	dets := [][]proto.Message{nil, {wrapperspb.String("d1")}, {wrapperspb.String("d1"), wrapperspb.Int64(-7), wrapperspb.Bytes([]byte{0, 255})}}
	var out []c03Err
	for code := codes.Code(1); code <= 16; code++ {
		for mi, m := range msgs {
			for di, d := range dets {
				if !full && (int(code)+mi+di)%3 != 0 {
					continue
				}
				st := status.New(code, m)
				if len(d) > 0 {
					st2, err := st.WithDetails(toV1(d)...)
					if err == nil {
						st = st2
					}
				}
				out = append(out, c03Err{fmt.Sprintf("status/%s/m%d/d%d", code, mi, di), st.Err()})
				if mi == 1 {
					out = append(out, c03Err{fmt.Sprintf("wrapped/%s/d%d", code, di), fmt.Errorf("outer context: %w", st.Err())})
				}
			}
		}
	}
	for i, m := range msgs[1:] {
		out = append(out, c03Err{fmt.Sprintf("plain/m%d", i), errors.New(m)})
	}
	// errors a handler typically passes on from its own Recv
	out = append(out, c03Err{"io-eof", io.EOF}, c03Err{"wrapped-io-eof", fmt.Errorf("reading request: %w", io.EOF)}, c03Err{"unexpected-eof", io.ErrUnexpectedEOF})
	out = append(out, c03Err{"ctx-canceled", context.Canceled}, c03Err{"ctx-deadline", context.DeadlineExceeded},
		c03Err{"ok-status-error", okStatusErr{}}, c03Err{"success", nil})
	return out
}

// c03Same compares the caller's error with the handler's.
func c03Same(fam, what string, herr, cerr error, stream bool) {
	okEnd := cerr == nil || (stream && cerr == io.EOF)
	if herr == nil {
		if !okEnd {
			vsched.Fail(fam+"|success-as-failure", "%s: handler returned nil, caller saw %s", what, env.ErrStr(cerr))
		}
		return
	}
	if okEnd {
		vsched.Fail(fam+"|failure-as-success", "%s: handler returned %q, caller saw success", what, herr.Error())
		return
	}
	cst, ok := status.FromError(cerr)
	if !ok {
		vsched.Fail(fam+"|not-a-status", "%s: caller's error %v is not a gRPC status", what, cerr)
		return
	}
	if cst.Code() == codes.OK {
		vsched.Fail(fam+"|failure-as-success", "%s: caller's status code is OK for a failed handler", what)
		return
	}
	var se interface{ GRPCStatus() *status.Status }
	if errors.As(herr, &se) && se.GRPCStatus().Code() != codes.OK {
		want := se.GRPCStatus()
		direct := false
		if _, isDirect := herr.(interface{ GRPCStatus() *status.Status }); isDirect {
			direct = true
		}
		if cst.Code() != want.Code() {
			vsched.Fail(fam+"|code", "%s: caller saw code %s, handler returned %s", what, cst.Code(), want.Code())
		}
		if direct && cst.Message() != want.Message() {
			vsched.Fail(fam+"|message", "%s: caller saw message %.60q, handler returned %.60q", what, cst.Message(), want.Message())
		}
		if !direct && !strings.Contains(cst.Message(), want.Message()) {
			vsched.Fail(fam+"|message", "%s: caller's message %.80q does not carry the wrapped status message", what, cst.Message())
		}
		wd, cd := want.Proto().GetDetails(), cst.Proto().GetDetails()
		if len(wd) != len(cd) {
			vsched.Fail(fam+"|details", "%s: caller saw %d details, handler returned %d", what, len(cd), len(wd))
		} else {
			for i := range wd {
				if !proto.Equal(wd[i], cd[i]) {
					vsched.Fail(fam+"|details", "%s: detail %d differs", what, i)
				}
			}
		}
		return
	}
	if errors.As(herr, &se) {
		return // a status error whose own code is OK: any non-OK status will do
	}
	// non-status error: non-OK status carrying the text
	if !strings.Contains(cst.Message(), herr.Error()) && !(errors.Is(herr, context.Canceled) || errors.Is(herr, context.DeadlineExceeded)) {
		vsched.Fail(fam+"|text", "%s: caller's status message %.80q does not carry the error text %.60q", what, cst.Message(), herr.Error())
	}
}

func c03(tier string) []*explore.Scenario {
	var out []*explore.Scenario
	for _, k := range []string{"Bidi", "CStream", "SStream"} {
		out = append(out, c03ServerReset(k, 1))
	}
	for _, when := range []string{"on-request", "on-reply", "never"} {
		out = append(out, c03UnaryCancelRace(when, 2))
	}
	// through the proxy: a handler that returns (successfully) while its caller still sends - the resets for the late
	// messages follow the trailer through every hop, so the caller still sees the handler's outcome
	out = append(out, c16RPCFam("C03", "early-return", true, 1))
	for _, kind := range []string{"Unary", "Bidi", "SStream", "CStream"} {
		out = append(out, c03Shapes(kind, tier == "thorough"))
	}
	bound := 2
	for _, n := range []int{1, 2} {
		for k := 0; k < n; k++ {
			for _, cp := range []int{0, 64} {
				out = append(out, c03Early(n, k, cp, "sendall", bound), c03Early(n, k, cp, "concurrent", bound))
			}
		}
	}
	out = append(out, c05EmptyReplies("C03", 1))
	out = append(out, c03Foreign())
	// over the HTTP transport: the caller sees the handler's outcome, not a reset for a message that overtook its stream's opening
	out = append(out, explore.Sharded(c19HTTPOrder("C03", 2, 2), 8)...)
	for _, kind := range []string{"Unary", "Bidi", "SStream", "CStream"} {
		out = append(out, c03HandlerErrorValues("C03", kind, 0))
	}
	// the connection's read side ends with io.EOF itself, a wrapped one, a context error while calls are open
	for _, ev := range []string{"eof", "wrapped-eof", "unexpected-eof", "canceled", "deadline"} {
		for _, k := range []int{0, 1, 2} {
			out = append(out, c09OneEP("C03", "1u1s", k, false, 64, 1, ev))
		}
		out = append(out, c09OneEP("C03", "1s", 1, true, 0, 1, ev))
	}
	out = append(out, c03TwoConnections(1))
	if tier == "thorough" {
		out = append(out, explore.Sharded(c03TwoConnections(2), 8)...)
	}
	out = append(out, withHistory(historyKinds(tier), c03Early(2, 1, 64, "sendall", 1), c03Early(2, 0, 0, "concurrent", 1), c03LateReader("SStream", 18, true, 64))...)
	out = append(out, withConfig(configKinds(tier), c03Early(2, 1, 64, "sendall", 1), c03Early(2, 0, 0, "concurrent", 1), c03LateReader("SStream", 18, true, 64))...)
	// the outcome was delivered (one message + the status fit the client's queues) and then the read side fails
	for _, fail := range []bool{true, false} {
		out = append(out, c03LateReaderF("SStream", 1, fail, 64, true), c03LateReaderF("Bidi", 1, fail, 0, true), c03LateReaderF("SStream", 0, fail, 64, true))
	}
	// the same under every schedule with one deviation (which of two ready select arms a reader takes, who runs first)
	for _, fail := range []bool{true, false} {
		out = append(out, c03LateReaderFP("C03", "SStream", 1, fail, 64, true, 1), c03LateReaderFP("C03", "SStream", 0, fail, 64, true, 1), c03LateReaderFP("C03", "Bidi", 2, fail, 64, true, 1))
	}
	// a caller that reads late: bursts of up to 200 messages, then the handler's outcome
	for _, m := range []int{2, 16, 17, 18, 40, 200} {
		for _, fail := range []bool{true, false} {
			out = append(out, c03LateReader("SStream", m, fail, 64), c03LateReader("Bidi", m, fail, 0))
		}
	}
	out = append(out, apiSeqs("C03", tier)...)
	out = append(out, handlerSeqs("C03", tier)...)
	// finer granularity (a scheduling point after every Unlock as well) on the small core scenarios
	out = append(out, fineGrained(c03Early(2, 1, 64, "concurrent", 1))...)
	return out
}

func c03Shapes(kind string, full bool) *explore.Scenario {
	fam := "C03/shapes"
	return &explore.Scenario{
		Name: fmt.Sprintf("C03/shapes/%s/full=%v", kind, full), Family: fam, Prop: "C03", Bound: 0,
		Run: func() {
			w := env.NewWorld()
			d := env.NewDirect(w, env.DirectOpts{Pipe: env.PipeOpts{Cap: 64, Serialize: true}})
			vsched.Settle()
			n := 0
			for _, e := range c03Errors(full) {
				positions := []int{0, 1, 2} // messages the handler sends before returning
				if kind == "Unary" || kind == "CStream" {
					positions = []int{0}
				}
				for _, pos := range positions {
					n++
					tag := fmt.Sprintf("e%d", n)
					herr := e.err
					what := fmt.Sprintf("%s %s after %d messages", kind, e.name, pos)
					if kind == "Unary" {
						r := w.Rec(tag, "Unary")
						w.Unaries[tag] = func(r *env.Rec, ctx context.Context, in string) (string, error) { return "partial", herr }
						w.CallUnary(d.CC, context.Background(), r, "x")
						vsched.Settle()
						c03Same(fam, what, herr, r.CErr, false)
						if herr == nil && r.CReply != "partial" {
							vsched.Fail(fam+"|reply", "%s: reply %q", what, r.CReply)
						}
						continue
					}
					r := w.Rec(tag, kind)
					w.Handlers[tag] = func(r *env.Rec, ss grpc.ServerStream) error {
						if kind != "Bidi" {
							m := new(env.Msg)
							if err := ss.RecvMsg(m); err != nil && err != io.EOF {
								return err
							}
						}
						for i := 0; i < pos; i++ {
							if err := ss.SendMsg(env.S(fmt.Sprintf("b%d", i))); err != nil {
								return err
							}
							r.HSent = append(r.HSent, fmt.Sprintf("b%d", i))
						}
						return herr
					}
					cs := w.Open(d.CC, context.Background(), r)
					if cs == nil {
						vsched.Fail(fam+"|open", "%s: open failed %v", what, r.COpenErr)
						continue
					}
					if kind != "Bidi" {
						env.CSend(r, cs, "req")
					}
					env.CClose(r, cs)
					env.CRecvAll(r, cs)
					vsched.Settle()
					c03Same(fam, what, herr, r.CErr, true)
					if !eqStrs(r.CRecv, r.HSent) {
						vsched.Fail(fam+"|messages", "%s: caller received %v before the status, handler sent %v", what, r.CRecv, r.HSent)
					}
				}
			}
			vsched.Count("inputs", int64(n))
			vsched.Obs("%s: %d (error shape x position) cases", kind, n)
			finishDirect(d, w, true)
		},
	}
}

// c03Early: the handler fails after k of n messages while the caller is still sending.
func c03Early(n, k, capn int, cprog string, bound int) *explore.Scenario {
	fam := "C03/early-error"
	c := streamCase{"Bidi", cprog, "retearly", n, k, 0}
	return &explore.Scenario{
		Name: fmt.Sprintf("C03/early-error/%s/n=%d/k=%d/cap=%d", cprog, n, k, capn), Family: fam, Prop: "C03", Bound: bound,
		Run: func() {
			w := env.NewWorld()
			d := env.NewDirect(w, env.DirectOpts{Pipe: env.PipeOpts{Cap: capn}})
			vsched.Settle()
			vsched.Explore(true)
			herr := status.Error(codes.FailedPrecondition, "handler gave up early")
			r := w.Rec("s", "Bidi")
			w.Handlers["s"] = env.HReturnAfter(k, herr)
			vsched.GoNamed("caller-s", func() { c.runCaller(w, d.CC, context.Background(), r) })
			vsched.Quiesce()
			vsched.Obs("%s", r.Summary())
			if !r.CDone {
				vsched.Fail(fam+"|caller-hang", "caller never finished: %s", r.Summary())
				return
			}
			c03Same(fam, "early error", herr, r.CErr, true)
			finishDirect(d, w, true)
		},
	}
}

// c03Foreign: replies produced by a foreign (scripted) peer.
// c03ServerReset: the real server resets a stream of the real client (the
// opening envelope is lost in transit, so the first thing the server sees for
// the id is a message): the caller must see a failure, never a clean end.
func c03ServerReset(kind string, bound int) *explore.Scenario {
	fam := "C03/server-reset"
	return &explore.Scenario{
		Name: "C03/server-reset/lost-open/" + kind, Family: fam, Prop: "C03", Bound: bound,
		Run: func() {
			w := env.NewWorld()
			d := env.NewDirect(w, env.DirectOpts{Pipe: env.PipeOpts{Cap: 64}})
			vsched.Settle()
			d.Pipe.A.DropWriteAt = d.Pipe.A.NWritten // the next envelope the client writes: the open
			vsched.Explore(true)
			r := w.Rec("s", kind)
			vsched.GoNamed("caller-s", func() {
				cs := w.Open(d.CC, context.Background(), r)
				if cs != nil {
					env.CSend(r, cs, "m0")
					env.CRecvAll(r, cs)
				}
				r.CDone = true
			})
			vsched.Quiesce()
			vsched.Obs("%s", r.Summary())
			if !r.CDone {
				vsched.Fail(fam+"|hang", "the caller of a stream the server reset never got a result: %s", r.Summary())
			} else if r.CErr == nil || r.CErr == io.EOF || status.Code(r.CErr) == codes.OK {
				vsched.Fail(fam+"|reset-as-success", "the server reset the stream (it never saw its open) but the caller saw %s", env.ErrStr(r.CErr))
			}
			if r.HStarts != 0 {
				vsched.Fail(fam+"|handler-ran", "a handler ran for a stream whose open was lost")
			}
			p := w.Rec("probe", "Unary")
			w.CallUnary(d.CC, context.Background(), p, "x")
			checkUnary(p, "x", fam)
			finishDirect(d, w, false)
		},
	}
}

// c03UnaryCancelRace: a unary handler fails with a status; the caller's context
// is cancelled the moment the request (or the reply) goes onto the wire, so the
// cancellation races with the arrival of the failed reply. Whatever wins, the
// caller sees a failure - the handler's status or the context's - never success.
func c03UnaryCancelRace(when string, bound int) *explore.Scenario {
	fam := "C03/unary-cancel-race"
	return &explore.Scenario{
		Name: "C03/unary-cancel-race/cancel-" + when, Family: fam, Prop: "C03", Bound: bound,
		Run: func() {
			w := env.NewWorld()
			d := env.NewDirect(w, env.DirectOpts{Pipe: env.PipeOpts{Cap: 64}})
			vsched.Settle()
			vsched.Explore(true)
			ctx, cancel := context.WithCancel(context.Background())
			defer cancel()
			d.Pipe.OnEvent = func(n int, dir string, rpc *env.Rpc) {
				if (when == "on-request" && dir == "a2b") || (when == "on-reply" && dir == "b2a") {
					cancel()
				}
			}
			r := w.Rec("u", "Unary")
			w.Unaries["u"] = func(r *env.Rec, hctx context.Context, in string) (string, error) {
				return "", status.Error(codes.NotFound, "no such thing")
			}
			vsched.GoNamed("caller-u", func() { w.CallUnary(d.CC, ctx, r, "x") })
			vsched.Quiesce()
			vsched.Obs("cancel %s: done=%v err=%s reply=%q", when, r.CDone, env.ErrStr(r.CErr), r.CReply)
			if !r.CDone {
				vsched.Fail(fam+"|hang", "the unary call never returned")
			} else if r.CErr == nil {
				vsched.Fail(fam+"|failure-reported-as-success", "the handler failed with NotFound and the caller's context was cancelled %s: the caller saw success (reply %q)", when, r.CReply)
			} else if c := status.Code(r.CErr); c != codes.NotFound && c != codes.Canceled && r.CErr != context.Canceled {
				vsched.Fail(fam+"|status", "the handler failed with NotFound and the caller's context was cancelled %s: the caller saw %s", when, env.ErrStr(r.CErr))
			}
			p := w.Rec("probe", "Unary")
			w.CallUnary(d.CC, context.Background(), p, "x")
			checkUnary(p, "x", fam)
			finishDirect(d, w, false)
		},
	}
}

func c03Foreign() *explore.Scenario {
	fam := "C03/foreign"
	return &explore.Scenario{
		Name: "C03/foreign-peer-replies", Family: fam, Prop: "C03", Bound: 1,
		Run: func() {
			type tc struct {
				name   string
				stream bool
				reply  func(id uint64) []*env.Rpc
				check  func(r *env.Rec)
			}
			body := func(s string) *goatorepo.Body { b, _ := proto.Marshal(env.S(s)); return &goatorepo.Body{Data: b} }
			cases := []tc{
				{"unary explicit OK status + body", false, func(id uint64) []*env.Rpc {
					x := env.RespUnary(id, "fine")
					x.Status = &goatorepo.ResponseStatus{Code: 0, Message: "OK"}
					return []*env.Rpc{x}
				}, func(r *env.Rec) {
					if r.CErr != nil || r.CReply != "fine" {
						vsched.Fail(fam+"|ok-status-with-body", "a unary reply with an explicit OK status and a body must be a success: err=%v reply=%q", r.CErr, r.CReply)
					}
				}},
				{"unary non-OK status, no trailer metadata, no body", false, func(id uint64) []*env.Rpc {
					return []*env.Rpc{{Id: id, Header: env.RespUnaryErr(id, 5, "nf").Header, Status: &goatorepo.ResponseStatus{Code: 5, Message: "nf"}}}
				}, func(r *env.Rec) {
					if status.Code(r.CErr) != codes.NotFound {
						vsched.Fail(fam+"|status-without-trailer", "unary status NotFound without trailer: caller saw %s", env.ErrStr(r.CErr))
					}
				}},
				{"unary non-OK status with body", false, func(id uint64) []*env.Rpc {
					x := env.RespUnary(id, "ignored")
					x.Status = &goatorepo.ResponseStatus{Code: 7, Message: "denied"}
					return []*env.Rpc{x}
				}, func(r *env.Rec) {
					if status.Code(r.CErr) != codes.PermissionDenied {
						vsched.Fail(fam+"|status-with-body", "caller saw %s", env.ErrStr(r.CErr))
					}
				}},
				{"unary reset envelope", false, func(id uint64) []*env.Rpc { return []*env.Rpc{env.RespReset(id, env.MUnary)} }, func(r *env.Rec) {
					if r.CErr == nil {
						vsched.Fail(fam+"|reset-as-success", "unary call answered by a reset reported success")
					}
				}},
				{"stream trailer with non-OK status, no metadata", true, func(id uint64) []*env.Rpc {
					return []*env.Rpc{env.RespBody(id, env.MBidi, "b0"), env.RespTrailer(id, env.MBidi, 9, "precondition")}
				}, func(r *env.Rec) {
					if status.Code(r.CErr) != codes.FailedPrecondition || !eqStrs(r.CRecv, []string{"b0"}) {
						vsched.Fail(fam+"|stream-status", "caller saw %v then %s", r.CRecv, env.ErrStr(r.CErr))
					}
				}},
				{"stream reset by the peer", true, func(id uint64) []*env.Rpc {
					return []*env.Rpc{env.RespBody(id, env.MBidi, "b0"), env.RespReset(id, env.MBidi)}
				}, func(r *env.Rec) {
					if r.CErr == nil || r.CErr == io.EOF || status.Code(r.CErr) == codes.OK {
						vsched.Fail(fam+"|reset-as-success", "a stream reset by the peer was reported to the caller as %s", env.ErrStr(r.CErr))
					}
				}},
				{"stream reset without any message", true, func(id uint64) []*env.Rpc { return []*env.Rpc{env.RespReset(id, env.MBidi)} }, func(r *env.Rec) {
					if r.CErr == nil || r.CErr == io.EOF {
						vsched.Fail(fam+"|reset-as-success", "a stream reset by the peer was reported to the caller as %s", env.ErrStr(r.CErr))
					}
				}},
				{"stream explicit OK trailer", true, func(id uint64) []*env.Rpc {
					t := env.RespTrailer(id, env.MBidi, 0, "OK")
					return []*env.Rpc{{Id: id, Header: t.Header, Body: body("b0")}, t}
				}, func(r *env.Rec) {
					if r.CErr != io.EOF || !eqStrs(r.CRecv, []string{"b0"}) {
						vsched.Fail(fam+"|stream-ok", "caller saw %v then %s", r.CRecv, env.ErrStr(r.CErr))
					}
				}},
			}
			w := env.NewWorld()
			d := env.NewDirect(w, env.DirectOpts{Pipe: env.PipeOpts{Cap: 64}, NoServer: true})
			vsched.Settle()
			vsched.Explore(true)
			for i, c := range cases {
				c := c
				tag := fmt.Sprintf("f%d", i)
				var r *env.Rec
				if c.stream {
					r = w.Rec(tag, "Bidi")
					vsched.GoNamed("caller-"+tag, func() {
						cs := w.Open(d.CC, context.Background(), r)
						if cs != nil {
							env.CRecvAll(r, cs)
						}
						r.CDone = true
					})
				} else {
					r = w.Rec(tag, "Unary")
					vsched.GoNamed("caller-"+tag, func() { w.CallUnary(d.CC, context.Background(), r, "x") })
				}
				req, err := d.Pipe.B.Read(context.Background())
				if err != nil {
					vsched.Fail(fam+"|harness", "peer read: %v", err)
					return
				}
				for _, rep := range c.reply(req.GetId()) {
					d.Pipe.B.Inject(rep)
				}
				vsched.Quiesce()
				vsched.Obs("%s: %s", c.name, r.Summary())
				if !r.CDone {
					vsched.Fail(fam+"|hang", "%s: caller never returned", c.name)
					continue
				}
				c.check(r)
			}
		},
	}
}

func toV1(ms []proto.Message) []protoadapt.MessageV1 {
	out := make([]protoadapt.MessageV1, len(ms))
	for i, m := range ms {
		out[i] = protoadapt.MessageV1Of(m)
	}
	return out
}

// c03LateReader: the handler sends a burst of m messages and finishes (with a status or nil)
// while the caller is not reading; the caller starts reading only when everything else has come
// to rest. It then receives the m messages and exactly the handler's outcome, however far it
// had fallen behind.
func c03LateReader(kind string, m int, fail bool, capn int) *explore.Scenario {
	return c03LateReaderF(kind, m, fail, capn, false)
}

// readFails: after the handler's outcome has reached the client (unread), the transport's read
// side fails; the caller then reads: what had already been delivered completely - the messages
// and the handler's own status - is what it gets.
func c03LateReaderF(kind string, m int, fail bool, capn int, readFails bool) *explore.Scenario {
	return c03LateReaderFP("C03", kind, m, fail, capn, readFails, 0)
}

func c03LateReaderFP(prop, kind string, m int, fail bool, capn int, readFails bool, bound int) *explore.Scenario {
	fam := prop + "/late-reader"
	name := fmt.Sprintf("%s/late-reader/%s/m=%d/fail=%v/cap=%d", prop, kind, m, fail, capn)
	if readFails {
		name += "/then-read-fails"
	}
	if bound > 0 {
		name += fmt.Sprintf("/d=%d", bound)
	}
	return &explore.Scenario{
		Name: name, Family: fam, Prop: prop, Bound: bound,
		Run: func() {
			w := env.NewWorld()
			d := env.NewDirect(w, env.DirectOpts{Pipe: env.PipeOpts{Cap: capn, Serialize: true}})
			vsched.Settle()
			vsched.Explore(bound > 0)
			var herr error
			if fail {
				st, _ := status.New(codes.FailedPrecondition, "burst then failure").WithDetails(&env.Msg{Value: []byte("detail")})
				herr = st.Err()
			}
			r := w.Rec("s", kind)
			w.Handlers["s"] = func(r *env.Rec, ss grpc.ServerStream) error {
				if err := env.HBurst(m)(r, ss); err != nil {
					return err
				}
				return herr
			}
			gate := make(chan struct{})
			vsched.GoNamed("caller-s", func() {
				cs := w.Open(d.CC, context.Background(), r)
				if cs != nil {
					env.CSend(r, cs, "go")
					env.CClose(r, cs)
					<-gate
					env.CRecvAll(r, cs)
				}
				r.CDone = true
			})
			vsched.Quiesce()
			if readFails {
				d.Pipe.A.FailReads()
				vsched.Quiesce()
			}
			close(gate)
			vsched.Quiesce()
			vsched.Obs("%s m=%d: done=%v received=%d err=%s", kind, m, r.CDone, len(r.CRecv), env.ErrStr(r.CErr))
			if !r.CDone {
				vsched.Fail(fam+"|caller-hang", "the caller started reading after a burst of %d messages and never finished: %s", m, r.Summary())
				return
			}
			if len(r.CRecv) != m {
				vsched.Fail(fam+"|messages", "the handler sent %d messages before finishing, the late reader received %d (then %s)", m, len(r.CRecv), env.ErrStr(r.CErr))
			}
			c03Same(fam, fmt.Sprintf("burst of %d to a late reader", m), herr, r.CErr, true)
			finishDirect(d, w, false) // (wire protocol)
		},
	}
}

// c03TwoConnections: one Server object serves two connections; a unary call is in flight on
// each at the same time (both use id 1), one handler fails with a status carrying details, the
// other succeeds; then the same with the roles swapped and with streams. Each caller observes
// the outcome of its own handler on its own connection.
func c03TwoConnections(bound int) *explore.Scenario {
	fam := "C03/two-connections"
	return &explore.Scenario{
		Name: fmt.Sprintf("C03/two-connections/d=%d", bound), Family: fam, Prop: "C03", Bound: bound,
		Run: func() {
			w := env.NewWorld()
			d := env.NewDirect(w, env.DirectOpts{Pipe: env.PipeOpts{Cap: 16, Serialize: true}})
			p2 := env.NewPipe(d.Tap, env.PipeOpts{Name: "w2", Cap: 16, Serialize: true})
			vsched.GoNamed("serve2", func() { d.Srv.Serve(context.Background(), p2.B) })
			cc2 := goat.NewClientConn(p2.A, "cli2", "srv")
			vsched.Settle()
			vsched.Explore(true)
			st, _ := status.New(codes.FailedPrecondition, "only on this connection").WithDetails(&env.Msg{Value: []byte("detail")})
			herr := st.Err()
			for round := 0; round < 2; round++ {
				running := 0
				both := make(chan struct{})
				mk := func(tag string, ret error) *env.Rec {
					r := w.Rec(tag, "Unary")
					w.Unaries[tag] = func(r *env.Rec, ctx context.Context, in string) (string, error) {
						running++
						if running == 2 {
							close(both)
						}
						<-both // the two calls overlap
						return "R:" + in, ret
					}
					return r
				}
				errs := [2]error{herr, nil}
				if round == 1 {
					errs = [2]error{nil, herr}
				}
				a, b := mk(fmt.Sprintf("a%d", round), errs[0]), mk(fmt.Sprintf("b%d", round), errs[1])
				vsched.GoNamed("caller-"+a.Tag, func() { w.CallUnary(d.CC, context.Background(), a, "x") })
				vsched.GoNamed("caller-"+b.Tag, func() { w.CallUnary(cc2, context.Background(), b, "y") })
				vsched.Quiesce()
				for i, r := range []*env.Rec{a, b} {
					vsched.Obs("round %d %s: done=%v err=%s", round, r.Tag, r.CDone, env.ErrStr(r.CErr))
					if !r.CDone {
						vsched.Fail(fam+"|caller-hang", "two connections on one Server, a unary call in flight on each: call %s never returned", r.Tag)
						continue
					}
					c03Same(fam, "call "+r.Tag+" on its own connection", errs[i], r.CErr, false)
				}
			}
			// streams: the handler on connection 1 fails after one message, the one on connection 2 completes
			sa, sb := w.Rec("sa", "Bidi"), w.Rec("sb", "Bidi")
			w.Handlers["sa"] = env.HReturnAfter(1, herr)
			w.Handlers["sb"] = env.HEcho
			vsched.GoNamed("caller-sa", func() { streamCase{"Bidi", "pingpong", "echo", 2, 0, 0}.runCaller(w, d.CC, context.Background(), sa) })
			vsched.GoNamed("caller-sb", func() { streamCase{"Bidi", "pingpong", "echo", 2, 0, 0}.runCaller(w, cc2, context.Background(), sb) })
			vsched.Quiesce()
			if !sa.CDone || !sb.CDone {
				vsched.Fail(fam+"|caller-hang", "streams on two connections of one Server: %s | %s", sa.Summary(), sb.Summary())
				return
			}
			c03Same(fam, "stream sa on connection 1", herr, sa.CErr, true)
			c03Same(fam, "stream sb on connection 2", nil, sb.CErr, true)
		},
	}
}

// c03HandlerErrorValues: the handler fails with an error of an unusual shape - one whose GRPCStatus() says OK,
// io.EOF itself, a wrapped io.EOF, a plain error, a context error: whatever it is, the caller sees a
// failure, never a clean end of stream or a reply.
func c03HandlerErrorValues(prop, kind string, bound int) *explore.Scenario {
	fam := prop + "/handler-error-values"
	return &explore.Scenario{
		Name: fmt.Sprintf("%s/handler-error-values/%s/d=%d", prop, kind, bound), Family: fam, Prop: prop, Bound: bound,
		Run: func() {
			w := env.NewWorld()
			d := env.NewDirect(w, env.DirectOpts{Pipe: env.PipeOpts{Cap: 64}})
			vsched.Settle()
			vsched.Explore(true)
			for i, o := range []string{"herr-ok-coded", "herr-eof", "herr-wrapped-eof", "herr-plain", "herr-canceled", "herr"} {
				tag := fmt.Sprintf("r%d", i)
				c14RPC(w, d, kind, o, tag)
				vsched.Quiesce()
				r := w.Recs[tag]
				if !r.HReturned || r.HRet == nil {
					continue // (the handler did not get to fail: judged by other clauses)
				}
				if r.COpenErr == nil && (r.CErr == nil || r.CErr == io.EOF) {
					vsched.Fail(fam+"|failure-as-success", "%s handler returned %T (%v): the caller observed %v", kind, r.HRet, r.HRet, r.CErr)
				} else if r.COpenErr == nil && status.Code(r.CErr) == codes.OK {
					vsched.Fail(fam+"|failure-as-success", "%s handler returned %T (%v): the caller's error %v carries the status code OK", kind, r.HRet, r.HRet, r.CErr)
				}
			}
			finishDirect(d, w, true)
		},
	}
}
