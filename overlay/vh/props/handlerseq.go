package props

import (
	"context"
	"fmt"
	"io"
	"strings"

	"google.golang.org/grpc"
	"google.golang.org/grpc/codes"
	"google.golang.org/grpc/metadata"
	"google.golang.org/grpc/stats"
	"google.golang.org/grpc/status"

	goat "github.com/avos-io/goat"

	"github.com/avos-io/goat/vh/env"
	"github.com/avos-io/goat/vrt/explore"
	"github.com/avos-io/goat/vrt/vsched"
)

// handlerSeq: every sequence (up to a length) of server-stream API operations
// a handler may perform — r receive, s send, h SendHeader, H SetHeader,
// t SetTrailer — followed by returning nil or an error, against a caller that
// sends two messages, half-closes and receives to the end from a second
// goroutine.  Oracles: C02 (both directions), C03 (status), C04 (headers and
// trailers exactly as the handler set them, per the gRPC rules about when
// headers leave), C06 (wire), C14 (idle afterwards).
func handlerSeq(prop string, first byte, maxLen, bound int) *explore.Scenario {
	return &explore.Scenario{
		Name:   fmt.Sprintf("%s/handler-seq/first=%c/len<=%d/d=%d", prop, first, maxLen, bound),
		Family: prop + "/handler-seq", Prop: prop, Bound: bound, MaxExecs: 3000000,
		Run: func() {
			w := env.NewWorld()
			env.MsgSize = 0
			d := env.NewDirect(w, env.DirectOpts{Pipe: env.PipeOpts{Cap: 64}})
			vsched.Settle()
			idle := c14State(d)
			vsched.Explore(true)
			r := w.Rec("s", "Bidi")
			seq := ""
			var wantHdr []metadata.MD
			var wantTrl []metadata.MD
			hdrLeft := false
			var retErr error
			w.Handlers["s"] = func(r *env.Rec, ss grpc.ServerStream) error {
				nsent := 0
				recvEnded := false
				for pos := 0; pos < maxLen; pos++ {
					op := first
					if pos > 0 {
						alphabet := "rshHt"
						if recvEnded {
							alphabet = "shHt" // nothing is received after the end of the caller's stream
						}
						c := vsched.Choose(len(alphabet) + 1)
						if c == len(alphabet) {
							break
						}
						op = alphabet[c]
					}
					seq += string(op)
					md := metadata.MD{fmt.Sprintf("k%d", pos): {fmt.Sprintf("v%d", pos)}, "shared": {fmt.Sprintf("p%d", pos)}}
					switch op {
					case 'r':
						m := new(env.Msg)
						if err := ss.RecvMsg(m); err != nil {
							r.HRecvErr = err
							recvEnded = true
						} else {
							r.HRecv = append(r.HRecv, string(m.Value))
						}
					case 's':
						msg := fmt.Sprintf("h%d", nsent)
						nsent++
						if err := ss.SendMsg(env.S(msg)); err == nil {
							r.HSent = append(r.HSent, msg)
							hdrLeft = true
						}
					case 'h':
						if err := ss.SendHeader(md); err == nil {
							if hdrLeft {
								vsched.Fail("C04/handler-seq|sendheader-twice-ok", "after handler ops %s: SendHeader succeeded although headers had already left", seq)
							}
							wantHdr = append(wantHdr, md)
							hdrLeft = true
						} else if !hdrLeft {
							vsched.Fail("C04/handler-seq|sendheader-failed", "after handler ops %s: SendHeader failed: %v", seq, err)
						}
					case 'H':
						if err := ss.SetHeader(md); err == nil {
							if hdrLeft {
								vsched.Fail("C04/handler-seq|setheader-late-ok", "after handler ops %s: SetHeader succeeded although headers had already left", seq)
							}
							wantHdr = append(wantHdr, md)
						}
					case 't':
						ss.SetTrailer(md)
						wantTrl = append(wantTrl, md)
					}
				}
				if vsched.Choose(2) == 1 {
					retErr = status.Error(codes.OutOfRange, "handler failed")
					seq += "!"
				}
				return retErr
			}
			var cs grpc.ClientStream
			var hdr metadata.MD
			var hdrErr error
			hdrDone := false
			vsched.GoNamed("caller", func() {
				cs = w.Open(d.CC, context.Background(), r)
				if cs == nil {
					r.CDone = true
					return
				}
				vsched.GoNamed("sender", func() {
					env.CSend(r, cs, "c0")
					env.CSend(r, cs, "c1")
					env.CClose(r, cs)
				})
				env.CRecvAll(r, cs)
				hdr, hdrErr = cs.Header()
				hdrDone = true
				r.CDone = true
			})
			vsched.Quiesce()
			vsched.Obs("handler ops=%s %s", seq, r.Summary())
			fam := "/handler-seq|"
			if !r.CDone || !r.HReturned {
				vsched.Fail(prop+fam+"hang", "handler ops %s: caller done=%v handler returned=%v; threads: %s", seq, r.CDone, r.HReturned, threadList())
				return
			}
			// C02
			if !isPrefix(r.HRecv, r.CSent) && !isPrefix(r.HRecv, []string{"c0", "c1"}) {
				vsched.Fail("C02"+fam+"handler-recv", "handler ops %s: handler received %v", seq, r.HRecv)
			}
			if !eqStrs(r.CRecv, r.HSent) {
				vsched.Fail("C02"+fam+"caller-recv", "handler ops %s: caller received %v, handler sent %v", seq, r.CRecv, r.HSent)
			}
			// C03
			if retErr == nil && r.CErr != io.EOF {
				vsched.Fail("C03"+fam+"success-as-failure", "handler ops %s: handler returned nil, caller saw %s", seq, env.ErrStr(r.CErr))
			}
			if retErr != nil && (status.Code(r.CErr) != codes.OutOfRange || status.Convert(r.CErr).Message() != "handler failed") {
				vsched.Fail("C03"+fam+"status", "handler ops %s: handler returned OutOfRange, caller saw %s", seq, env.ErrStr(r.CErr))
			}
			// C04
			if hdrDone {
				if hdrErr != nil {
					vsched.Fail("C04"+fam+"header-error", "handler ops %s: Header() failed: %v", seq, hdrErr)
				} else if msg := wantOf(wantHdr...).check(hdr, nil); msg != "" {
					vsched.Fail("C04"+fam+"response-header", "handler ops %s: Header(): %s", seq, msg)
				}
			}
			if msg := wantOf(wantTrl...).check(r.CTrailer, nil); msg != "" {
				vsched.Fail("C04"+fam+"response-trailer", "handler ops %s: Trailer(): %s", seq, msg)
			}
			// C05: the per-call order of the response envelopes on the wire - headers that travel in an envelope
			// of their own come first, the trailer comes last
			{
				var kinds []string
				for _, e := range d.Tap.Events {
					if e.Dir != "b2a" { // (the scenario's only call)
						continue
					}
					switch {
					case e.Rpc.GetReset_() != nil:
						kinds = append(kinds, "reset") // (the server's answer to messages that arrive after the handler returned)
					case e.Rpc.GetTrailer() != nil || e.Rpc.GetStatus() != nil:
						kinds = append(kinds, "trailer")
					case e.Rpc.GetBody() != nil:
						kinds = append(kinds, "message")
					default:
						kinds = append(kinds, "header")
					}
				}
				ended := false
				for i, k := range kinds {
					if (k == "header" && i != 0) || ((k == "message" || k == "trailer") && ended) {
						vsched.Fail("C05"+fam+"per-call-order", "handler ops %s: the call's response envelopes are on the wire as %v", seq, kinds)
						break
					}
					ended = ended || k == "trailer"
				}
			}
			// C14 + C06
			if st := c14State(d); st != idle {
				vsched.Fail("C14"+fam+"not-idle:"+diffKey(idle, st), "handler ops %s: the connection did not return to its idle state:\n%s", seq, diffStates(idle, st))
			}
			finishDirect(d, w, true)
		},
	}
}

// unaryHandlerSeq: every sequence (up to a length) of the metadata operations a
// UNARY handler may perform through its context - h grpc.SendHeader,
// H grpc.SetHeader, t grpc.SetTrailer - followed by returning a reply or an
// error; the caller collects headers and trailers with the grpc.Header /
// grpc.Trailer call options. Oracles: C04 (exactly what the accepted calls set;
// calls after the headers left are refused AND leave no trace), C03, C06, C14.
func unaryHandlerSeq(prop string, first byte, maxLen int) *explore.Scenario {
	return unaryHandlerSeqL(prop, first, maxLen, false)
}

// late: the handler's context is already over when it performs the operations
// (the request carried a 50 ms grpc-timeout of the caller's choosing while the
// caller itself waits on): the call is still in progress, and what the handler
// sets before it returns still reaches the caller.
func unaryHandlerSeqL(prop string, first byte, maxLen int, late bool) *explore.Scenario {
	name := fmt.Sprintf("%s/unary-handler-seq/first=%c/len<=%d", prop, first, maxLen)
	if late {
		name += "/after-handler-deadline"
	}
	return &explore.Scenario{
		Name:   name,
		Family: prop + "/handler-seq", Prop: prop, Bound: 0, MaxExecs: 3000000,
		Run: func() {
			w := env.NewWorld()
			env.MsgSize = 0
			// (goat's Invoke takes no call options: what a unary caller can see of response
			// headers and trailers is what its stats handler is shown)
			sh := &mdStats{}
			d := env.NewDirect(w, env.DirectOpts{Pipe: env.PipeOpts{Cap: 64}, DialOpts: []goat.DialOption{goat.WithStatsHandler(sh)}})
			vsched.Settle()
			idle := c14State(d)
			w.Rec("u", "Unary")
			seq := ""
			var wantHdr, wantTrl []metadata.MD
			hdrLeft := false
			var retErr error
			w.Unaries["u"] = func(r *env.Rec, ctx context.Context, in string) (string, error) {
				if late {
					<-ctx.Done()
				}
				for pos := 0; pos < maxLen; pos++ {
					op := first
					if pos > 0 {
						alphabet := "hHt"
						c := vsched.Choose(len(alphabet) + 1)
						if c == len(alphabet) {
							break
						}
						op = alphabet[c]
					}
					seq += string(op)
					md := metadata.MD{fmt.Sprintf("k%d", pos): {fmt.Sprintf("v%d", pos)}, "shared": {fmt.Sprintf("p%d", pos)}}
					switch op {
					case 'h':
						if err := grpc.SendHeader(ctx, md); err == nil {
							if hdrLeft {
								vsched.Fail("C04/handler-seq|sendheader-twice-ok", "unary handler ops %s: SendHeader succeeded although headers had already been sent", seq)
							}
							wantHdr = append(wantHdr, md)
							hdrLeft = true
						} else if !hdrLeft {
							vsched.Fail("C04/handler-seq|sendheader-failed", "unary handler ops %s: SendHeader failed: %v", seq, err)
						}
					case 'H':
						if err := grpc.SetHeader(ctx, md); err == nil {
							if hdrLeft {
								vsched.Fail("C04/handler-seq|setheader-late-ok", "unary handler ops %s: SetHeader succeeded although headers had already been sent", seq)
							}
							wantHdr = append(wantHdr, md)
						}
					case 't':
						if err := grpc.SetTrailer(ctx, md); err == nil {
							wantTrl = append(wantTrl, md)
						}
					}
				}
				if vsched.Choose(2) == 1 {
					retErr = status.Error(codes.OutOfRange, "handler failed")
					seq += "!"
				}
				return "rep", retErr
			}
			out := new(env.Msg)
			cctx := context.Background()
			if late {
				cctx = metadata.AppendToOutgoingContext(cctx, "grpc-timeout", "50m")
			}
			var err error
			idone := false
			vsched.GoNamed("caller", func() { err = d.CC.Invoke(cctx, env.MUnary, env.S("u|x"), out); idone = true })
			vsched.QuiesceTime()
			if !idone {
				vsched.Fail(prop+"/handler-seq|hang", "the unary call never returned")
				return
			}
			hdr := sh.hdr
			// (no API shows a unary caller the trailers: judge what arrives for it on the wire)
			trl := metadata.MD{}
			for _, e := range d.Tap.Events {
				if e.Dir == "b2a" && e.Rpc.GetTrailer() != nil {
					for _, kv := range e.Rpc.GetTrailer().GetMetadata() {
						trl[strings.ToLower(kv.Key)] = append(trl[strings.ToLower(kv.Key)], kv.Value)
					}
				}
			}
			if sh.nHdr > 1 || sh.nTrl > 1 {
				vsched.Fail("C04/handler-seq|response-header", "unary handler ops %s: the caller's stats handler saw %d InHeader and %d InTrailer events", seq, sh.nHdr, sh.nTrl)
			}
			vsched.Obs("unary handler ops=%s err=%s hdr=%v trl=%v", seq, env.ErrStr(err), hdr, trl)
			fam := "/handler-seq|"
			if retErr == nil && (err != nil || string(out.Value) != "rep") {
				vsched.Fail("C03"+fam+"success-as-failure", "unary handler ops %s: handler returned a reply, caller saw err=%v reply=%q", seq, err, out.Value)
			}
			if retErr != nil && (status.Code(err) != codes.OutOfRange || status.Convert(err).Message() != "handler failed") {
				vsched.Fail("C03"+fam+"status", "unary handler ops %s: handler returned OutOfRange, caller saw %s", seq, env.ErrStr(err))
			}
			if msg := wantOf(wantHdr...).check(hdr, nil); msg != "" {
				vsched.Fail("C04"+fam+"response-header", "unary handler ops %s (failed=%v): grpc.Header(): %s", seq, retErr != nil, msg)
			}
			if msg := wantOf(wantTrl...).check(trl, nil); msg != "" {
				vsched.Fail("C04"+fam+"response-trailer", "unary handler ops %s (failed=%v): grpc.Trailer(): %s", seq, retErr != nil, msg)
			}
			if st := c14State(d); st != idle {
				vsched.Fail("C14"+fam+"not-idle:"+diffKey(idle, st), "unary handler ops %s: the connection did not return to its idle state:\n%s", seq, diffStates(idle, st))
			}
			finishDirect(d, w, true)
		},
	}
}

// mdStats records the response metadata a client stats handler is shown.
type mdStats struct {
	hdr, trl   metadata.MD
	nHdr, nTrl int
}

func (s *mdStats) TagRPC(ctx context.Context, _ *stats.RPCTagInfo) context.Context { return ctx }
func (s *mdStats) HandleRPC(ctx context.Context, st stats.RPCStats) {
	switch e := st.(type) {
	case *stats.InHeader:
		s.hdr = e.Header
		s.nHdr++
	case *stats.InTrailer:
		s.trl = e.Trailer
		s.nTrl++
	}
}
func (s *mdStats) TagConn(ctx context.Context, _ *stats.ConnTagInfo) context.Context { return ctx }
func (s *mdStats) HandleConn(context.Context, stats.ConnStats)                       {}

func handlerSeqs(prop, tier string) []*explore.Scenario {
	var out []*explore.Scenario
	maxLen := 4
	if tier == "thorough" {
		maxLen = 5
	}
	for _, f := range []byte("hHt") {
		out = append(out, unaryHandlerSeq(prop, f, maxLen+1), unaryHandlerSeqL(prop, f, 3, true))
	}
	for _, f := range []byte("rshHt") {
		out = append(out, handlerSeq(prop, f, maxLen, 0))
	}
	out = append(out, handlerSeq(prop, 's', 2, 1), handlerSeq(prop, 'H', 2, 1), handlerSeq(prop, 'h', 2, 1))
	return out
}
