package props

import (
	"context"
	"fmt"
	"io"

	"google.golang.org/grpc"
	"google.golang.org/grpc/codes"
	"google.golang.org/grpc/metadata"
	"google.golang.org/grpc/status"

	"github.com/avos-io/goat/vh/env"
	"github.com/avos-io/goat/vrt/explore"
	"github.com/avos-io/goat/vrt/vsched"
)

// handlerSeq: every sequence (up to a length) of server-stream API operations
// a handler may perform — r receive, s send, h SendHeader, H SetHeader,
// t SetTrailer — followed by returning nil or an error, against a caller that
// sends two messages, half-closes and receives to the end from a second
// goroutine.  Oracles: C02 (both directions), C03 (status), C04 (headers and
// trailers exactly as the handler set them, per the gRPC rules about when
// headers leave), C06 (wire), C14 (idle afterwards).
func handlerSeq(prop string, first byte, maxLen, bound int) *explore.Scenario {
	return &explore.Scenario{
		Name:   fmt.Sprintf("%s/handler-seq/first=%c/len<=%d/d=%d", prop, first, maxLen, bound),
		Family: prop + "/handler-seq", Prop: prop, Bound: bound, MaxExecs: 3000000,
		Run: func() {
			w := env.NewWorld()
			env.MsgSize = 0
			d := env.NewDirect(w, env.DirectOpts{Pipe: env.PipeOpts{Cap: 64}})
			vsched.Settle()
			idle := c14State(d)
			vsched.Explore(true)
			r := w.Rec("s", "Bidi")
			seq := ""
			var wantHdr []metadata.MD
			var wantTrl []metadata.MD
			hdrLeft := false
			var retErr error
			w.Handlers["s"] = func(r *env.Rec, ss grpc.ServerStream) error {
				nsent := 0
				recvEnded := false
				for pos := 0; pos < maxLen; pos++ {
					op := first
					if pos > 0 {
						alphabet := "rshHt"
						if recvEnded {
							alphabet = "shHt" // nothing is received after the end of the caller's stream
						}
						c := vsched.Choose(len(alphabet) + 1)
						if c == len(alphabet) {
							break
						}
						op = alphabet[c]
					}
					seq += string(op)
					md := metadata.MD{fmt.Sprintf("k%d", pos): {fmt.Sprintf("v%d", pos)}, "shared": {fmt.Sprintf("p%d", pos)}}
					switch op {
					case 'r':
						m := new(env.Msg)
						if err := ss.RecvMsg(m); err != nil {
							r.HRecvErr = err
							recvEnded = true
						} else {
							r.HRecv = append(r.HRecv, string(m.Value))
						}
					case 's':
						msg := fmt.Sprintf("h%d", nsent)
						nsent++
						if err := ss.SendMsg(env.S(msg)); err == nil {
							r.HSent = append(r.HSent, msg)
							hdrLeft = true
						}
					case 'h':
						if err := ss.SendHeader(md); err == nil {
							if hdrLeft {
								vsched.Fail("C04/handler-seq|sendheader-twice-ok", "after handler ops %s: SendHeader succeeded although headers had already left", seq)
							}
							wantHdr = append(wantHdr, md)
							hdrLeft = true
						} else if !hdrLeft {
							vsched.Fail("C04/handler-seq|sendheader-failed", "after handler ops %s: SendHeader failed: %v", seq, err)
						}
					case 'H':
						if err := ss.SetHeader(md); err == nil {
							if hdrLeft {
								vsched.Fail("C04/handler-seq|setheader-late-ok", "after handler ops %s: SetHeader succeeded although headers had already left", seq)
							}
							wantHdr = append(wantHdr, md)
						}
					case 't':
						ss.SetTrailer(md)
						wantTrl = append(wantTrl, md)
					}
				}
				if vsched.Choose(2) == 1 {
					retErr = status.Error(codes.OutOfRange, "handler failed")
					seq += "!"
				}
				return retErr
			}
			var cs grpc.ClientStream
			var hdr metadata.MD
			var hdrErr error
			hdrDone := false
			vsched.GoNamed("caller", func() {
				cs = w.Open(d.CC, context.Background(), r)
				if cs == nil {
					r.CDone = true
					return
				}
				vsched.GoNamed("sender", func() {
					env.CSend(r, cs, "c0")
					env.CSend(r, cs, "c1")
					env.CClose(r, cs)
				})
				env.CRecvAll(r, cs)
				hdr, hdrErr = cs.Header()
				hdrDone = true
				r.CDone = true
			})
			vsched.Quiesce()
			vsched.Obs("handler ops=%s %s", seq, r.Summary())
			fam := "/handler-seq|"
			if !r.CDone || !r.HReturned {
				vsched.Fail(prop+fam+"hang", "handler ops %s: caller done=%v handler returned=%v; threads: %s", seq, r.CDone, r.HReturned, threadList())
				return
			}
			// C02
			if !isPrefix(r.HRecv, r.CSent) && !isPrefix(r.HRecv, []string{"c0", "c1"}) {
				vsched.Fail("C02"+fam+"handler-recv", "handler ops %s: handler received %v", seq, r.HRecv)
			}
			if !eqStrs(r.CRecv, r.HSent) {
				vsched.Fail("C02"+fam+"caller-recv", "handler ops %s: caller received %v, handler sent %v", seq, r.CRecv, r.HSent)
			}
			// C03
			if retErr == nil && r.CErr != io.EOF {
				vsched.Fail("C03"+fam+"success-as-failure", "handler ops %s: handler returned nil, caller saw %s", seq, env.ErrStr(r.CErr))
			}
			if retErr != nil && (status.Code(r.CErr) != codes.OutOfRange || status.Convert(r.CErr).Message() != "handler failed") {
				vsched.Fail("C03"+fam+"status", "handler ops %s: handler returned OutOfRange, caller saw %s", seq, env.ErrStr(r.CErr))
			}
			// C04
			if hdrDone {
				if hdrErr != nil {
					vsched.Fail("C04"+fam+"header-error", "handler ops %s: Header() failed: %v", seq, hdrErr)
				} else if msg := wantOf(wantHdr...).check(hdr, nil); msg != "" {
					vsched.Fail("C04"+fam+"response-header", "handler ops %s: Header(): %s", seq, msg)
				}
			}
			if msg := wantOf(wantTrl...).check(r.CTrailer, nil); msg != "" {
				vsched.Fail("C04"+fam+"response-trailer", "handler ops %s: Trailer(): %s", seq, msg)
			}
			// C14 + C06
			if st := c14State(d); st != idle {
				vsched.Fail("C14"+fam+"not-idle:"+diffKey(idle, st), "handler ops %s: the connection did not return to its idle state:\n%s", seq, diffStates(idle, st))
			}
			finishDirect(d, w, true)
		},
	}
}

func handlerSeqs(prop, tier string) []*explore.Scenario {
	var out []*explore.Scenario
	maxLen := 4
	if tier == "thorough" {
		maxLen = 5
	}
	for _, f := range []byte("rshHt") {
		out = append(out, handlerSeq(prop, f, maxLen, 0))
	}
	out = append(out, handlerSeq(prop, 's', 2, 1), handlerSeq(prop, 'H', 2, 1))
	return out
}
