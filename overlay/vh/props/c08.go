package props

import (
	"context"
	"fmt"
	"google.golang.org/grpc/metadata"
	"io"
	"math"
	"strconv"
	"strings"
	"time"

	"google.golang.org/grpc"

	goat "github.com/avos-io/goat"
	"github.com/avos-io/goat/gen/goatorepo"
	"github.com/avos-io/goat/vh/env"
	"github.com/avos-io/goat/vrt/explore"
	"github.com/avos-io/goat/vrt/vsched"
)

func init() { register("C08", c08) }

var c08Units = map[byte]time.Duration{'H': time.Hour, 'M': time.Minute, 'S': time.Second, 'm': time.Millisecond, 'u': time.Microsecond, 'n': time.Nanosecond}

const c08UnitOrder = "HMSmun"

// refTimeout is the reference model: ^[0-9]{1,8}[HMSmun]$, saturating.
func refTimeout(s string) (time.Duration, bool) {
	if len(s) < 2 || len(s) > 9 {
		return 0, false
	}
	unit, ok := c08Units[s[len(s)-1]]
	if !ok {
		return 0, false
	}
	var v int64
	for _, c := range []byte(s[:len(s)-1]) {
		if c < '0' || c > '9' {
			return 0, false
		}
		v = v*10 + int64(c-'0')
	}
	if v > math.MaxInt64/int64(unit) {
		return time.Duration(math.MaxInt64), true
	}
	return time.Duration(v) * unit, true
}

func c08CheckLegal(fam, s string) {
	want, _ := refTimeout(s)
	got, ok := goat.VerifParseGrpcTimeout(s)
	if !ok {
		vsched.Fail(fam+"|legal-rejected", "legal timeout value %q was rejected", s)
	} else if got != want {
		vsched.Fail(fam+"|legal-misread", "timeout value %q was read as %v (%d ns), want %v", s, got, int64(got), want)
	}
}

func c08(tier string) []*explore.Scenario {
	var out []*explore.Scenario
	for _, raw := range []string{"2562047H", "2562048H", "99999999H", "9223372036855m"} {
		out = append(out, c08ConcurrentRaw(2, raw, 1))
	}
	out = append(out, c08ConcurrentRaw(8, "2562048H", 0))
	for _, kind := range []string{"Bidi", "SStream", "Unary"} {
		out = append(out, c08ParkedReadLoop(kind, 800*time.Millisecond))
	}
	maxFull := 5
	if tier == "thorough" {
		maxFull = 7
	}
	for _, u := range []byte(c08UnitOrder) {
		u := u
		out = append(out, &explore.Scenario{
			Name: fmt.Sprintf("C08/parser/legal/unit=%c/digits=1..%d", u, maxFull), Family: "C08/parser", Prop: "C08", Once: true,
			Run: func() {
				buf := make([]byte, 0, 10)
				var n int64
				for L := 1; L <= maxFull; L++ {
					lim := int64(math.Pow10(L))
					for v := int64(0); v < lim; v++ {
						buf = buf[:0]
						s := strconv.AppendInt(buf, v, 10)
						for len(s) < L { // leading zeros are part of the grammar
							s = append([]byte{'0'}, s...)
						}
						s = append(s, u)
						c08CheckLegal("C08/parser", string(s))
						n++
					}
				}
				vsched.Count("inputs", n)
				vsched.Obs("unit %c: %d legal values with 1..%d digits", u, n, maxFull)
			},
		})
		if tier == "thorough" {
			for lead := 0; lead < 10; lead++ {
				lead := lead
				out = append(out, &explore.Scenario{
					Name: fmt.Sprintf("C08/parser/legal/unit=%c/digits=8/lead=%d", u, lead), Family: "C08/parser", Prop: "C08", Once: true,
					Run: func() {
						s := make([]byte, 9)
						s[8] = u
						var n int64
						for v := lead * 10000000; v < (lead+1)*10000000; v++ {
							x := v
							for i := 7; i >= 0; i-- {
								s[i] = byte('0' + x%10)
								x /= 10
							}
							c08CheckLegal("C08/parser", string(s))
							n++
						}
						vsched.Count("inputs", n)
						vsched.Obs("unit %c: %d legal 8-digit values with leading digit %d", u, n, lead)
					},
				})
			}
		}
	}
	// boundaries for the digit counts not covered in full
	out = append(out, &explore.Scenario{
		Name: "C08/parser/legal/boundaries", Family: "C08/parser", Prop: "C08", Once: true,
		Run: func() {
			var n int64
			for _, u := range []byte(c08UnitOrder) {
				unit := int64(c08Units[u])
				thr := math.MaxInt64 / unit // largest value that does not overflow
				vals := map[int64]bool{}
				for L := 1; L <= 8; L++ {
					p := int64(math.Pow10(L))
					for _, v := range []int64{p / 10, p/10 + 1, p - 1, p - 2, p / 2, p / 3} {
						vals[v] = true
					}
				}
				for d := int64(-3); d <= 3; d++ {
					vals[thr+d] = true
				}
				for v := range vals {
					if v < 0 || v > 99999999 {
						continue
					}
					for L := len(strconv.FormatInt(v, 10)); L <= 8; L++ {
						s := fmt.Sprintf("%0*d%c", L, v, u)
						c08CheckLegal("C08/parser", s)
						n++
					}
				}
			}
			// a strided sweep through the 6..8 digit values (complete only in the thorough tier)
			for _, u := range []byte(c08UnitOrder) {
				for v := int64(100000); v < 100000000; v += 4999 {
					c08CheckLegal("C08/parser", strconv.FormatInt(v, 10)+string(u))
					n++
				}
			}
			vsched.Count("inputs", n)
			vsched.Obs("%d boundary and strided values", n)
		},
	})
	out = append(out, &explore.Scenario{
		Name: "C08/parser/malformed", Family: "C08/parser", Prop: "C08", Once: true,
		Run: func() {
			var bad []string
			bad = append(bad, "", "S", "H", "123", "0", "m5", "5SS", "5Sm", "SS")
			for c := 0; c < 256; c++ {
				if _, ok := c08Units[byte(c)]; ok {
					continue
				}
				bad = append(bad, "12"+string([]byte{byte(c)}))
			}
			for _, u := range c08UnitOrder {
				us := string(u)
				bad = append(bad, "-5"+us, "+5"+us, " 5"+us, "5 "+us, "5"+us+" ", "-0"+us, "0x10"+us, "1e3"+us, "5.0"+us, "5,0"+us, "５"+us, "١٢"+us, "1_000"+us)
				for pos := 0; pos < 5; pos++ {
					for _, c := range []byte{'a', '-', '+', ' ', '.', 0, 0xff} {
						b := []byte("12345" + us)
						b[pos] = c
						bad = append(bad, string(b))
					}
				}
			}
			n := int64(0)
			for _, s := range bad {
				n++
				if _, ok := refTimeout(s); ok {
					vsched.Fail("C08/parser|harness", "malformed list contains legal value %q", s)
				}
				if got, ok := goat.VerifParseGrpcTimeout(s); ok {
					vsched.Fail("C08/parser|malformed-accepted", "malformed timeout value %q was accepted as %v instead of being ignored", s, got)
				}
			}
			// over-long all-digit values: ignored, or the saturated natural reading
			for _, u := range []byte(c08UnitOrder) {
				for L := 9; L <= 22; L++ {
					for _, d := range []byte{'1', '9'} {
						s := strings.Repeat(string(d), L) + string(u)
						n++
						got, ok := goat.VerifParseGrpcTimeout(s)
						if !ok {
							continue
						}
						want := time.Duration(math.MaxInt64)
						if v, err := strconv.ParseInt(s[:L], 10, 64); err == nil && v <= math.MaxInt64/int64(c08Units[u]) {
							want = time.Duration(v) * c08Units[u]
						}
						if got != want {
							vsched.Fail("C08/parser|overlong-misread", "over-long timeout value %q was read as %v (neither ignored nor its saturated natural reading %v)", s, got, want)
						}
					}
				}
			}
			vsched.Count("inputs", n)
			vsched.Obs("%d malformed values", n)
		},
	})
	// header key/value end to end on the server seam
	out = append(out, c08Server())
	// caller deadline -> handler deadline, end to end
	for _, stream := range []bool{false, true} {
		for _, transit := range []time.Duration{0, 500 * time.Microsecond, 3 * time.Millisecond} {
			for _, race := range []bool{false, true} {
				out = append(out, c08EndToEnd(stream, transit, race))
			}
		}
		out = append(out, c08ServeCtxCancelled(stream))
		// the context handed to Serve has a deadline itself: later than every caller's, and in the middle of them
		out = append(out, c08EndToEndS(stream, 0, false, 20000*time.Hour), c08EndToEndS(stream, 500*time.Microsecond, false, 30*time.Minute))
	}
	// the same windows with features combined: through a demultiplexer / a proxy with an address-rewriting callback, with stats handlers and interceptors
	out = append(out, withConfig([]string{"via-rewriting-proxy", "demux+stats2+chain", "stats2+interceptors+services"}, c08EndToEnd(false, 0, false), c08EndToEnd(true, 0, false), c08SharedContext(false, time.Hour, 7*time.Minute, 3))...)
	for _, stream := range []bool{false, true} {
		for _, order := range []string{"cancelled-then-expired", "expired-then-cancelled", "cancelled-only", "expired-only"} {
			out = append(out, c08DoneTwice(stream, order))
		}
	}
	out = append(out, c08Concurrent(2, false, time.Hour, 2), c08Concurrent(2, true, 30*time.Second, 1), c08Concurrent(3, true, time.Hour, 1), c08Concurrent(8, true, time.Hour, 0))
	// several calls under one context (same absolute deadline), time passing in between
	for _, stream := range []bool{false, true} {
		out = append(out, c08SharedContext(stream, 5*time.Second, 400*time.Millisecond, 4), c08SharedContext(stream, time.Hour, 7*time.Minute, 5), c08SharedContext(stream, 300*time.Hour, 31*time.Hour, 4))
	}
	// requests that wait for a worker of the unary pool (8 per connection) before their handler starts
	qto := []time.Duration{30 * time.Second, time.Hour, 99999999 * time.Second, 5000 * time.Hour}
	out = append(out, c08Queued(7, 400*time.Millisecond, qto), c08Queued(8, 400*time.Millisecond, qto), c08Queued(12, 3*time.Second, qto), c08Queued(8, 0, qto))
	// finer granularity (a scheduling point after every Unlock as well) on the small core scenarios
	out = append(out, fineGrained(c08Concurrent(2, false, time.Hour, 1), c08Concurrent(2, true, 30*time.Second, 1))...)
	return out
}

func c08Server() *explore.Scenario {
	fam := "C08/server-header"
	return &explore.Scenario{
		Name: "C08/server-header/keys-and-values", Family: fam, Prop: "C08", Bound: 0, Horizon: time.Millisecond,
		Run: func() {
			keys := []string{"grpc-timeout", "GRPC-Timeout", "Grpc-Timeout", "gRPC-tImeOUT"}
			vals := []string{"0S", "0m", "00000000n", "0H", "00u", "1n", "7u", "250m", "3S", "2M", "1H", "00000005S", "99999999H", "99999999n", "2562048H", "153722867M",
				"", "S", "12", "-5S", "+5S", " 5S", "5 S", "5s", "5h", "1e3S", "0x1S", "123456789S"}
			w := env.NewWorld()
			d := env.NewDirect(w, env.DirectOpts{Pipe: env.PipeOpts{Cap: 64}, NoClient: true})
			vsched.GoNamed("peer-reader", func() {
				for {
					if _, err := d.Pipe.A.Read(context.Background()); err != nil {
						return
					}
				}
			})
			vsched.Settle()
			id := uint64(0)
			for _, stream := range []bool{false, true} {
				for _, k := range keys {
					for _, v := range vals {
						id++
						tag := fmt.Sprintf("t%d", id)
						var r *env.Rec
						var rpc *env.Rpc
						if stream {
							r = w.Rec(tag, "Bidi")
							w.Handlers[tag] = func(r *env.Rec, ss grpc.ServerStream) error { return nil }
							rpc = env.ReqOpen(id, env.MBidi, tag)
						} else {
							r = w.Rec(tag, "Unary")
							rpc = env.ReqUnary(id, tag, "x")
						}
						rpc.Header.Headers = append(rpc.Header.Headers, &goatorepo.KeyValue{Key: k, Value: v})
						now := time.Now()
						if err := d.Pipe.A.Inject(rpc); err != nil {
							vsched.Fail(fam+"|harness", "inject: %v", err)
							return
						}
						vsched.Settle()
						if r.HStarts != 1 {
							vsched.Fail(fam+"|handler-not-run", "request with %s=%q: handler ran %d times", k, v, r.HStarts)
							continue
						}
						dl, has := r.HCtx.Deadline()
						want, legal := refTimeout(v)
						switch {
						case legal && !has:
							vsched.Fail(fam+"|legal-ignored", "%s=%q (stream=%v): handler has no deadline", k, v, stream)
						case legal && has:
							wantDl := now.Add(want)
							if want > time.Duration(math.MaxInt64)-time.Duration(now.UnixNano()) {
								// saturated: anything "far in the future" is right
								if dl.Sub(now) < 290*365*24*time.Hour && dl.Sub(now) < want/2 {
									vsched.Fail(fam+"|legal-misread", "%s=%q: handler deadline is only %v away", k, v, dl.Sub(now))
								}
							} else if !dl.Equal(wantDl) {
								vsched.Fail(fam+"|legal-misread", "%s=%q (stream=%v): handler deadline is %v away, want %v", k, v, stream, dl.Sub(now), want)
							}
						case !legal && has:
							nat := false
							if len(v) > 9 { // over-long all-digit: natural reading allowed
								if n, err := strconv.ParseInt(v[:len(v)-1], 10, 64); err == nil && n >= 0 {
									if u, ok := c08Units[v[len(v)-1]]; ok && dl.Sub(now) == time.Duration(n)*u {
										nat = true
									}
								}
							}
							if !nat {
								vsched.Fail(fam+"|malformed-accepted", "%s=%q (stream=%v): malformed value gave the handler a deadline %v away", k, v, stream, dl.Sub(now))
							}
						}
					}
				}
			}
			// two timeout headers, one malformed and one well-formed, in both orders and key cases
			// (a caller's own metadata may carry the key; goat's client appends its header after it):
			// the malformed one is ignored, the well-formed one is honoured
			for _, stream := range []bool{false, true} {
				for _, bad := range []string{"soon", "", "-5S", "5s", "12", "S"} {
					for _, badFirst := range []bool{true, false} {
						for _, kpair := range [][2]string{{"grpc-timeout", "grpc-timeout"}, {"grpc-timeout", "GRPC-Timeout"}, {"Grpc-Timeout", "grpc-timeout"}} {
							id++
							tag := fmt.Sprintf("t%d", id)
							var r *env.Rec
							var rpc *env.Rpc
							if stream {
								r = w.Rec(tag, "Bidi")
								w.Handlers[tag] = func(r *env.Rec, ss grpc.ServerStream) error { return nil }
								rpc = env.ReqOpen(id, env.MBidi, tag)
							} else {
								r = w.Rec(tag, "Unary")
								rpc = env.ReqUnary(id, tag, "x")
							}
							hb := &goatorepo.KeyValue{Key: kpair[0], Value: bad}
							hg := &goatorepo.KeyValue{Key: kpair[1], Value: "250m"}
							if badFirst {
								rpc.Header.Headers = append(rpc.Header.Headers, hb, hg)
							} else {
								rpc.Header.Headers = append(rpc.Header.Headers, hg, hb)
							}
							now := time.Now()
							d.Pipe.A.Inject(rpc)
							vsched.Settle()
							if r.HStarts != 1 {
								vsched.Fail(fam+"|handler-not-run", "request with two timeout headers: handler ran %d times", r.HStarts)
								continue
							}
							dl, has := r.HCtx.Deadline()
							if !has || !dl.Equal(now.Add(250*time.Millisecond)) {
								vsched.Fail(fam+"|valid-shadowed-by-malformed", "headers %s=%q and %s=250m (malformed first=%v, stream=%v): handler deadline present=%v, %v away; want 250ms (the malformed value is ignored, the well-formed one honoured)", kpair[0], bad, kpair[1], badFirst, stream, has, dl.Sub(now))
							}
						}
					}
				}
			}
			vsched.Obs("requests=%d", id)
			vsched.Count("inputs", int64(id))
		},
	}
}

func c08EndToEnd(stream bool, transit time.Duration, ctxRace bool) *explore.Scenario {
	return c08EndToEndS(stream, transit, ctxRace, 0)
}

// serveTimeout > 0: the context handed to Serve has a deadline of its own (a
// bound on the connection's lifetime); the handler's deadline is then the
// earlier of that and the caller's.
func c08EndToEndS(stream bool, transit time.Duration, ctxRace bool, serveTimeout time.Duration) *explore.Scenario {
	fam := "C08/end-to-end"
	name := fmt.Sprintf("C08/end-to-end/stream=%v/transit=%v/ctxrace=%v", stream, transit, ctxRace)
	if serveTimeout > 0 {
		name += fmt.Sprintf("/serve-deadline=%v", serveTimeout)
	}
	return &explore.Scenario{
		Name: name, Family: fam, Prop: "C08", Bound: 0, Horizon: time.Nanosecond,
		Run: func() {
			timeouts := []time.Duration{-time.Second, 0, 1, 999 * time.Microsecond, time.Millisecond, 1500 * time.Microsecond, 2 * time.Millisecond,
				time.Second, 1500*time.Millisecond + 7*time.Microsecond, time.Hour, time.Hour + 333*time.Millisecond,
				99999999 * time.Millisecond, 100000000 * time.Millisecond, 100000001 * time.Millisecond, 30*time.Hour + 500*time.Millisecond,
				100*time.Hour + 999*time.Millisecond, 10000*time.Hour - 500*time.Millisecond, 10000 * time.Hour, -2} // -2: no deadline at all
			w := env.NewWorld()
			d := env.NewDirect(w, env.DirectOpts{Pipe: env.PipeOpts{Cap: 64, CtxRace: ctxRace}, ServeTimeout: serveTimeout})
			serveDl, _ := d.ServeCtx.Deadline()
			d.Pipe.A.OnWrite = func(k int, rpc *env.Rpc) { vsched.Sleep(transit) }
			vsched.Settle()
			for i, to := range timeouts {
				tag := fmt.Sprintf("d%d", i)
				ctx := context.Background()
				cancel := func() {}
				var callerDl time.Time
				if to != -2 {
					ctx, cancel = context.WithTimeout(ctx, to)
					callerDl, _ = ctx.Deadline()
				}
				sendTime := time.Now()
				var r *env.Rec
				if stream {
					r = w.Rec(tag, "Bidi")
					w.Handlers[tag] = func(r *env.Rec, ss grpc.ServerStream) error { return nil }
					cs := w.Open(d.CC, ctx, r)
					_ = cs
				} else {
					r = w.Rec(tag, "Unary")
					w.CallUnary(d.CC, ctx, r, "x")
				}
				vsched.Settle()
				cancel()
				vsched.Settle()
				if r.HStarts == 0 {
					if to > 5*time.Millisecond || to == -2 {
						vsched.Fail(fam+"|handler-not-run", "timeout %v: the handler never ran (open err %v, err %v)", to, r.COpenErr, r.CErr)
					}
					continue
				}
				dl, has := r.HCtx.Deadline()
				vsched.Obs("timeout=%v handlerDeadline=%v(%v)", to, has, dl.Sub(sendTime))
				if serveTimeout > 0 && (to == -2 || serveDl.Before(callerDl)) {
					// the connection's own deadline is the earlier one: it is the handler's
					if !has || !dl.Equal(serveDl) {
						vsched.Fail(fam+"|deadline-wrong", "Serve context deadline %v, caller timeout %v: handler deadline present=%v, %v after the send; want the connection's deadline", serveTimeout, to, has, dl.Sub(sendTime))
					}
					continue
				}
				if to == -2 {
					if has {
						vsched.Fail(fam+"|deadline-invented", "caller without deadline: handler has one, %v away", dl.Sub(sendTime))
					}
					continue
				}
				if !has {
					vsched.Fail(fam+"|deadline-lost", "caller timeout %v: handler has no deadline", to)
					continue
				}
				lo := callerDl.Add(-time.Millisecond)
				hi := callerDl
				if m := sendTime.Add(time.Millisecond); m.After(hi) {
					hi = m
				}
				hi = hi.Add(transit)
				if dl.Before(lo) || dl.After(hi) {
					vsched.Fail(fam+"|deadline-wrong", "caller timeout %v (transit %v): handler deadline is %v after the send, allowed window [%v, %v]", to, transit, dl.Sub(sendTime), lo.Sub(sendTime), hi.Sub(sendTime))
				}
			}
			vsched.Count("inputs", int64(len(timeouts)))
		},
	}
}

// c08ServeCtxCancelled: the context that was handed to Serve is cancelled while
// the Server is not stopped and the transport works. Whatever the server then
// does with the connection, a call it still serves and whose caller has a
// deadline runs its handler with a deadline too.
func c08ServeCtxCancelled(stream bool) *explore.Scenario {
	fam := "C08/end-to-end"
	return &explore.Scenario{
		Name: fmt.Sprintf("C08/end-to-end/serve-context-cancelled/stream=%v", stream), Family: fam, Prop: "C08", Bound: 1, Horizon: time.Nanosecond,
		Run: func() {
			w := env.NewWorld()
			d := env.NewDirect(w, env.DirectOpts{Pipe: env.PipeOpts{Cap: 64}})
			vsched.Settle()
			vsched.Explore(true)
			d.StopServe() // cancels the context given to Serve; Stop() is not called
			vsched.Quiesce()
			ctx, cancel := context.WithTimeout(context.Background(), 5*time.Second)
			defer cancel()
			var r *env.Rec
			if stream {
				r = w.Rec("s", "Bidi")
				w.Handlers["s"] = func(r *env.Rec, ss grpc.ServerStream) error { return nil }
				vsched.GoNamed("caller", func() {
					if cs := w.Open(d.CC, ctx, r); cs != nil {
						env.CRecvAll(r, cs)
					}
					r.CDone = true
				})
			} else {
				r = w.Rec("u", "Unary")
				vsched.GoNamed("caller", func() { w.CallUnary(d.CC, ctx, r, "x") })
			}
			vsched.Quiesce()
			vsched.Obs("serveDone=%v handler starts=%d", d.ServeDone, r.HStarts)
			if r.HStarts > 0 {
				if _, has := r.HCtx.Deadline(); !has {
					vsched.Fail(fam+"|deadline-lost", "the context given to Serve was cancelled; a call with a 5 s deadline was still served, and its handler's context has no deadline")
				}
			}
			cancel()
			d.Pipe.A.Break()
			d.Pipe.B.Break()
			vsched.Quiesce()
		},
	}
}

// c08Queued: `busy` unary handlers are running (waiting for a gate) when a further unary call
// with a deadline arrives; with 8 or more busy the request waits for a worker. The gate opens
// `wait` later (fake clock). The handler's deadline is within [caller's - 1ms, caller's + transit],
// transit being the time from the call to the handler's start.
func c08Queued(busy int, wait time.Duration, timeouts []time.Duration) *explore.Scenario {
	fam := "C08/queued"
	return &explore.Scenario{
		Name: fmt.Sprintf("C08/queued/busy=%d/wait=%v", busy, wait), Family: fam, Prop: "C08", Bound: 0, Horizon: time.Nanosecond,
		Run: func() {
			w := env.NewWorld()
			d := env.NewDirect(w, env.DirectOpts{Pipe: env.PipeOpts{Cap: 64}})
			vsched.Settle()
			for i, to := range timeouts {
				gate := make(chan struct{})
				for b := 0; b < busy; b++ {
					tag := fmt.Sprintf("busy%d.%d", i, b)
					r := w.Rec(tag, "Unary")
					w.Unaries[tag] = func(r *env.Rec, ctx context.Context, in string) (string, error) {
						<-gate
						return "ok", nil
					}
					vsched.GoNamed("caller-"+tag, func() { w.CallUnary(d.CC, context.Background(), r, "x") })
				}
				vsched.Settle()
				tag := fmt.Sprintf("q%d", i)
				r := w.Rec(tag, "Unary")
				var started time.Time
				w.Unaries[tag] = func(r *env.Rec, ctx context.Context, in string) (string, error) {
					started = time.Now()
					return "ok", nil
				}
				ctx, cancel := context.WithTimeout(context.Background(), to)
				callerDl, _ := ctx.Deadline()
				sendTime := time.Now()
				vsched.GoNamed("caller-"+tag, func() { w.CallUnary(d.CC, ctx, r, "x") })
				vsched.Settle()
				vsched.Sleep(wait)
				close(gate)
				vsched.Settle()
				cancel()
				if r.HStarts != 1 {
					vsched.Fail(fam+"|handler-not-run", "%d unary handlers busy, a further call with timeout %v: its handler ran %d times (caller: done=%v err=%v)", busy, to, r.HStarts, r.CDone, r.CErr)
					continue
				}
				dl, has := r.HCtx.Deadline()
				transit := started.Sub(sendTime)
				vsched.Obs("busy=%d timeout=%v transit=%v handlerDeadline=%v(%v after the call)", busy, to, transit, has, dl.Sub(sendTime))
				if !has {
					vsched.Fail(fam+"|deadline-lost", "%d handlers busy, caller timeout %v: the handler has no deadline", busy, to)
					continue
				}
				if dl.Before(callerDl.Add(-time.Millisecond)) || dl.After(callerDl.Add(transit)) {
					vsched.Fail(fam+"|deadline-wrong", "%d handlers busy, caller timeout %v, request %v in transit (waiting for a worker included): handler deadline is %v after the call, allowed window [%v, %v]",
						busy, to, transit, dl.Sub(sendTime), callerDl.Add(-time.Millisecond).Sub(sendTime), callerDl.Add(transit).Sub(sendTime))
				}
			}
			vsched.Count("inputs", int64(len(timeouts)))
		},
	}
}

// c08SharedContext: several calls, `gap` apart, under ONE context (the same absolute deadline):
// a batch, a retry loop, contexts derived from one parent. Each handler's deadline is within
// [caller's - 1ms, caller's + transit] - the header is relative, so it must shrink from call to call.
func c08SharedContext(stream bool, total, gap time.Duration, calls int) *explore.Scenario {
	fam := "C08/shared-context"
	return &explore.Scenario{
		Name: fmt.Sprintf("C08/shared-context/stream=%v/deadline=%v/gap=%v/calls=%d", stream, total, gap, calls), Family: fam, Prop: "C08", Bound: 0, Horizon: time.Nanosecond,
		Run: func() {
			w := env.NewWorld()
			d := env.NewDirect(w, env.DirectOpts{Pipe: env.PipeOpts{Cap: 64}})
			vsched.Settle()
			ctx, cancel := context.WithTimeout(context.Background(), total)
			defer cancel()
			callerDl, _ := ctx.Deadline()
			for i := 0; i < calls; i++ {
				tag := fmt.Sprintf("c%d", i)
				var r *env.Rec
				if stream {
					r = w.Rec(tag, "Bidi")
					w.Handlers[tag] = func(r *env.Rec, ss grpc.ServerStream) error { return nil }
					vsched.GoNamed("caller-"+tag, func() { w.Open(d.CC, ctx, r) })
				} else {
					r = w.Rec(tag, "Unary")
					vsched.GoNamed("caller-"+tag, func() { w.CallUnary(d.CC, ctx, r, "x") })
				}
				vsched.Settle()
				if r.HStarts != 1 {
					vsched.Fail(fam+"|handler-not-run", "call %d under the shared context: the handler ran %d times (err %v)", i, r.HStarts, r.CErr)
					return
				}
				dl, has := r.HCtx.Deadline()
				vsched.Obs("call %d at +%v: handler deadline %v (caller's %v)", i, time.Duration(i)*gap, has, dl.Sub(callerDl))
				if !has {
					vsched.Fail(fam+"|deadline-lost", "call %d under a context with a deadline: the handler has none", i)
				} else if dl.Before(callerDl.Add(-time.Millisecond)) || dl.After(callerDl) {
					vsched.Fail(fam+"|deadline-wrong", "call %d, made %v after the first one under the same context (deadline %v after the first call, no transit time): the handler's deadline differs from the caller's by %v, allowed [-1ms, 0]", i, time.Duration(i)*gap, total, dl.Sub(callerDl))
				}
				vsched.Sleep(gap)
			}
			vsched.Count("inputs", int64(calls))
		},
	}
}

// c08DoneTwice: the caller's context is over twice - cancelled before its deadline, and the
// deadline has then passed as well (or the other way round) - and a call is still issued with
// it over a transport that lets a done context merely compete with the queue. If the request
// reaches the server at all, the handler has a deadline (the one-millisecond floor of the
// statement) - never none, never a negative or wrapped one.
func c08DoneTwice(stream bool, order string) *explore.Scenario {
	fam := "C08/done-twice"
	return &explore.Scenario{
		Name: fmt.Sprintf("C08/done-twice/stream=%v/%s", stream, order), Family: fam, Prop: "C08", Bound: 1, Horizon: time.Nanosecond,
		Run: func() {
			w := env.NewWorld()
			d := env.NewDirect(w, env.DirectOpts{Pipe: env.PipeOpts{Cap: 64, CtxRace: true}})
			vsched.Settle()
			ctx, cancel := context.WithTimeout(context.Background(), 50*time.Millisecond)
			defer cancel()
			switch order {
			case "cancelled-then-expired":
				cancel()
				vsched.Sleep(80 * time.Millisecond)
			case "expired-then-cancelled":
				vsched.Sleep(80 * time.Millisecond)
				cancel()
			case "cancelled-only":
				cancel()
			case "expired-only":
				vsched.Sleep(80 * time.Millisecond)
			}
			vsched.Explore(true)
			var r *env.Rec
			if stream {
				r = w.Rec("s", "Bidi")
				w.Handlers["s"] = func(r *env.Rec, ss grpc.ServerStream) error { return nil }
				vsched.GoNamed("caller", func() { w.Open(d.CC, ctx, r) })
			} else {
				r = w.Rec("u", "Unary")
				vsched.GoNamed("caller", func() { w.CallUnary(d.CC, ctx, r, "x") })
			}
			vsched.Quiesce()
			if r.HStarts == 0 {
				vsched.Obs("%s: the request never reached a handler (err %v)", order, r.CErr)
				return
			}
			dl, has := r.HCtx.Deadline()
			vsched.Obs("%s: handler ran, deadline present=%v", order, has)
			if !has {
				vsched.Fail(fam+"|deadline-lost", "a call issued under a context that was %s: the handler ran without any deadline", order)
			} else if dl.After(time.Now().Add(time.Second)) {
				vsched.Fail(fam+"|deadline-wrong", "a call issued under a context that was %s (deadline 50 ms, long gone): the handler's deadline is %v away", order, time.Until(dl))
			}
		},
	}
}

// c08Concurrent: k calls with the same timeout (so the same header value) are started at once
// on one connection - unary calls interpreted by different workers, and a stream interpreted by
// the read loop: every handler has its deadline within the window of the statement.
func c08Concurrent(k int, withStream bool, timeout time.Duration, bound int) *explore.Scenario {
	fam := "C08/concurrent"
	return &explore.Scenario{
		Name: fmt.Sprintf("C08/concurrent/k=%d/stream=%v/timeout=%v", k, withStream, timeout), Family: fam, Prop: "C08", Bound: bound, Horizon: time.Nanosecond,
		Run: func() {
			w := env.NewWorld()
			d := env.NewDirect(w, env.DirectOpts{Pipe: env.PipeOpts{Cap: 64}})
			vsched.Settle()
			vsched.Explore(true)
			ctx, cancel := context.WithTimeout(context.Background(), timeout)
			defer cancel()
			callerDl, _ := ctx.Deadline()
			var rs []*env.Rec
			for i := 0; i < k; i++ {
				r := w.Rec(fmt.Sprintf("u%d", i), "Unary")
				rs = append(rs, r)
				vsched.GoNamed("caller-"+r.Tag, func() { w.CallUnary(d.CC, ctx, r, "x") })
			}
			if withStream {
				r := w.Rec("s", "Bidi")
				rs = append(rs, r)
				w.Handlers["s"] = func(r *env.Rec, ss grpc.ServerStream) error { return nil }
				vsched.GoNamed("caller-s", func() { w.Open(d.CC, ctx, r) })
			}
			vsched.Quiesce()
			for _, r := range rs {
				if r.HStarts != 1 {
					vsched.Fail(fam+"|handler-not-run", "call %s: handler ran %d times (err %v)", r.Tag, r.HStarts, r.CErr)
					continue
				}
				dl, has := r.HCtx.Deadline()
				if !has {
					vsched.Fail(fam+"|deadline-lost", "%d calls with the same timeout (%v) started at once: the handler of %s has no deadline", len(rs), timeout, r.Tag)
				} else if dl.Before(callerDl.Add(-time.Millisecond)) || dl.After(callerDl) {
					vsched.Fail(fam+"|deadline-wrong", "%d calls with the same timeout started at once: the handler of %s has its deadline %v off the caller's", len(rs), r.Tag, dl.Sub(callerDl))
				}
			}
		},
	}
}

// c08ConcurrentRaw: k calls started at once whose timeout is given as a raw grpc-timeout entry of
// the outgoing metadata - the largest representable value, the smallest that does not fit, far
// beyond: every handler has a deadline, not earlier than the largest representable one allows.
func c08ConcurrentRaw(k int, raw string, bound int) *explore.Scenario {
	fam := "C08/concurrent-raw"
	return &explore.Scenario{
		Name: fmt.Sprintf("C08/concurrent-raw/k=%d/timeout=%s", k, raw), Family: fam, Prop: "C08", Bound: bound, Horizon: time.Nanosecond,
		Run: func() {
			w := env.NewWorld()
			d := env.NewDirect(w, env.DirectOpts{Pipe: env.PipeOpts{Cap: 64}})
			vsched.Settle()
			vsched.Explore(true)
			start := time.Now()
			ctx := metadata.AppendToOutgoingContext(context.Background(), "grpc-timeout", raw)
			var rs []*env.Rec
			for i := 0; i < k; i++ {
				r := w.Rec(fmt.Sprintf("u%d", i), "Unary")
				rs = append(rs, r)
				vsched.GoNamed("caller-"+r.Tag, func() { w.CallUnary(d.CC, ctx, r, "x") })
			}
			r := w.Rec("s", "Bidi")
			rs = append(rs, r)
			w.Handlers["s"] = func(r *env.Rec, ss grpc.ServerStream) error { return nil }
			vsched.GoNamed("caller-s", func() { w.Open(d.CC, ctx, r) })
			vsched.Quiesce()
			for _, r := range rs {
				if r.HStarts != 1 {
					vsched.Fail(fam+"|handler-not-run", "call %s (grpc-timeout %s): handler ran %d times (err %v)", r.Tag, raw, r.HStarts, r.CErr)
					continue
				}
				dl, has := r.HCtx.Deadline()
				if !has {
					vsched.Fail(fam+"|deadline-lost", "%d calls with grpc-timeout %s started at once: the handler of %s has no deadline", len(rs), raw, r.Tag)
				} else if dl.Sub(start) < 2562047*time.Hour-time.Minute {
					vsched.Fail(fam+"|deadline-wrong", "%d calls with grpc-timeout %s started at once: the handler of %s has its deadline only %v away", len(rs), raw, r.Tag, dl.Sub(start))
				}
			}
		},
	}
}

// c08ParkedReadLoop: a call with a deadline is started while the connection's read loop is parked delivering to
// another stream whose caller is slow to read (so anything that needs the client's registry waits); `wait` later the
// slow caller reads on and the call proceeds. Waiting inside the client before the request is written is not transit:
// the handler's deadline is the caller's (the remaining time is measured when the request leaves, not before the wait).
func c08ParkedReadLoop(kind string, wait time.Duration) *explore.Scenario {
	fam := "C08/parked-read-loop-" + kind
	return &explore.Scenario{
		Name: fmt.Sprintf("C08/parked-read-loop/%s/wait=%v", kind, wait), Family: fam, Prop: "C08", Bound: 0, Horizon: time.Nanosecond,
		Run: func() {
			w := env.NewWorld()
			d := env.NewDirect(w, env.DirectOpts{Pipe: env.PipeOpts{Cap: 64}})
			vsched.Settle()
			slow := w.Rec("slow", "SStream")
			w.Handlers["slow"] = func(r *env.Rec, ss grpc.ServerStream) error {
				if _, err := recvOne(r, ss); err != nil && err != io.EOF {
					return err
				}
				for i := 0; i < 4; i++ {
					if err := ss.SendMsg(env.S(fmt.Sprintf("b%d", i))); err != nil {
						return err
					}
				}
				return nil
			}
			resume := make(chan struct{})
			vsched.GoNamed("caller-slow", func() {
				if cs := w.Open(d.CC, context.Background(), slow); cs != nil {
					env.CSend(slow, cs, "go")
					env.CClose(slow, cs)
					<-resume
					env.CRecvAll(slow, cs)
				}
				slow.CDone = true
			})
			vsched.Settle() // four responses outstanding: the read loop is parked
			ctx, cancel := context.WithTimeout(context.Background(), 3*time.Second)
			defer cancel()
			callerDl, _ := ctx.Deadline()
			r := w.Rec("p", kind)
			if kind == "Unary" {
				vsched.GoNamed("caller-p", func() { w.CallUnary(d.CC, ctx, r, "x") })
			} else {
				w.Handlers["p"] = func(r *env.Rec, ss grpc.ServerStream) error { return nil }
				vsched.GoNamed("caller-p", func() { w.Open(d.CC, ctx, r) })
			}
			vsched.Settle()
			started := r.HStarts
			vsched.Sleep(wait)
			close(resume)
			vsched.Settle()
			if r.HStarts != 1 {
				vsched.Fail(fam+"|handler-not-run", "the call started while the read loop was parked: handler ran %d times (err %v)", r.HStarts, r.CErr)
				return
			}
			dl, has := r.HCtx.Deadline()
			vsched.Obs("%s: handler had started before the wait: %v; deadline off by %v", kind, started == 1, dl.Sub(callerDl))
			if !has {
				vsched.Fail(fam+"|deadline-lost", "the handler has no deadline")
			} else if dl.Before(callerDl.Add(-time.Millisecond)) || dl.After(callerDl) {
				vsched.Fail(fam+"|deadline-late", "a %s call with a 3s deadline waited %v inside the client (the read loop was parked delivering to a slow reader) before its request was written: the handler's deadline differs from the caller's by %v, allowed [-1ms, 0]", kind, wait, dl.Sub(callerDl))
			}
		},
	}
}
