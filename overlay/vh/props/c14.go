package props

import (
	"bytes"
	"context"
	"errors"
	"fmt"
	"google.golang.org/grpc/metadata"
	"google.golang.org/protobuf/types/known/wrapperspb"
	"io"
	"strings"
	"time"

	"google.golang.org/grpc"
	"google.golang.org/grpc/codes"
	"google.golang.org/grpc/status"

	"github.com/avos-io/goat/vh/env"
	"github.com/avos-io/goat/vrt/explore"
	"github.com/avos-io/goat/vrt/vsched"
)

func init() { register("C14", c14) }

// c14State is the canonical quiescent connection state.
func c14State(d *env.Direct) string {
	var parts []string
	parts = append(parts, env.Snapshot(d.CC)...)
	parts = append(parts, env.ThreadProfile()...)
	parts = append(parts, fmt.Sprintf("pipe: a2b=%d b2a=%d", d.Pipe.Queued("a2b"), d.Pipe.Queued("b2a")))
	return strings.Join(parts, "\n")
}

// c14RPC runs one RPC of the given kind with the given outcome as the calling thread.
//
//	outcomes: ok, herr, cancel<k> (cancel after k caller operations), deadline, reset (server resets: body for unknown stream),
//	          openfail (the open envelope's transport write fails)
func c14RPC(w *env.World, d *env.Direct, kind, outcome, tag string) {
	r := w.Rec(tag, kind)
	var herr error
	switch outcome {
	case "herr":
		herr = status.Error(codes.Aborted, "no")
	case "herr-eof": // error VALUES a handler may return: io.EOF is an error like any other here
		herr = io.EOF
	case "herr-wrapped-eof":
		herr = fmt.Errorf("reading upstream: %w", io.EOF)
	case "herr-plain":
		herr = errors.New("plain failure")
	case "herr-ok-coded": // a non-nil error whose own gRPC status says OK: the handler still failed
		herr = okCodedError{}
	case "herr-canceled": // e.g. the error of a downstream call, not a cancellation of this RPC
		herr = context.Canceled
	}
	if kind == "Unary" {
		ctx, cancel := context.WithCancel(context.Background())
		defer cancel()
		switch {
		case outcome == "deadline" || outcome == "deadline-sub-ms":
			var c2 context.CancelFunc
			dl := 50 * time.Millisecond
			if outcome == "deadline-sub-ms" {
				dl = 700 * time.Microsecond // below the header's resolution: the one-millisecond floor must still reach the server
			}
			ctx, c2 = context.WithTimeout(ctx, dl)
			defer c2()
			w.Unaries[tag] = func(r *env.Rec, hctx context.Context, in string) (string, error) {
				<-hctx.Done()
				return "", status.FromContextError(hctx.Err()).Err()
			}
		case outcome == "cancelwait":
			w.Unaries[tag] = func(r *env.Rec, hctx context.Context, in string) (string, error) {
				cancel() // the caller gives up while the handler runs; the handler waits for its context
				<-hctx.Done()
				return "", status.FromContextError(hctx.Err()).Err()
			}
		case strings.HasPrefix(outcome, "cancel"):
			w.Unaries[tag] = func(r *env.Rec, hctx context.Context, in string) (string, error) {
				r.HCtx = hctx
				cancel() // the caller gives up while the handler runs; the handler finishes by itself
				return "late", nil
			}
		case outcome == "openfail":
			d.Pipe.A.FailNextWrites = 1
		default:
			w.Unaries[tag] = func(r *env.Rec, hctx context.Context, in string) (string, error) { return "ok", herr }
		}
		w.CallUnary(d.CC, ctx, r, "x")
		return
	}
	ctx, cancel := context.WithCancel(context.Background())
	defer func() {
		if !strings.HasPrefix(outcome, "sendbad") { // (that caller walks away WITHOUT cancelling: the failed SendMsg itself must release everything)
			cancel()
		}
	}()
	if outcome == "deadline" || outcome == "deadline-sub-ms" {
		var c2 context.CancelFunc
		dl := 50 * time.Millisecond
		if outcome == "deadline-sub-ms" {
			dl = 700 * time.Microsecond
		}
		ctx, c2 = context.WithTimeout(ctx, dl)
		defer c2()
	}
	switch outcome {
	case "ok", "herr", "herr-eof", "herr-wrapped-eof", "herr-plain", "herr-canceled", "herr-ok-coded":
		switch kind {
		case "SStream":
			w.Handlers[tag] = func(r *env.Rec, ss grpc.ServerStream) error {
				if err := env.HBurst(2)(r, ss); err != nil {
					return err
				}
				return herr
			}
		case "CStream":
			w.Handlers[tag] = func(r *env.Rec, ss grpc.ServerStream) error {
				if err := env.HCollect(r, ss); err != nil {
					return err
				}
				return herr
			}
		default:
			w.Handlers[tag] = func(r *env.Rec, ss grpc.ServerStream) error {
				if err := env.HEcho(r, ss); err != nil {
					return err
				}
				return herr
			}
		}
	case "reset", "lateempty":
		// the handler returns at once; the caller's later body is answered by a reset
		w.Handlers[tag] = env.HReturnAfter(0, nil)
	default:
		w.Handlers[tag] = env.HEcho
	}
	if outcome == "openfail" {
		d.Pipe.A.FailNextWrites = 1
	}
	if outcome == "cancelinopen" {
		// the cancellation lands while the stream-opening envelope is inside the transport write, and whatever
		// already runs on behalf of the stream reacts before that write returns (accepted or given up)
		prev := d.Pipe.A.OnWrite
		fired := false
		d.Pipe.A.OnWrite = func(k int, rpc *env.Rpc) {
			if prev != nil {
				prev(k, rpc)
			}
			if !fired && rpc.GetBody() == nil && rpc.GetTrailer() == nil && rpc.GetReset_() == nil && hasTag(rpc, tag) {
				fired = true
				cancel()
				vsched.Yield("cancelled-in-open")
			}
		}
		defer func() { d.Pipe.A.OnWrite = prev }()
	}
	cs := w.Open(d.CC, ctx, r)
	if cs == nil {
		return
	}
	ops := "SRC"
	if kind == "SStream" {
		ops = "SCR"
	} else if kind == "CStream" {
		ops = "SSC"
	}
	n := 0
	var log []c07Op
	never := func() bool { return false }
	switch {
	case outcome == "sendbad" || outcome == "sendbad-utf8":
		// one SendMsg is given a message the codec cannot encode (nothing reaches the transport); the caller
		// walks away without cancelling, as it may after a failed SendMsg
		runOps(r, cs, "S", never, &log, &n)
		var err error
		if outcome == "sendbad" {
			err = cs.SendMsg("not a protobuf message")
		} else {
			err = cs.SendMsg(&wrapperspb.StringValue{Value: "\xff\xfe invalid utf-8"})
		}
		if err == nil {
			vsched.Fail("C14/release|harness", "SendMsg of an unencodable message reported success")
		}
		r.CSendErrs = append(r.CSendErrs, fmt.Sprint(err))
	case outcome == "sendfail":
		// one SendMsg fails in the transport while the connection stays usable
		runOps(r, cs, "S", never, &log, &n)
		d.Pipe.A.FailNextWrites = 1
		runOps(r, cs, "SR", never, &log, &n)
	case outcome == "cancelinsend":
		// the cancellation lands while a SendMsg is inside the transport write, and the stream's
		// own goroutines react to it before that write returns (both ways the write may end -
		// accepted or given up - are explored as select alternatives)
		prev := d.Pipe.A.OnWrite
		marker := []byte(tag + ".m1")
		d.Pipe.A.OnWrite = func(k int, rpc *env.Rpc) {
			if prev != nil {
				prev(k, rpc)
			}
			if b := rpc.GetBody(); b != nil && bytes.Contains(b.GetData(), marker) {
				cancel()
				vsched.Yield("cancelled-in-write")
			}
		}
		runOps(r, cs, "SSR", never, &log, &n)
		d.Pipe.A.OnWrite = prev
	case outcome == "cancelsend":
		// the caller cancels and immediately tries to send
		runOps(r, cs, "S", never, &log, &n)
		cancel()
		runOps(r, cs, "SR", never, &log, &n)
	case strings.HasPrefix(outcome, "cancel"):
		k := int(outcome[len(outcome)-1] - '0')
		if k > len(ops) {
			k = len(ops)
		}
		runOps(r, cs, ops[:k], never, &log, &n)
		cancel()
		runOps(r, cs, "R", never, &log, &n)
	case outcome == "deadline" || outcome == "deadline-sub-ms":
		runOps(r, cs, "SRR", never, &log, &n) // the second R blocks until the deadline
	case outcome == "lateempty":
		// zero-length messages sent while the handler is returning / has returned
		for i := 0; i < 3; i++ {
			if err := cs.SendMsg(env.S("")); err != nil {
				break
			}
		}
		env.CRecvAll(r, cs)
	case outcome == "reset":
		// keep sending until the server's reset (a body for a stream it no longer knows) ends the stream
		env.CRecvOne(r, cs) // the handler's trailer: clean end
		runOps(r, cs, "SS", never, &log, &n)
	default:
		runOps(r, cs, ops, never, &log, &n)
		env.CRecvAll(r, cs)
	}
}

func c14(tier string) []*explore.Scenario {
	var out []*explore.Scenario
	kinds := []string{"Unary", "Bidi", "SStream", "CStream"}
	outcomes := []string{"ok", "herr", "cancel0", "cancel1", "cancel2", "cancel3", "deadline", "reset", "lateempty", "openfail", "sendfail", "cancelsend", "cancelinsend", "deadline-sub-ms", "sendbad", "sendbad-utf8", "cancelinopen"}
	bound := 1
	if tier == "thorough" {
		bound = 2
	}
	for _, k := range kinds {
		for _, o := range outcomes {
			if k == "Unary" && (o == "reset" || o == "lateempty" || o == "sendfail" || o == "cancelinsend" || o == "cancelinopen" || strings.HasPrefix(o, "sendbad") || (strings.HasPrefix(o, "cancel") && o != "cancel0")) {
				continue
			}
			out = append(out, c14One([][2]string{{k, o}}, bound))
		}
	}
	out = append(out, c14One([][2]string{{"Unary", "cancelwait"}}, bound))
	// two overlapping RPCs
	pairs := [][2][2]string{
		{{"Unary", "ok"}, {"Bidi", "cancel1"}}, {{"Bidi", "ok"}, {"Bidi", "reset"}}, {{"Bidi", "herr"}, {"Unary", "deadline"}},
		{{"SStream", "cancel2"}, {"CStream", "ok"}}, {{"Bidi", "openfail"}, {"Unary", "ok"}}, {{"Bidi", "deadline"}, {"Bidi", "cancel0"}},
	}
	for _, p := range pairs {
		out = append(out, c14One([][2]string{p[0], p[1]}, bound-1+0))
	}
	// a handler that goes on using its stream after the caller has cancelled
	for _, ops := range []string{"h", "H", "s", "t", "r", "hs", "Hs", "sh", "ts", "hh"} {
		out = append(out, c14AfterCancel(ops, bound))
	}
	// a stream cancelled long after it was opened (the C07 scenario, reporting its idle-state clause here)
	out = append(out, donors("C14", []*explore.Scenario{c07OldStream(31*time.Second, bound), c07OldStream(time.Hour, bound)})...)
	// the user closes the ClientConn while calls are in flight
	for _, ctxRace := range []bool{false, true} {
		out = append(out, c14CloseInFlight(ctxRace, bound))
	}
	// batches of RPCs in flight at once (all kinds, mixed outcomes), repeated from the state the previous batch left
	// the same fixed-point argument from states reached by earlier RPCs (not only from a fresh connection)
	{
		var base []*explore.Scenario
		for _, k := range kinds {
			for _, o := range []string{"ok", "herr", "cancel1", "reset", "openfail", "cancelsend"} {
				if k == "Unary" && (o == "reset" || o == "cancel1" || o == "cancelsend") {
					continue
				}
				base = append(base, c14One([][2]string{{k, o}}, 1))
			}
		}
		out = append(out, withHistory(historyKinds(tier), base...)...)
		out = append(out, withConfig(configKinds(tier), base...)...)
	}
	out = append(out, c14Batch(8, 2, 1), c14Batch(16, 2, 0), c14Batch(32, 2, 0), c01FailedWriteOlder("C14", 1))
	// RPCs pending on the server at once (more than the 8 workers of the unary pool; up to 32 in all)
	out = append(out, c14Pending(8, 0, 2, 0), c14Pending(9, 0, 2, 0), c14Pending(12, 4, 3, 0), c14Pending(24, 8, 2, 0), c14Pending(3, 1, 1, 1))
	if tier == "thorough" {
		out = append(out, c14Batch(8, 2, 2), c14Batch(32, 3, 1))
	}
	n := 2000
	if tier == "thorough" {
		n = 50000
	}
	out = append(out, c14History(n))
	out = append(out, apiSeqs("C14", tier)...)
	out = append(out, handlerSeqs("C14", tier)...)
	out = append(out, opInWriteAll("C14", 1)...)
	out = append(out, foreignContextCancel("C14", "Bidi", 2), foreignContextCancel("C14", "SStream", 1))
	// finer granularity (a scheduling point after every Unlock as well) on the small core scenarios
	out = append(out, fineGrained(c14One([][2]string{{"Bidi", "cancel1"}}, 1), c14One([][2]string{{"Unary", "ok"}, {"Bidi", "cancel1"}}, 1))...)
	return out
}

func c14One(rpcs [][2]string, bound int) *explore.Scenario {
	fam := "C14/release"
	name := "C14/idle-fixpoint"
	for _, r := range rpcs {
		name += "/" + r[0] + ":" + r[1]
	}
	return &explore.Scenario{
		Name: name, Family: fam, Prop: "C14", Bound: bound, Horizon: time.Hour,
		Run: func() {
			w := env.NewWorld()
			d := env.NewDirect(w, env.DirectOpts{Pipe: env.PipeOpts{Cap: 64}})
			vsched.Settle()
			if d.Virtual {
				// a demultiplexer / proxy in between sets up its logical connection (and the Serve
				// behind it) at the first envelope: "idle" is the state after a first call
				wu := w.Rec("warmup", "Unary")
				vsched.GoNamed("warmup", func() { w.CallUnary(d.CC, context.Background(), wu, "x") })
				vsched.Settle()
			}
			idle := c14State(d)
			vsched.Explore(true)
			for i, r := range rpcs {
				i, r := i, r
				vsched.GoNamed(fmt.Sprintf("rpc%d", i), func() { c14RPC(w, d, r[0], r[1], fmt.Sprintf("r%d", i)) })
			}
			vsched.QuiesceTime()
			after := c14State(d)
			vsched.Obs("idle-again=%v", after == idle)
			if after != idle {
				vsched.Fail(fam+"|not-idle:"+diffKey(idle, after)+"|"+rpcsKey(rpcs), "after %v the connection did not return to its idle state:\n%s", rpcs, diffStates(idle, after))
			}
			finishDirect(d, w, false)
			// differential: a further call behaves as on a fresh connection
			p := w.Rec("probe", "Unary")
			vsched.GoNamed("probe", func() { w.CallUnary(d.CC, context.Background(), p, "x") })
			vsched.Quiesce()
			checkUnary(p, "x", fam)
			// server side: a leaked stream registration keeps Serve from returning
			d.Pipe.A.Break()
			d.Pipe.B.Break()
			vsched.Quiesce()
			if !d.ServeDone && !d.Virtual {
				vsched.Fail(fam+"|serve-hang", "after %v: Serve does not return when the connection closes (a stream registration leaked?): %s", rpcs, threadList())
			}
			if d.Virtual {
				// behind a demultiplexer / proxy the logical connection outlives the client's pipe: Stop ends its Serve
				d.Srv.Stop()
				vsched.Quiesce()
				if !d.ServeDone {
					vsched.Fail(fam+"|serve-hang", "after %v (%s in between): Serve does not return on Stop (a stream registration leaked?): %s", rpcs, "a demultiplexer or proxy", threadList())
				}
			}
		},
	}
}

// c14Batch: `rounds` batches of k RPCs started together (kinds and outcomes
// cycling), the connection quiescing in between; after every batch the
// connection is back in its idle state.
func c14Batch(k, rounds, bound int) *explore.Scenario {
	fam := "C14/release"
	return &explore.Scenario{
		Name: fmt.Sprintf("C14/batch/k=%d/rounds=%d/d=%d", k, rounds, bound), Family: fam, Prop: "C14", Bound: bound, Horizon: time.Hour, SelectCost: true,
		Run: func() {
			w := env.NewWorld()
			d := env.NewDirect(w, env.DirectOpts{Pipe: env.PipeOpts{Cap: 256}})
			d.Pipe.Tap = nil
			vsched.Settle()
			idle := c14State(d)
			vsched.Explore(true)
			kinds := []string{"Unary", "Bidi", "SStream", "CStream"}
			outcomes := []string{"ok", "herr", "cancel1", "deadline", "reset", "cancel0", "ok", "cancel2", "lateempty", "cancelsend"}
			n := 0
			for round := 0; round < rounds; round++ {
				var mix []string
				for i := 0; i < k; i++ {
					kind, o := kinds[n%4], outcomes[(n/4+n)%len(outcomes)]
					if kind == "Unary" && o != "ok" && o != "herr" && o != "deadline" {
						o = "cancel0"
					}
					tag := fmt.Sprintf("b%d", n)
					n++
					mix = append(mix, kind+":"+o)
					vsched.GoNamed("rpc-"+tag, func() { c14RPC(w, d, kind, o, tag) })
				}
				vsched.QuiesceTime()
				if st := c14State(d); st != idle {
					vsched.Fail(fam+"|not-idle:"+diffKey(idle, st)+"|batch", "after batch %d of %d concurrent RPCs (%v) the connection did not return to its idle state:\n%s", round, k, mix, diffStates(idle, st))
					return
				}
			}
			vsched.Obs("%d batches of %d: idle after each", rounds, k)
			p := w.Rec("probe", "Unary")
			vsched.GoNamed("probe", func() { w.CallUnary(d.CC, context.Background(), p, "x") })
			vsched.Quiesce()
			checkUnary(p, "x", fam)
			d.Pipe.A.Break()
			d.Pipe.B.Break()
			vsched.Quiesce()
			if !d.ServeDone {
				vsched.Fail(fam+"|serve-hang", "after %d batches of %d RPCs: Serve does not return when the connection closes: %s", rounds, k, threadList())
			}
		},
	}
}

// c14AfterCancel: the caller cancels; the handler notices (its context is
// done) and only then performs ops on the stream - h SendHeader, H SetHeader,
// s SendMsg, t SetTrailer, r RecvMsg - before returning. Whatever those calls
// return, the connection is idle afterwards and Serve can return.
func c14AfterCancel(ops string, bound int) *explore.Scenario {
	fam := "C14/release"
	return &explore.Scenario{
		Name: "C14/after-cancel/handler-ops=" + ops, Family: fam, Prop: "C14", Bound: bound, Horizon: time.Hour,
		Run: func() {
			w := env.NewWorld()
			d := env.NewDirect(w, env.DirectOpts{Pipe: env.PipeOpts{Cap: 64}})
			vsched.Settle()
			idle := c14State(d)
			vsched.Explore(true)
			r := w.Rec("s", "Bidi")
			w.Handlers["s"] = func(r *env.Rec, ss grpc.ServerStream) error {
				ss.RecvMsg(new(env.Msg))
				<-ss.Context().Done()
				for i, op := range ops {
					md := metadata.MD{fmt.Sprintf("k%d", i): {"v"}}
					switch op {
					case 'h':
						ss.SendHeader(md)
					case 'H':
						ss.SetHeader(md)
					case 's':
						ss.SendMsg(env.S("late"))
					case 't':
						ss.SetTrailer(md)
					case 'r':
						ss.RecvMsg(new(env.Msg))
					}
				}
				return status.FromContextError(ss.Context().Err()).Err()
			}
			ctx, cancel := context.WithCancel(context.Background())
			defer cancel()
			vsched.GoNamed("caller", func() {
				cs := w.Open(d.CC, ctx, r)
				if cs != nil {
					env.CSend(r, cs, "m")
					cancel()
					env.CRecvAll(r, cs)
				}
				r.CDone = true
			})
			vsched.QuiesceTime()
			after := c14State(d)
			vsched.Obs("ops=%s idle-again=%v handler returned=%v", ops, after == idle, r.HReturned)
			if !r.HReturned && r.HStarts > 0 {
				vsched.Fail(fam+"|hang", "the handler that used its stream (%s) after the caller cancelled never returned; threads: %s", ops, threadList())
			}
			if after != idle {
				vsched.Fail(fam+"|not-idle:"+diffKey(idle, after)+"|after-cancel", "a handler performed %s on its stream after the caller had cancelled: the connection did not return to its idle state:\n%s", ops, diffStates(idle, after))
			}
			finishDirect(d, w, true) // what the handler still put on the wire conforms to the protocol (C06)
			d.Pipe.A.Break()
			d.Pipe.B.Break()
			vsched.Quiesce()
			if !d.ServeDone {
				vsched.Fail(fam+"|serve-hang", "a handler performed %s on its stream after the caller had cancelled: Serve does not return when the connection closes; threads: %s", ops, threadList())
			}
		},
	}
}

// c14CloseInFlight: ClientConn.Close() is called while a unary call and a stream
// are in flight (the stream's handler still has messages to send), on a
// transport that honours a done context and on one where it merely competes
// with available data. The stream is then cancelled. Every call returns, and
// once the transport is closed nothing of the connection remains.
func c14CloseInFlight(ctxRace bool, bound int) *explore.Scenario {
	fam := "C14/release"
	return &explore.Scenario{
		Name: fmt.Sprintf("C14/close-in-flight/ctxrace=%v", ctxRace), Family: fam, Prop: "C14", Bound: bound, Horizon: time.Hour,
		Run: func() {
			w := env.NewWorld()
			d := env.NewDirect(w, env.DirectOpts{Pipe: env.PipeOpts{Cap: 64, CtxRace: ctxRace}})
			vsched.Settle()
			vsched.Explore(true)
			rs, ru := w.Rec("s", "Bidi"), w.Rec("u", "Unary")
			w.Handlers["s"] = env.HBurst(4)
			release := make(chan struct{})
			w.Unaries["u"] = func(r *env.Rec, ctx context.Context, in string) (string, error) {
				select {
				case <-release:
				case <-ctx.Done():
				}
				return "R:" + in, nil
			}
			ctx, cancel := context.WithCancel(context.Background())
			defer cancel()
			var cs grpc.ClientStream
			vsched.GoNamed("caller-s", func() {
				cs = w.Open(d.CC, ctx, rs)
				if cs != nil {
					env.CSend(rs, cs, "go")
				}
			})
			vsched.GoNamed("caller-u", func() { w.CallUnary(d.CC, context.Background(), ru, "x") })
			vsched.Quiesce()
			d.CC.Close()
			close(release)
			sdone := false
			vsched.GoNamed("caller-s2", func() {
				if cs != nil {
					cancel()
					env.CRecvAll(rs, cs)
				}
				sdone = true
			})
			vsched.Quiesce()
			vsched.Obs("ctxrace=%v: stream done=%v err=%s; unary done=%v err=%s", ctxRace, sdone, env.ErrStr(rs.CErr), ru.CDone, env.ErrStr(ru.CErr))
			if !sdone {
				vsched.Fail(fam+"|hang", "Close() with calls in flight: the cancelled stream's receive never returned; threads: %s", threadList())
			}
			if !ru.CDone {
				vsched.Fail(fam+"|hang", "Close() with calls in flight: the unary call never returned; threads: %s", threadList())
			}
			d.Pipe.A.Break()
			d.Pipe.B.Break()
			vsched.Quiesce()
			if !d.ServeDone {
				vsched.Fail(fam+"|serve-hang", "Serve does not return when the connection closes; threads: %s", threadList())
			}
			if ts := vsched.Threads(); len(ts) > 0 {
				vsched.Fail(fam+"|not-idle:goroutine|close-in-flight", "after Close(), the end of all calls and the transport closing, goroutines remain: %s", threadList())
			}
		},
	}
}

func rpcsKey(rpcs [][2]string) string {
	var p []string
	for _, r := range rpcs {
		p = append(p, r[0]+":"+r[1])
	}
	return strings.Join(p, "+")
}

func diffStates(a, b string) string {
	as, bs := strings.Split(a, "\n"), strings.Split(b, "\n")
	am, bm := map[string]int{}, map[string]int{}
	for _, l := range as {
		am[l]++
	}
	for _, l := range bs {
		bm[l]++
	}
	var out []string
	for l, n := range am {
		if bm[l] < n {
			out = append(out, "  idle only: "+l)
		}
	}
	for l, n := range bm {
		if am[l] < n {
			out = append(out, "  now:       "+l)
		}
	}
	return strings.Join(out, "\n")
}

// diffKey: a stable, line-number-free summary of what differs (for violation keys).
func diffKey(a, b string) string {
	d := diffStates(a, b)
	switch {
	case strings.Contains(d, "map-len"):
		return "registration"
	case strings.Contains(d, "pipe:"):
		return "queue"
	case strings.Contains(d, "/"):
		return "goroutine"
	}
	return "state"
}

// c14History: a long sequential history of mixed RPCs; the idle state is
// compared at every quiescent point (counter check, default schedule).
func c14History(n int) *explore.Scenario {
	fam := "C14/history"
	return &explore.Scenario{
		Name: fmt.Sprintf("C14/history/n=%d", n), Family: fam, Prop: "C14", Once: true, MaxSteps: 2000 * n, Horizon: 1000000 * time.Hour,
		Run: func() {
			w := env.NewWorld()
			d := env.NewDirect(w, env.DirectOpts{Pipe: env.PipeOpts{Cap: 64}})
			d.Pipe.Tap = nil
			vsched.Settle()
			idle := c14State(d)
			kinds := []string{"Unary", "Bidi", "SStream", "CStream"}
			outcomes := []string{"ok", "herr", "cancel1", "ok", "deadline", "reset", "ok", "openfail", "cancel2", "sendfail", "cancelsend", "ok"}
			for i := 0; i < n; i++ {
				k, o := kinds[i%4], outcomes[(i/4)%len(outcomes)]
				if k == "Unary" && (o == "reset" || o == "cancel1" || o == "cancel2" || o == "sendfail" || o == "cancelsend") {
					o = "cancel0"
				}
				tag := "h"
				delete(w.Recs, tag)
				c14RPC(w, d, k, o, tag)
				vsched.QuiesceTime()
				if st := c14State(d); st != idle {
					vsched.Fail(fam+"|not-idle:"+diffKey(idle, st), "after RPC %d (%s:%s) the connection is not idle:\n%s", i, k, o, diffStates(idle, st))
					return
				}
			}
			vsched.Count("inputs", int64(n))
			vsched.Obs("history of %d RPCs: idle after each", n)
		},
	}
}

// c14Pending: k unary calls (and s streams) are pending on the server at once - their handlers
// wait for a gate - in `rounds` bursts; after every burst the connection (both ends: the snapshot
// includes every goroutine of the bubble) is back in the state it had when idle.
func c14Pending(k, s, rounds, bound int) *explore.Scenario {
	fam := "C14/release"
	return &explore.Scenario{
		Name: fmt.Sprintf("C14/pending/unary=%d/streams=%d/rounds=%d", k, s, rounds), Family: fam, Prop: "C14", Bound: bound, Horizon: time.Hour, SelectCost: true,
		Run: func() {
			w := env.NewWorld()
			d := env.NewDirect(w, env.DirectOpts{Pipe: env.PipeOpts{Cap: 256}})
			d.Pipe.Tap = nil
			vsched.Settle()
			idle := c14State(d)
			vsched.Explore(true)
			for round := 0; round < rounds; round++ {
				gate := make(chan struct{})
				var rs []*env.Rec
				for i := 0; i < k; i++ {
					tag := fmt.Sprintf("p%d.%d", round, i)
					r := w.Rec(tag, "Unary")
					rs = append(rs, r)
					w.Unaries[tag] = func(r *env.Rec, ctx context.Context, in string) (string, error) {
						<-gate
						return "R:" + in, nil
					}
					vsched.GoNamed("caller-"+tag, func() { w.CallUnary(d.CC, context.Background(), r, "x") })
				}
				for i := 0; i < s; i++ {
					tag := fmt.Sprintf("q%d.%d", round, i)
					r := w.Rec(tag, "Bidi")
					w.Handlers[tag] = func(r *env.Rec, ss grpc.ServerStream) error {
						<-gate
						return env.HEcho(r, ss)
					}
					vsched.GoNamed("caller-"+tag, func() {
						if cs := w.Open(d.CC, context.Background(), r); cs != nil {
							env.PPingPong(1)(r, cs)
						}
					})
				}
				vsched.Quiesce()
				close(gate)
				vsched.QuiesceTime()
				for _, r := range rs {
					checkUnary(r, "x", fam)
				}
				if st := c14State(d); st != idle {
					vsched.Fail(fam+"|not-idle:"+diffKey(idle, st)+"|pending", "after burst %d of %d unary calls and %d streams pending at once the connection did not return to its idle state:\n%s", round, k, s, diffStates(idle, st))
					return
				}
			}
			vsched.Obs("%d bursts of %d+%d pending: idle after each", rounds, k, s)
		},
	}
}

// okCodedError is an error that implements GRPCStatus with code OK (0, the smallest code).
type okCodedError struct{}

func (okCodedError) Error() string              { return "failed, but with an OK-coded status" }
func (okCodedError) GRPCStatus() *status.Status { return status.New(codes.OK, "not really ok") }

// hasTag: the envelope's request metadata carries the harness's call tag
func hasTag(rpc *env.Rpc, tag string) bool {
	for _, kv := range rpc.GetHeader().GetHeaders() {
		if kv.GetKey() == "tag" && kv.GetValue() == tag {
			return true
		}
	}
	return false
}
