package props

import (
	"bytes"
	"context"
	"errors"
	"fmt"
	"google.golang.org/grpc"
	"google.golang.org/grpc/status"
	"io"
	"net/http"
	"net/http/httptest"
	"strings"
	"time"

	"google.golang.org/protobuf/proto"
	"google.golang.org/protobuf/types/known/anypb"
	"google.golang.org/protobuf/types/known/wrapperspb"

	goat "github.com/avos-io/goat"
	"github.com/avos-io/goat/gen/goatorepo"
	"github.com/avos-io/goat/vh/env"
	"github.com/avos-io/goat/vrt/explore"
	"github.com/avos-io/goat/vrt/vsched"
)

func init() { register("C19", c19) }

// c19Values: envelope values: every present/absent combination of the five
// sub-messages x ids across the uint64 range x string shapes x body sizes x
// repeated-field counts (the last three vary together to keep the product small).
func c19Values(bigBody bool) []*env.Rpc {
	var out []*env.Rpc
	ids := []uint64{0, 1, 1 << 31, 1 << 63, ^uint64(0)}
	strs := []string{"", "ascii", "ünï✓你好\x00"}
	bodies := []int{0, 1, 70000}
	if bigBody {
		bodies = append(bodies, 1<<20)
	}
	reps := []int{0, 1, 3}
	n := 0
	for mask := 0; mask < 32; mask++ {
		for vi := 0; vi < 3; vi++ {
			n++
			id := ids[n%len(ids)]
			s := strs[(vi+mask)%3]
			r := &env.Rpc{Id: id}
			if mask&1 != 0 {
				r.Header = &goatorepo.RequestHeader{Method: "/s/" + s, Source: "src" + s, Destination: s}
				for k := 0; k < reps[vi]; k++ {
					r.Header.Headers = append(r.Header.Headers, &goatorepo.KeyValue{Key: fmt.Sprintf("k%d", k), Value: s})
					r.Header.ProxyRecord = append(r.Header.ProxyRecord, s)
				}
			}
			if mask&2 != 0 {
				r.Status = &goatorepo.ResponseStatus{Code: int32(vi*7 - 1), Message: s}
				for k := 0; k < reps[vi]; k++ {
					a, _ := anypb.New(wrapperspb.String(s))
					r.Status.Details = append(r.Status.Details, a)
				}
			}
			if mask&4 != 0 {
				b := make([]byte, bodies[(vi+mask)%len(bodies)])
				for i := range b {
					b[i] = byte(i*7 + mask)
				}
				r.Body = &goatorepo.Body{Data: b}
			}
			if mask&8 != 0 {
				r.Trailer = &goatorepo.Trailer{}
				for k := 0; k < reps[vi]; k++ {
					r.Trailer.Metadata = append(r.Trailer.Metadata, &goatorepo.KeyValue{Key: s, Value: fmt.Sprint(k)})
				}
			}
			if mask&16 != 0 {
				r.Reset_ = &goatorepo.Reset{Type: s}
			}
			out = append(out, r)
		}
	}
	// envelopes of a newer peer: fields this build does not know (top level and in a
	// sub-message) are part of what was written and must come out the other end
	for i, unk := range [][]byte{
		{0x78, 0x2a},                                     // field 15, varint 42
		{0xa2, 0x06, 0x03, 'n', 'e', 'w'},                // field 100, bytes "new"
		{0x78, 0x01, 0xa2, 0x06, 0x00, 0xf8, 0x3f, 0x7f}, // three unknown fields
	} {
		r := &env.Rpc{Id: uint64(900 + i), Header: &goatorepo.RequestHeader{Method: "/s/new", Source: "srcnew", Destination: "d"}, Body: &goatorepo.Body{Data: []byte("x")}}
		r.ProtoReflect().SetUnknown(unk)
		r2 := proto.Clone(r).(*env.Rpc)
		r2.Id += 10
		r2.ProtoReflect().SetUnknown(nil)
		r2.Header.ProtoReflect().SetUnknown(unk)
		out = append(out, r, r2)
	}
	return out
}

func c19(tier string) []*explore.Scenario {
	var out []*explore.Scenario
	bound := 2
	if tier == "thorough" {
		bound = 3
	}
	for _, cp := range []int{0, 1, 2} {
		out = append(out, c19Channel(cp, bound))
	}
	out = append(out, c19ChannelDoneCtxRead(1), c19ChannelDoneCtxRead(2), c19ChannelDoneCtxRead(0))
	out = append(out, c19ChannelCtx(), c19ChannelTwoReaders(0), c19ChannelTwoReaders(1), c19ChannelWriters(1, 2, 2), c19ChannelWriters(2, 3, 2), c19ChannelWriters(1, 3, 1), c19ChannelWriters(0, 2, 1), c19ChannelWriters(4, 2, 1), c19HTTPShapes(), c19HTTPDuplex(), c19HTTPCtx(), c19HTTPWriteCtx(), c19HTTPRaw(), c19HTTPTruncated(), c19HTTPMapper(), c19HTTPResponseLost(), c19HTTPResetAcrossTimeout())
	out = append(out, explore.Sharded(c19HTTPOrder("C19", 2, 2), 8)...)
	for _, pending := range []string{"sender", "reader", "both", "none", "reader-after-abandoned-read", "write-in-flight-at-tick"} {
		out = append(out, c19HTTPIdle(pending, bound))
	}
	out = append(out, c19HTTPGenerations(3, true, 1), c19HTTPGenerations(3, false, 0), c19HTTPGenerations(6, true, 0))
	for _, order := range []string{"swept-then-write-fails", "write-fails-then-swept", "two-writes-fail", "write-fails-twice"} {
		out = append(out, c19HTTPDoubleFailure(order, 2))
	}
	out = append(out, c19HTTPTickVsRegistration(bound))
	out = append(out, c19WebSocket(tier == "thorough"))
	return out
}

// c19Channel: writer || reader over goat's channel transport.
func c19Channel(capn, bound int) *explore.Scenario {
	fam := "C19/channel"
	return &explore.Scenario{
		Name: fmt.Sprintf("C19/channel/cap=%d", capn), Family: fam, Prop: "C19", Bound: bound,
		Run: func() {
			q := make(chan *goat.Rpc, capn)
			unused := make(chan *goat.Rpc)
			wr := goat.NewGoatOverChannel(unused, q)
			rd := goat.NewGoatOverChannel(q, unused)
			vals := c19Values(false)[:6]
			vsched.Explore(true)
			var got []*env.Rpc
			var werr, rerr error
			vsched.GoNamed("writer", func() {
				for _, v := range vals {
					if werr = wr.Write(context.Background(), v); werr != nil {
						return
					}
				}
			})
			vsched.GoNamed("reader", func() {
				for range vals {
					r, err := rd.Read(context.Background())
					if err != nil {
						rerr = err
						return
					}
					got = append(got, r)
				}
			})
			vsched.Quiesce()
			if werr != nil || rerr != nil || len(got) != len(vals) {
				vsched.Fail(fam+"|delivery", "channel transport: wrote %d, read %d (werr=%v rerr=%v)", len(vals), len(got), werr, rerr)
				return
			}
			for i := range vals {
				if !proto.Equal(vals[i], got[i]) {
					vsched.Fail(fam+"|altered-or-reordered", "envelope %d differs", i)
				}
			}
			// closed input is an error
			close(q)
			if _, err := rd.Read(context.Background()); err == nil {
				vsched.Fail(fam+"|closed-input", "Read on a closed input returned no error")
			}
		},
	}
}

// c19ChannelCtx: a blocked Read / Write returns once its context is done.
func c19ChannelCtx() *explore.Scenario {
	fam := "C19/channel"
	return &explore.Scenario{
		Name: "C19/channel/ctx-unblocks", Family: fam, Prop: "C19", Bound: 2,
		Run: func() {
			in, out := make(chan *goat.Rpc), make(chan *goat.Rpc)
			rw := goat.NewGoatOverChannel(in, out)
			vsched.Explore(true)
			ctx, cancel := context.WithCancel(context.Background())
			rdone, wdone := false, false
			var rerr, werr error
			vsched.GoNamed("reader", func() { _, rerr = rw.Read(ctx); rdone = true })
			vsched.GoNamed("writer", func() { werr = rw.Write(ctx, &goat.Rpc{Id: 1}); wdone = true })
			vsched.GoNamed("canceller", func() { cancel() })
			vsched.Quiesce()
			if !rdone || rerr == nil {
				vsched.Fail(fam+"|read-ignores-ctx", "blocked Read did not return an error after its context was cancelled (done=%v err=%v)", rdone, rerr)
			}
			if !wdone || werr == nil {
				vsched.Fail(fam+"|write-ignores-ctx", "blocked Write did not return an error after its context was cancelled (done=%v err=%v)", wdone, werr)
			}
		},
	}
}

// c19ChannelWriters: k concurrent Writes on a queue of capacity capn that nobody reads, then the
// context ends: every Write returns - at most capn of them with success, the others with an error -
// and what the queue holds is what the successful ones wrote.
func c19ChannelWriters(capn, k, bound int) *explore.Scenario {
	fam := "C19/channel"
	return &explore.Scenario{
		Name: fmt.Sprintf("C19/channel/concurrent-writers/cap=%d/k=%d", capn, k), Family: fam, Prop: "C19", Bound: bound,
		Run: func() {
			in, out := make(chan *goat.Rpc), make(chan *goat.Rpc, capn)
			rw := goat.NewGoatOverChannel(in, out)
			vsched.Explore(true)
			ctx, cancel := context.WithCancel(context.Background())
			done := make([]bool, k)
			errs := make([]error, k)
			for i := 0; i < k; i++ {
				i := i
				vsched.GoNamed(fmt.Sprintf("writer-%d", i), func() { errs[i] = rw.Write(ctx, &goat.Rpc{Id: uint64(i + 1)}); done[i] = true })
			}
			vsched.Quiesce()
			cancel()
			vsched.Quiesce()
			ok := 0
			for i := 0; i < k; i++ {
				if !done[i] {
					vsched.Fail(fam+"|write-ignores-ctx", "%d concurrent Writes on a queue of capacity %d nobody reads: Write %d did not return after its context was cancelled", k, capn, i)
					continue
				}
				if errs[i] == nil {
					ok++
				}
			}
			want := capn
			if k < capn {
				want = k
			}
			if ok != want || len(out) != want {
				vsched.Fail(fam+"|delivery", "%d concurrent Writes on a queue of capacity %d: %d reported success, the queue holds %d", k, capn, ok, len(out))
			}
		},
	}
}

// c19ChannelTwoReaders: two Reads at once on one channel transport, each with a context of its own, nothing to read: each
// returns once ITS context is done, whatever the other is doing (a second Serve on a transport another Serve reads).
func c19ChannelTwoReaders(capn int) *explore.Scenario {
	fam := "C19/channel"
	return &explore.Scenario{
		Name: fmt.Sprintf("C19/channel/two-readers/cap=%d", capn), Family: fam, Prop: "C19", Bound: 2,
		Run: func() {
			in, out := make(chan *goat.Rpc, capn), make(chan *goat.Rpc, capn)
			rw := goat.NewGoatOverChannel(in, out)
			vsched.Explore(true)
			ctx1, cancel1 := context.WithCancel(context.Background())
			ctx2, cancel2 := context.WithCancel(context.Background())
			defer cancel1()
			d1, d2 := false, false
			var e1, e2 error
			vsched.GoNamed("reader-1", func() { _, e1 = rw.Read(ctx1); d1 = true })
			vsched.GoNamed("reader-2", func() { _, e2 = rw.Read(ctx2); d2 = true })
			vsched.Quiesce()
			cancel2()
			vsched.Quiesce()
			if !d2 || e2 == nil {
				vsched.Fail(fam+"|read-ignores-ctx", "two Reads on one channel transport: the second did not return after ITS context was cancelled (done=%v err=%v) while the first is still waiting", d2, e2)
			}
			if d1 {
				vsched.Fail(fam+"|delivery", "the first Read returned (%v) although nothing arrived and its context is alive", e1)
			}
			cancel1()
			vsched.Quiesce()
			if !d1 || e1 == nil {
				vsched.Fail(fam+"|read-ignores-ctx", "the first Read did not return after its context was cancelled")
			}
		},
	}
}

// c19FailingBody delivers a prefix and then fails (a connection that dies mid-request, a read timeout).
type c19FailingBody struct {
	data []byte
	err  error
}

func (b *c19FailingBody) Read(p []byte) (int, error) {
	if len(b.data) == 0 {
		return 0, b.err
	}
	n := copy(p, b.data)
	b.data = b.data[n:]
	return n, nil
}

// c19HTTPTruncated: a POST whose body cannot be read to its end - every prefix of four encoded
// envelopes followed by a read error (protobuf has no end marker: many prefixes decode to a
// different, well-formed envelope): rejected with 400, nothing delivered to any Read.
func c19HTTPTruncated() *explore.Scenario {
	fam := "C19/http"
	return &explore.Scenario{
		Name: "C19/http/truncated-bodies", Family: fam, Prop: "C19", Once: true, MaxSteps: 40000000,
		Run: func() {
			delivered := 0
			goh := goat.NewGoatOverHttp(func(id string, rw goat.RpcReadWriter) {
				vsched.GoNamed("reader-"+id, func() {
					for {
						if _, err := rw.Read(context.Background()); err != nil {
							return
						}
						delivered++
					}
				})
			}, func(s string) (string, error) { return s, nil }, goat.WithClock(env.NewClock()))
			var bases []*env.Rpc
			for _, v := range c19Values(false) {
				if v.GetHeader().GetSource() != "" && (v.GetBody() != nil || v.GetTrailer() != nil) {
					bases = append(bases, v) // (a complete body must be accepted: it needs a header with a source)
				}
			}
			bases = []*env.Rpc{bases[0], bases[len(bases)/3], bases[2*len(bases)/3], bases[len(bases)-1]}
			n := 0
			for _, base := range bases {
				enc, _ := proto.Marshal(base)
				for cut := 0; cut <= len(enc); cut++ {
					for _, rerr := range []error{io.ErrUnexpectedEOF, errors.New("read tcp: i/o timeout"), context.Canceled} {
						n++
						before := delivered
						code := post(goh, &c19FailingBody{data: append([]byte{}, enc[:cut]...), err: rerr})
						vsched.Quiesce()
						if code != http.StatusBadRequest || delivered != before {
							vsched.Fail(fam+"|truncated-accepted", "a POST whose body failed with %q after %d of %d bytes was answered %d and %d envelopes were delivered", rerr, cut, len(enc), code, delivered-before)
						}
					}
				}
				// the whole body, read without an error, is the envelope
				before := delivered
				if code := post(goh, bytes.NewReader(enc)); code != http.StatusOK {
					vsched.Fail(fam+"|valid-rejected", "the complete body was answered %d", code)
				}
				vsched.Quiesce()
				if delivered != before+1 {
					vsched.Fail(fam+"|altered-or-reordered", "the complete body delivered %d envelopes", delivered-before)
				}
			}
			vsched.Count("inputs", int64(n))
		},
	}
}

// ---------------------------------------------------------------- HTTP

// c19RT is an in-process stand-in for net/http's transport + server: the
// request is served by the destination's handler in a goroutine of its own
// (the "server side"); the client gives up when its request context ends, and
// the server-side request context ends then too, as it does when a client
// connection goes away. Fault modes: failAfterDelivery makes the n-th round trip
// report an error to the client AFTER the handler has completed (the response
// is lost on the way back).
type c19RT struct {
	hosts             map[string]http.Handler
	n                 int
	failAfterDelivery map[int]bool
}

func (rt *c19RT) RoundTrip(req *http.Request) (*http.Response, error) {
	h := rt.hosts[req.URL.Host]
	if h == nil {
		return nil, fmt.Errorf("no route to host %q", req.URL.Host)
	}
	k := rt.n
	rt.n++
	sctx, scancel := context.WithCancel(context.Background())
	sreq := req.Clone(sctx)
	done := make(chan *http.Response, 1)
	early := make(chan *http.Response, 1)
	vsched.GoNamed("http-serve", func() {
		rec := &c19Recorder{ResponseRecorder: httptest.NewRecorder(), early: early}
		h.ServeHTTP(rec, sreq)
		done <- rec.Result()
	})
	select {
	case resp := <-early:
		// the handler flushed its status before returning: that is when a real client's round trip returns
		// (the handler goes on running on the server)
		return resp, nil
	case resp := <-done:
		scancel()
		if rt.failAfterDelivery[k] {
			return nil, fmt.Errorf("connection reset while reading the response")
		}
		return resp, nil
	case <-req.Context().Done():
		scancel()
		return nil, req.Context().Err()
	}
}

// c19Recorder: a response recorder whose Flush hands the response (status and headers so far) to the waiting
// client, as net/http does when a handler flushes before it returns.
type c19Recorder struct {
	*httptest.ResponseRecorder
	early   chan *http.Response
	flushed bool
}

func (r *c19Recorder) Flush() {
	r.ResponseRecorder.Flush()
	if !r.flushed {
		r.flushed = true
		r.early <- &http.Response{StatusCode: r.Code, Status: http.StatusText(r.Code), Header: r.Header().Clone(), Body: io.NopCloser(bytes.NewReader(nil))}
	}
}

func post(h http.Handler, body io.Reader) int {
	req := httptest.NewRequest("POST", "http://x/", body)
	if body == nil {
		req.Body = nil
	}
	rec := httptest.NewRecorder()
	h.ServeHTTP(rec, req)
	return rec.Code
}

func c19HTTPShapes() *explore.Scenario {
	fam := "C19/http"
	return &explore.Scenario{
		Name: "C19/http/request-shapes", Family: fam, Prop: "C19", Bound: 1,
		Run: func() {
			var conns []goat.RpcReadWriter
			clk := env.NewClock()
			goh := goat.NewGoatOverHttp(func(id string, rw goat.RpcReadWriter) { conns = append(conns, rw) },
				func(src string) (string, error) {
					if src == "unmappable" {
						return "", fmt.Errorf("cannot map")
					}
					return "addr-" + src, nil
				}, goat.WithClock(clk))
			vsched.Settle()
			vsched.Explore(true)
			enc := func(r *env.Rpc) io.Reader { b, _ := proto.Marshal(r); return bytes.NewReader(b) }
			hdr := func(src string) *goatorepo.RequestHeader {
				return &goatorepo.RequestHeader{Method: "/a/B", Source: src, Destination: "d"}
			}
			bad := []struct {
				name string
				body io.Reader
			}{
				{"nil body", nil},
				{"empty body", bytes.NewReader(nil)},
				{"garbage", bytes.NewReader([]byte{0xff, 0xff, 0xff, 0x01})},
				{"truncated valid", bytes.NewReader(func() []byte { b, _ := proto.Marshal(&env.Rpc{Id: 5, Header: hdr("s")}); return b[:len(b)-2] }())},
				{"no header", enc(&env.Rpc{Id: 7, Body: &goatorepo.Body{Data: []byte("x")}})},
				{"empty source", enc(&env.Rpc{Id: 8, Header: hdr("")})},
				{"unmappable source", enc(&env.Rpc{Id: 9, Header: hdr("unmappable")})},
			}
			for _, b := range bad {
				code := post(goh, b.body)
				if code != http.StatusBadRequest {
					vsched.Fail(fam+"|bad-request-accepted", "HTTP request with %s answered %d, want 400", b.name, code)
				}
			}
			vsched.Quiesce()
			if len(conns) != 0 {
				vsched.Fail(fam+"|bad-request-delivered", "malformed requests created %d connections", len(conns))
			}
			// valid envelopes are delivered, equal and in order (bodies up to 1 MiB)
			vals := c19Values(true)
			var want []*env.Rpc
			for _, v := range vals {
				if v.Header != nil && v.Header.Source != "" {
					v.Header.Source = "peer" // one connection
					want = append(want, v)
				}
			}
			codes := []int{}
			vsched.GoNamed("poster", func() {
				for _, v := range want {
					codes = append(codes, post(goh, enc(v)))
				}
			})
			vsched.Quiesce()
			if len(conns) != 1 {
				vsched.Fail(fam+"|connect", "valid requests from one source announced %d connections", len(conns))
				return
			}
			var got []*env.Rpc
			vsched.GoNamed("reader", func() {
				for range want {
					r, err := conns[0].Read(context.Background())
					if err != nil {
						return
					}
					got = append(got, r)
				}
			})
			vsched.Quiesce()
			if len(got) != len(want) {
				vsched.Fail(fam+"|delivery", "posted %d envelopes, read %d", len(want), len(got))
				return
			}
			for i := range want {
				if !proto.Equal(want[i], got[i]) {
					vsched.Fail(fam+"|altered-or-reordered", "envelope %d differs after the HTTP transport", i)
				}
			}
			for i, c := range codes {
				if c != http.StatusOK {
					vsched.Fail(fam+"|valid-rejected", "valid envelope %d answered %d", i, c)
				}
			}
			vsched.Count("inputs", int64(len(bad)+len(want)))
			goh.Cancel()
			vsched.Quiesce()
			if ts := vsched.Threads(); len(ts) > 0 {
				vsched.Fail(fam+"|goroutine-leak", "after Cancel: %s", threadList())
			}
		},
	}
}

// c19HTTPDuplex: two GoatOverHttp endpoints wired through an in-process
// RoundTripper carry a unary call and a stream.
func c19HTTPDuplex() *explore.Scenario {
	fam := "C19/http"
	return &explore.Scenario{
		Name: "C19/http/duplex-rpc", Family: fam, Prop: "C19", Bound: 1,
		Run: func() {
			rt := &c19RT{hosts: map[string]http.Handler{}}
			http.DefaultTransport = rt
			w := env.NewWorld()
			srv := goat.NewServer("srv")
			srv.RegisterService(&env.ServiceDesc, w)
			ident := func(s string) (string, error) { return s, nil }
			serveDone := 0
			y := goat.NewGoatOverHttp(func(id string, rw goat.RpcReadWriter) {
				srv.Serve(context.Background(), rw)
				serveDone++
			}, ident, goat.WithClock(env.NewClock()))
			x := goat.NewGoatOverHttp(func(id string, rw goat.RpcReadWriter) {}, ident, goat.WithClock(env.NewClock()))
			rt.hosts["cli"] = x
			rt.hosts["srv"] = y
			cc := goat.NewClientConn(x.NewConnection("srv"), "cli", "srv")
			vsched.Settle()
			vsched.Explore(true)
			u := w.Rec("u", "Unary")
			vsched.GoNamed("caller-u", func() { w.CallUnary(cc, context.Background(), u, "x") })
			s := w.Rec("s", "Bidi")
			vsched.GoNamed("caller-s", func() {
				cs := w.Open(cc, context.Background(), s)
				if cs != nil {
					env.PPingPong(2)(s, cs)
				}
				s.CDone = true
			})
			vsched.Quiesce()
			checkUnary(u, "x", fam)
			vsched.Obs("%s", s.Summary())
			if !s.CDone || s.CErr != io.EOF || !eqStrs(s.CRecv, s.HSent) || len(s.CRecv) != 2 {
				vsched.Fail(fam+"|stream", "stream over the HTTP transport: %s", s.Summary())
			}
			srv.Stop()
			x.Cancel()
			y.Cancel()
			vsched.Quiesce()
		},
	}
}

// c19HTTPOrder: one client-streaming call of n messages over the HTTP transport (one POST per envelope, each served
// by a goroutine of its own on the receiving side): the handler receives the messages in the order sent, all of them,
// and the caller gets the handler's result. The only thing that orders two envelopes on this transport is that a
// Write returns after its envelope has been handed to the receiving side's reader.
func c19HTTPOrder(prop string, n, bound int) *explore.Scenario {
	fam := prop + "/http-order"
	return &explore.Scenario{
		Name: fmt.Sprintf("%s/http-order/n=%d/d=%d", prop, n, bound), Family: fam, Prop: prop, Bound: bound,
		Run: func() {
			rt := &c19RT{hosts: map[string]http.Handler{}}
			http.DefaultTransport = rt
			w := env.NewWorld()
			srv := goat.NewServer("srv")
			srv.RegisterService(&env.ServiceDesc, w)
			ident := func(s string) (string, error) { return s, nil }
			y := goat.NewGoatOverHttp(func(id string, rw goat.RpcReadWriter) { srv.Serve(context.Background(), rw) }, ident, goat.WithClock(env.NewClock()))
			x := goat.NewGoatOverHttp(func(id string, rw goat.RpcReadWriter) {}, ident, goat.WithClock(env.NewClock()))
			rt.hosts["cli"] = x
			rt.hosts["srv"] = y
			cc := goat.NewClientConn(x.NewConnection("srv"), "cli", "srv")
			vsched.Settle()
			vsched.Explore(true)
			c := streamCase{"CStream", "sendall", "collect", n, 0, 0}
			r := w.Rec("s", c.kind)
			w.Handlers["s"] = c.handler()
			vsched.GoNamed("caller-s", func() { c.runCaller(w, cc, context.Background(), r) })
			vsched.Quiesce()
			vsched.Obs("%s", r.Summary())
			if !r.CDone {
				vsched.Fail(fam+"|hang", "client-streaming call over the HTTP transport never finished: %s", r.Summary())
			} else if !eqStrs(r.HRecv, r.CSent) || r.HStarts != 1 {
				vsched.Fail(fam+"|per-call-order", "the caller sent %v, the handler received %v (starts %d); caller saw %v", r.CSent, r.HRecv, r.HStarts, r.CErr)
			} else if r.CErr != io.EOF && r.CErr != nil {
				vsched.Fail(fam+"|status", "the handler completed, the caller saw %v", r.CErr)
			}
			srv.Stop()
			x.Cancel()
			y.Cancel()
			vsched.Quiesce()
		},
	}
}

// c19HTTPCtx: a blocked Read returns once its context is done.
func c19HTTPCtx() *explore.Scenario {
	fam := "C19/http"
	return &explore.Scenario{
		Name: "C19/http/ctx-unblocks-read", Family: fam, Prop: "C19", Bound: 1,
		Run: func() {
			goh := goat.NewGoatOverHttp(func(id string, rw goat.RpcReadWriter) {}, func(s string) (string, error) { return s, nil }, goat.WithClock(env.NewClock()))
			conn := goh.NewConnection("peer")
			vsched.Settle()
			vsched.Explore(true)
			ctx, cancel := context.WithCancel(context.Background())
			done := false
			var err error
			vsched.GoNamed("reader", func() { _, err = conn.Read(ctx); done = true })
			vsched.Quiesce()
			cancel()
			vsched.Quiesce()
			if !done || err == nil {
				vsched.Fail(fam+"|read-ignores-ctx", "a Read blocked on the HTTP transport did not return after its context was cancelled (server Stop and caller cancellation depend on it); threads: %s", threadList())
			}
			goh.Cancel()
			vsched.Quiesce()
		},
	}
}

// c19HTTPRaw: raw request bodies - every byte string of length <= 2 and every
// single-byte substitution (4 values) at every position of three valid
// encodings - against the reference decoder: a body is answered 400 and never
// delivered iff it does not decode, has no header or no source; otherwise it is
// delivered equal to the reference decoding.
func c19HTTPRaw() *explore.Scenario {
	fam := "C19/http"
	return &explore.Scenario{
		Name: "C19/http/raw-bodies", Family: fam, Prop: "C19", Once: true, MaxSteps: 40000000,
		Run: func() {
			got := map[string][]*env.Rpc{}
			goh := goat.NewGoatOverHttp(func(id string, rw goat.RpcReadWriter) {
				vsched.GoNamed("reader-"+id, func() {
					for {
						r, err := rw.Read(context.Background())
						if err != nil {
							return
						}
						got[id] = append(got[id], r)
					}
				})
			}, func(s string) (string, error) { return s, nil }, goat.WithClock(env.NewClock()))
			var raw [][]byte
			raw = append(raw, []byte{})
			for x := 0; x < 256; x++ {
				raw = append(raw, []byte{byte(x)})
				for y := 0; y < 256; y++ {
					raw = append(raw, []byte{byte(x), byte(y)})
				}
			}
			vals := c19Values(false)
			for _, base := range []*env.Rpc{vals[1], vals[len(vals)/2], vals[len(vals)-2], vals[7]} {
				enc, _ := proto.Marshal(base)
				if len(enc) > 200 {
					enc = enc[:200]
				}
				for pos := 0; pos < len(enc); pos++ {
					for _, sub := range []byte{0x00, 0xff, enc[pos] ^ 0x80, enc[pos] + 1} {
						m := append([]byte{}, enc...)
						m[pos] = sub
						raw = append(raw, m)
					}
				}
			}
			bad := 0
			for _, m := range raw {
				var ref env.Rpc
				refErr := proto.Unmarshal(m, &ref)
				wantOK := refErr == nil && ref.Header != nil && ref.Header.Source != ""
				before := 0
				if wantOK {
					before = len(got[ref.Header.Source])
				}
				code := post(goh, bytes.NewReader(m))
				vsched.Quiesce()
				switch {
				case !wantOK && code != http.StatusBadRequest:
					vsched.Fail(fam+"|bad-request-accepted", "body %x is not a well-formed envelope with header and source (decode error: %v) but was answered %d", m, refErr, code)
					bad++
				case wantOK && code != http.StatusOK:
					vsched.Fail(fam+"|valid-rejected", "body %x decodes to an envelope with header and source but was answered %d", m, code)
					bad++
				case wantOK:
					g := got[ref.Header.Source]
					if len(g) != before+1 || !proto.Equal(g[len(g)-1], &ref) {
						vsched.Fail(fam+"|altered-or-reordered", "body %x was accepted but delivered %d envelopes / a different envelope", m, len(g)-before)
						bad++
					}
				}
				if bad > 5 {
					break
				}
			}
			vsched.Count("inputs", int64(len(raw)))
			vsched.Obs("http raw bodies=%d", len(raw))
			goh.Cancel()
			vsched.Quiesce()
		},
	}
}

// c19HTTPMapper: the caller's source-to-address function is asked for every
// request and may change its mind: accept a source, later refuse it, later map
// it to another address. A request it refuses is answered 400 and never
// delivered; a request it maps to another address goes to that address's connection.
func c19HTTPMapper() *explore.Scenario {
	fam := "C19/http"
	return &explore.Scenario{
		Name: "C19/http/source-mapper-changes", Family: fam, Prop: "C19", Bound: 1,
		Run: func() {
			phase := 0
			got := map[string][]uint64{}
			goh := goat.NewGoatOverHttp(func(id string, rw goat.RpcReadWriter) {
				vsched.GoNamed("reader-"+id, func() {
					for {
						r, err := rw.Read(context.Background())
						if err != nil {
							return
						}
						got[id] = append(got[id], r.Id)
					}
				})
			}, func(src string) (string, error) {
				switch phase {
				case 0:
					return "addr-A", nil
				case 1:
					return "", fmt.Errorf("source %s is no longer welcome", src)
				}
				return "addr-B", nil
			}, goat.WithClock(env.NewClock()))
			vsched.Settle()
			vsched.Explore(true)
			msg := func(id uint64) io.Reader {
				b, _ := proto.Marshal(&env.Rpc{Id: id, Header: &goatorepo.RequestHeader{Method: "/a/B", Source: "peer", Destination: "d"}})
				return bytes.NewReader(b)
			}
			var codes []int
			for ph := 0; ph < 3; ph++ {
				phase = ph
				c := 0
				vsched.GoNamed("poster", func() { c = post(goh, msg(uint64(ph+1))) })
				vsched.Quiesce()
				codes = append(codes, c)
			}
			vsched.Obs("codes=%v got=%v", codes, got)
			if fmt.Sprint(codes) != "[200 400 200]" {
				vsched.Fail(fam+"|bad-request-accepted", "the source mapper accepted, refused, then re-mapped the source: the three requests were answered %v, want [200 400 200]", codes)
			}
			if fmt.Sprint(got["addr-A"]) != "[1]" || fmt.Sprint(got["addr-B"]) != "[3]" {
				vsched.Fail(fam+"|bad-request-delivered", "the source mapper accepted (addr-A), refused, then mapped to addr-B: connection addr-A received %v, addr-B received %v; want [1] and [3]", got["addr-A"], got["addr-B"])
			}
			goh.Cancel()
			vsched.Quiesce()
		},
	}
}

// c19HTTPTickVsRegistration: the cleaner's tick coincides with new connections
// being registered (a first request from a new source, NewConnection for a new
// destination) and with a failing Write unregistering one. Everything stays
// consistent: the new connections work, nothing crashes (and C15 runs this with
// the race detector on the connection table).
func c19HTTPTickVsRegistration(bound int) *explore.Scenario {
	fam := "C19/http-idle"
	return &explore.Scenario{
		Name: "C19/http/tick-vs-registration", Family: fam, Prop: "C19", Bound: bound,
		Run: func() {
			clk := env.NewClock()
			old := http.DefaultTransport
			http.DefaultTransport = &c19RT{hosts: map[string]http.Handler{}} // every Write fails: no route to host
			defer func() { http.DefaultTransport = old }()
			got := map[string]int{}
			goh := goat.NewGoatOverHttp(func(id string, rw goat.RpcReadWriter) {
				vsched.GoNamed("reader-"+id, func() {
					for {
						if _, err := rw.Read(context.Background()); err != nil {
							return
						}
						got[id]++
					}
				})
			}, func(s string) (string, error) { return s, nil },
				goat.WithClock(clk), goat.WithConnectionCleanupInterval(time.Minute), goat.WithConnectionTimeout(4*time.Minute))
			msg := func(id uint64, src string) io.Reader {
				b, _ := proto.Marshal(&env.Rpc{Id: id, Header: &goatorepo.RequestHeader{Method: "/a/B", Source: src, Destination: "d"}})
				return bytes.NewReader(b)
			}
			// an existing connection, so that the table is not empty
			vsched.GoNamed("poster0", func() { post(goh, msg(1, "old")) })
			vsched.Settle()
			vsched.Explore(true)
			code := 0
			vsched.GoNamed("poster-new", func() { code = post(goh, msg(2, "new-source")) })
			var nc goat.RpcReadWriter
			vsched.GoNamed("dialler", func() { nc = goh.NewConnection("new-destination") })
			vsched.GoNamed("failing-writer", func() {
				c := goh.NewConnection("doomed")
				c.Write(context.Background(), &env.Rpc{Id: 9, Header: &goatorepo.RequestHeader{Method: "/a/B", Source: "me", Destination: "doomed"}})
			})
			vsched.GoNamed("clock", func() { clk.Advance(time.Minute) })
			vsched.Quiesce()
			vsched.Obs("code=%d got=%v nc=%v", code, got, nc != nil)
			if code != http.StatusOK || got["new-source"] != 1 {
				vsched.Fail(fam+"|new-connection-lost", "a first request from a new source arrived while the cleaner ticked: answered %d, delivered %d times", code, got["new-source"])
			}
			if nc == nil {
				vsched.Fail(fam+"|new-connection-lost", "NewConnection returned nil")
			}
			goh.Cancel()
			vsched.Quiesce()
		},
	}
}

// c19HTTPResponseLost: a streaming RPC over the HTTP transport; for one POST
// the handler side receives the envelope but the response is lost on the way
// back, so the sender's Write reports an error. Whatever the sender does about
// it, no envelope is delivered twice.
func c19HTTPResponseLost() *explore.Scenario { return httpResponseLost("C19") }

func httpResponseLost(prop string) *explore.Scenario {
	fam := prop + "/http"
	return &explore.Scenario{
		Name: prop + "/http/response-lost", Family: fam, Prop: prop, Bound: 1,
		Run: func() {
			old := http.DefaultTransport
			rt := &c19RT{hosts: map[string]http.Handler{}, failAfterDelivery: map[int]bool{}}
			http.DefaultTransport = rt
			defer func() { http.DefaultTransport = old }()
			var got []uint64
			ident := func(s string) (string, error) { return s, nil }
			y := goat.NewGoatOverHttp(func(id string, rw goat.RpcReadWriter) {
				vsched.GoNamed("reader-"+id, func() {
					for {
						r, err := rw.Read(context.Background())
						if err != nil {
							return
						}
						got = append(got, r.Id)
					}
				})
			}, ident, goat.WithClock(env.NewClock()))
			x := goat.NewGoatOverHttp(func(id string, rw goat.RpcReadWriter) {}, ident, goat.WithClock(env.NewClock()))
			rt.hosts["cli"], rt.hosts["srv"] = x, y
			conn := x.NewConnection("srv")
			vsched.Settle()
			vsched.Explore(true)
			rt.failAfterDelivery[rt.n+2] = true // the third envelope's response is lost
			var errs []bool
			for id := uint64(1); id <= 5; id++ {
				err := conn.Write(context.Background(), &env.Rpc{Id: id, Header: &goatorepo.RequestHeader{Method: "/a/B", Source: "cli", Destination: "srv"}})
				errs = append(errs, err != nil)
				if err != nil {
					conn = x.NewConnection("srv") // the failed connection was unregistered: carry on with a fresh one
				}
			}
			vsched.Quiesce()
			vsched.Obs("write errors=%v delivered=%v", errs, got)
			seen := map[uint64]int{}
			for _, id := range got {
				seen[id]++
				if seen[id] > 1 {
					vsched.Fail(fam+"|altered-or-reordered", "the response to the POST carrying envelope 3 was lost; the reader received %v: envelope %d arrived twice", got, id)
				}
			}
			if !errs[2] {
				vsched.Fail(fam+"|write-error-swallowed", "the POST carrying envelope 3 failed on the way back, but Write reported success (errors %v)", errs)
			}
			x.Cancel()
			y.Cancel()
			vsched.Quiesce()
		},
	}
}

// c19HTTPResetAcrossTimeout: the RPC layer over the HTTP transport. A bidi
// handler is not reading while its caller has sent two messages (the server's
// read loop is parked, and so are further POSTs), the caller cancels, and the
// teardown's RST_STREAM POST stays parked until its own 30 s write timeout has
// passed. When the handler finally reads, its stream is over: the reset must
// still have reached the server (the sender giving up does not un-send it).
func c19HTTPResetAcrossTimeout() *explore.Scenario { return httpResetAcrossTimeout("C19") }

func httpResetAcrossTimeout(prop string) *explore.Scenario {
	fam := prop + "/http"
	return &explore.Scenario{
		Name: prop + "/http/reset-parked-across-its-write-timeout", Family: fam, Prop: prop, Bound: 0, Horizon: time.Hour,
		Run: func() {
			old := http.DefaultTransport
			rt := &c19RT{hosts: map[string]http.Handler{}}
			http.DefaultTransport = rt
			defer func() { http.DefaultTransport = old }()
			w := env.NewWorld()
			srv := goat.NewServer("srv")
			srv.RegisterService(&env.ServiceDesc, w)
			ident := func(s string) (string, error) { return s, nil }
			y := goat.NewGoatOverHttp(func(id string, rw goat.RpcReadWriter) { srv.Serve(context.Background(), rw) }, ident, goat.WithClock(env.NewClock()))
			x := goat.NewGoatOverHttp(func(id string, rw goat.RpcReadWriter) {}, ident, goat.WithClock(env.NewClock()))
			rt.hosts["cli"], rt.hosts["srv"] = x, y
			cc := goat.NewClientConn(x.NewConnection("srv"), "cli", "srv")
			vsched.Settle()
			r := w.Rec("s", "Bidi")
			release := make(chan struct{})
			var hctx context.Context
			var recvErr error
			w.Handlers["s"] = func(r *env.Rec, ss grpc.ServerStream) error {
				hctx = ss.Context()
				<-release
				for {
					if recvErr = ss.RecvMsg(new(env.Msg)); recvErr != nil {
						break
					}
				}
				return status.FromContextError(ss.Context().Err()).Err()
			}
			ctx, cancel := context.WithCancel(context.Background())
			defer cancel()
			var cs grpc.ClientStream
			vsched.GoNamed("caller", func() {
				cs = w.Open(cc, ctx, r)
				if cs != nil {
					env.CSend(r, cs, "m0")
					env.CSend(r, cs, "m1")
				}
			})
			vsched.Quiesce()
			if cs == nil {
				vsched.Fail(fam+"|harness", "stream did not open: %v", r.COpenErr)
				return
			}
			vsched.GoNamed("canceller", func() {
				cancel()
				cs.RecvMsg(new(env.Msg))
			})
			vsched.QuiesceTime() // lets the 30 s reset-write timeout pass while everything is parked
			close(release)
			vsched.QuiesceTime()
			vsched.Obs("elapsed=%v handler returned=%v recvErr=%v ctxDone=%v", vsched.Elapsed(), r.HReturned, recvErr, hctx != nil && hctx.Err() != nil)
			if r.HStarts == 1 && (!r.HReturned || hctx == nil || hctx.Err() == nil) {
				vsched.Fail(fam+"|reset-lost", "the caller cancelled; its RST_STREAM POST stayed parked past its 30 s write timeout (the handler was not reading); once the handler read again its context was still live / it never returned: the reset was dropped instead of delivered (elapsed %v); threads: %s", vsched.Elapsed(), threadList())
			}
			srv.Stop()
			x.Cancel()
			y.Cancel()
			vsched.QuiesceTime()
		},
	}
}

// c19BlockingRT: the peer's HTTP endpoint accepts the request and does not
// answer until released (a stalled peer); like net/http's transport it gives
// up when the request's context ends.
type c19BlockingRT struct{ release chan struct{} }

func (rt *c19BlockingRT) RoundTrip(req *http.Request) (*http.Response, error) {
	select {
	case <-req.Context().Done():
		return nil, req.Context().Err()
	case <-rt.release:
		return httptest.NewRecorder().Result(), nil
	}
}

// c19HTTPWriteCtx: a Write blocked on a stalled peer returns once its context is done.
func c19HTTPWriteCtx() *explore.Scenario {
	fam := "C19/http"
	return &explore.Scenario{
		Name: "C19/http/ctx-unblocks-write", Family: fam, Prop: "C19", Bound: 1,
		Run: func() {
			old := http.DefaultTransport
			rt := &c19BlockingRT{release: make(chan struct{})}
			http.DefaultTransport = rt
			defer func() { http.DefaultTransport = old }()
			goh := goat.NewGoatOverHttp(func(id string, rw goat.RpcReadWriter) {}, func(s string) (string, error) { return s, nil }, goat.WithClock(env.NewClock()))
			conn := goh.NewConnection("peer")
			vsched.Settle()
			vsched.Explore(true)
			ctx, cancel := context.WithCancel(context.Background())
			done := false
			var err error
			vsched.GoNamed("writer", func() {
				err = conn.Write(ctx, &env.Rpc{Id: 1, Header: &goatorepo.RequestHeader{Method: "/a/B", Source: "me", Destination: "peer"}})
				done = true
			})
			vsched.Quiesce()
			if done {
				vsched.Fail(fam+"|harness", "the write was supposed to block on the stalled peer (err=%v)", err)
			}
			cancel()
			vsched.Quiesce()
			if !done || err == nil {
				vsched.Fail(fam+"|write-ignores-ctx", "a Write blocked on the HTTP transport (the peer accepted the request and does not answer) did not return after its context was cancelled (done=%v err=%v); threads: %s", done, err, threadList())
			}
			close(rt.release)
			vsched.Quiesce()
			// the caller gave up; the logical connection (shared by every call to that peer) still works both ways
			if err := conn.Write(context.Background(), &env.Rpc{Id: 2, Header: &goatorepo.RequestHeader{Method: "/a/B", Source: "me", Destination: "peer"}}); err != nil {
				vsched.Fail(fam+"|connection-lost-by-cancelled-write", "after one Write was abandoned by its caller, the next Write on the connection failed: %v", err)
			}
			var got *env.Rpc
			var rerr error
			rdone := false
			vsched.GoNamed("reader", func() { got, rerr = conn.Read(context.Background()); rdone = true })
			b, _ := proto.Marshal(&env.Rpc{Id: 3, Header: &goatorepo.RequestHeader{Method: "/a/B", Source: "peer", Destination: "me"}})
			code := 0
			vsched.GoNamed("poster", func() { code = post(goh, bytes.NewReader(b)) })
			vsched.Quiesce()
			if code != http.StatusOK || !rdone || rerr != nil || got.GetId() != 3 {
				vsched.Fail(fam+"|connection-lost-by-cancelled-write", "after one Write was abandoned by its caller, an envelope posted by the peer was answered %d and read as done=%v err=%v id=%d: the logical connection did not survive", code, rdone, rerr, got.GetId())
			}
			goh.Cancel()
			vsched.Quiesce()
		},
	}
}

// c19HTTPIdle: the idle-timeout tick lands while a delivery is in progress
// (ServeHTTP parked handing over), a Read is pending, both, or neither.
func c19HTTPIdle(pending string, bound int) *explore.Scenario {
	fam := "C19/http-idle"
	return &explore.Scenario{
		Name: "C19/http/idle-timeout/pending=" + pending, Family: fam, Prop: "C19", Bound: bound,
		Run: func() {
			clk := env.NewClock()
			var conns []goat.RpcReadWriter
			goh := goat.NewGoatOverHttp(func(id string, rw goat.RpcReadWriter) { conns = append(conns, rw) },
				func(s string) (string, error) { return s, nil },
				goat.WithClock(clk), goat.WithConnectionCleanupInterval(time.Minute), goat.WithConnectionTimeout(4*time.Minute))
			vsched.Settle()
			vsched.Explore(true)
			msg := func(id uint64) io.Reader {
				b, _ := proto.Marshal(&env.Rpc{Id: id, Header: &goatorepo.RequestHeader{Method: "/a/B", Source: "peer", Destination: "d"}})
				return bytes.NewReader(b)
			}
			// establish the connection with one delivered envelope
			code0 := 0
			vsched.GoNamed("poster0", func() { code0 = post(goh, msg(1)) })
			vsched.Quiesce()
			if len(conns) != 1 {
				vsched.Fail(fam+"|harness", "no connection announced")
				return
			}
			conn := conns[0]
			if _, err := conn.Read(context.Background()); err != nil {
				vsched.Fail(fam+"|harness", "first read: %v", err)
				return
			}
			vsched.Quiesce()
			// now the pending operations and the tick race
			code, rdone := 0, false
			var rerr error
			var rgot *env.Rpc
			if pending == "sender" || pending == "both" {
				vsched.GoNamed("poster", func() { code = post(goh, msg(2)) })
			}
			if pending == "write-in-flight-at-tick" {
				// the connection has been quiet for 3m30 (timeout 4m); a Write then starts and is
				// still in flight (the peer is slow to answer) when the cleaner ticks at 4m: a
				// connection with a write in progress is in use, not idle
				old := http.DefaultTransport
				brt := &c19BlockingRT{release: make(chan struct{})}
				http.DefaultTransport = brt
				defer func() { http.DefaultTransport = old }()
				clk.Advance(3*time.Minute + 30*time.Second)
				vsched.Quiesce()
				wdone := false
				var werr error
				vsched.GoNamed("writer", func() {
					werr = conn.Write(context.Background(), &env.Rpc{Id: 7, Header: &goatorepo.RequestHeader{Method: "/a/B", Source: "d", Destination: "peer"}})
					wdone = true
				})
				vsched.GoNamed("reader", func() { rgot, rerr = conn.Read(context.Background()); rdone = true })
				vsched.Quiesce()
				clk.Advance(30 * time.Second) // the 4m tick
				vsched.Quiesce()
				if rdone {
					vsched.Fail(fam+"|in-use-connection-swept", "a Write had been in flight for 30 s when the cleaner ticked (last completed activity 4m ago, timeout 4m): the connection was swept, its reader failed with %v", rerr)
				}
				close(brt.release)
				vsched.Quiesce()
				if !wdone || werr != nil {
					vsched.Fail(fam+"|in-use-connection-swept", "the in-flight Write: done=%v err=%v", wdone, werr)
				}
				// the peer's answer arrives on the same connection
				c2 := 0
				vsched.GoNamed("poster", func() { c2 = post(goh, msg(8)) })
				vsched.Quiesce()
				if c2 != http.StatusOK || !rdone || rerr != nil || rgot.GetId() != 8 || len(conns) != 1 {
					vsched.Fail(fam+"|in-use-connection-swept", "after a Write that was in flight across the tick, the peer's answer: status %d, reader done=%v err=%v, connections announced %d (want the original connection to receive it)", c2, rdone, rerr, len(conns))
				}
				goh.Cancel()
				vsched.Quiesce()
				return
			}
			if pending == "reader-after-abandoned-read" {
				// three minutes in, a reader gives up (its context ends); no envelope moved, so
				// the connection is as idle as before and still times out at four minutes
				clk.Advance(3 * time.Minute)
				vsched.Quiesce()
				cctx, ccancel := context.WithCancel(context.Background())
				adone := false
				vsched.GoNamed("abandoning-reader", func() { conn.Read(cctx); adone = true })
				vsched.Quiesce()
				ccancel()
				vsched.Quiesce()
				if !adone {
					vsched.Fail(fam+"|harness", "the abandoned read did not return")
				}
				vsched.GoNamed("reader", func() { rgot, rerr = conn.Read(context.Background()); rdone = true })
				vsched.Quiesce()
				clk.Advance(2 * time.Minute)
				vsched.Quiesce()
				if !rdone {
					vsched.Fail(fam+"|reader-not-failed", "no envelope for 5 minutes (timeout 4): a reader gave up at minute 3, and the reader pending since then is still blocked - giving up on a read must not count as activity")
				}
				goh.Cancel()
				vsched.Quiesce()
				return
			}
			if pending == "reader" || pending == "both" {
				vsched.GoNamed("reader", func() { rgot, rerr = conn.Read(context.Background()); rdone = true })
			}
			vsched.GoNamed("clock", func() {
				clk.Advance(5 * time.Minute) // past the idle timeout: the cleaner's tick is due
			})
			vsched.Quiesce()
			vsched.Obs("pending=%s code0=%d code=%d rdone=%v rerr=%v got=%v", pending, code0, code, rdone, rerr, rgot != nil)
			if (pending == "reader") && !rdone {
				vsched.Fail(fam+"|reader-not-failed", "the connection idled past its timeout but its pending reader is still blocked")
			}
			if pending == "reader" && rdone && rerr == nil {
				vsched.Fail(fam+"|reader-got-data", "pending reader returned an envelope nobody sent")
			}
			goh.Cancel()
			vsched.Quiesce()
		},
	}
}

// ---------------------------------------------------------------- WebSocket (real loopback sockets; input enumeration only)

func c19WebSocket(big bool) *explore.Scenario {
	fam := "C19/websocket"
	return &explore.Scenario{
		Name: "C19/websocket/values-and-raw-input", Family: fam, Prop: "C19",
		RawRun: func() ([]vsched.Violation, []string, int64) { return c19WS(fam, big) },
	}
}

var _ = strings.Contains

// c19HTTPGenerations: the idle timeout must keep working for the whole life of the object, not
// only for its first connections: `gens` times over, a peer posts, its connection is announced
// and read, goes idle with a reader blocked, and that reader must fail once the timeout has
// passed (and not before); then the same peer (or another one) comes back on the same object.
func c19HTTPGenerations(gens int, samePeer bool, bound int) *explore.Scenario {
	fam := "C19/http-idle"
	return &explore.Scenario{
		Name: fmt.Sprintf("C19/http/idle-generations/gens=%d/same-peer=%v", gens, samePeer), Family: fam, Prop: "C19", Bound: bound,
		Run: func() {
			clk := env.NewClock()
			var conns []goat.RpcReadWriter
			goh := goat.NewGoatOverHttp(func(id string, rw goat.RpcReadWriter) { conns = append(conns, rw) },
				func(s string) (string, error) { return s, nil },
				goat.WithClock(clk), goat.WithConnectionCleanupInterval(time.Minute), goat.WithConnectionTimeout(4*time.Minute))
			vsched.Settle()
			vsched.Explore(true)
			for g := 0; g < gens; g++ {
				src := "Peer-A.Example:8080" // (addresses are opaque strings: letter case, punctuation)
				if !samePeer {
					src = []string{"peer0", "Peer1", "PEER:2", "peer 3", "p/e/e/r", "\u043f\u0438\u0440"}[g%6]
				}
				b, _ := proto.Marshal(&env.Rpc{Id: uint64(10 + g), Header: &goatorepo.RequestHeader{Method: "/a/B", Source: src, Destination: "d"}})
				code := 0
				vsched.GoNamed(fmt.Sprintf("poster%d", g), func() { code = post(goh, bytes.NewReader(b)) })
				vsched.Quiesce()
				if len(conns) != g+1 {
					vsched.Fail(fam+"|generation-not-announced", "generation %d: %s posted after the previous connection had timed out: %d connections announced so far (status %d)", g, src, len(conns), code)
					return
				}
				conn := conns[g]
				got, err := conn.Read(context.Background())
				if err != nil || got.GetId() != uint64(10+g) {
					vsched.Fail(fam+"|generation-delivery", "generation %d: first read: %v %v", g, got, err)
					return
				}
				vsched.Quiesce()
				rdone := false
				var rerr error
				vsched.GoNamed(fmt.Sprintf("reader%d", g), func() { _, rerr = conn.Read(context.Background()); rdone = true })
				vsched.Quiesce()
				clk.Advance(3 * time.Minute)
				vsched.Quiesce()
				if rdone {
					vsched.Fail(fam+"|early-timeout", "generation %d: the reader failed (%v) after 3 of the 4 minutes", g, rerr)
					return
				}
				for i := 0; i < 3 && !rdone; i++ {
					clk.Advance(time.Minute)
					vsched.Quiesce()
				}
				vsched.Obs("generation %d: reader done=%v err=%v", g, rdone, rerr)
				if !rdone || rerr == nil {
					vsched.Fail(fam+"|idle-not-swept", "generation %d of connections on one GoatOverHttp: idle for 6 minutes (timeout 4, tick every minute) and its blocked reader has not failed (done=%v err=%v)", g, rdone, rerr)
					return
				}
			}
			goh.Cancel()
			vsched.Quiesce()
		},
	}
}

type c19FailRT struct{ n int }

func (rt *c19FailRT) RoundTrip(req *http.Request) (*http.Response, error) {
	rt.n++
	return nil, errors.New("connect: connection refused")
}

// c19HTTPDoubleFailure: two failures on the same HTTP connection, in each order: it goes idle
// past its timeout (the cleaner sweeps it, its blocked reader fails) and a Write on it fails at
// the HTTP level (the peer is unreachable); or two Writes fail one after the other / at once.
// Every Read and Write returns an error; nothing panics; the object goes on serving new peers.
func c19HTTPDoubleFailure(order string, bound int) *explore.Scenario {
	fam := "C19/http-idle"
	return &explore.Scenario{
		Name: "C19/http/double-failure/" + order, Family: fam, Prop: "C19", Bound: bound,
		Run: func() {
			clk := env.NewClock()
			var conns []goat.RpcReadWriter
			goh := goat.NewGoatOverHttp(func(id string, rw goat.RpcReadWriter) { conns = append(conns, rw) },
				func(s string) (string, error) { return s, nil },
				goat.WithClock(clk), goat.WithConnectionCleanupInterval(time.Minute), goat.WithConnectionTimeout(4*time.Minute))
			old := http.DefaultTransport
			http.DefaultTransport = &c19FailRT{}
			defer func() { http.DefaultTransport = old }()
			vsched.Settle()
			b, _ := proto.Marshal(&env.Rpc{Id: 1, Header: &goatorepo.RequestHeader{Method: "/a/B", Source: "peer", Destination: "d"}})
			code := 0
			vsched.GoNamed("poster", func() { code = post(goh, bytes.NewReader(b)) })
			vsched.Settle()
			if len(conns) != 1 {
				vsched.Fail(fam+"|harness", "no connection announced (status %d)", code)
				return
			}
			conn := conns[0]
			if _, err := conn.Read(context.Background()); err != nil {
				vsched.Fail(fam+"|harness", "first read: %v", err)
				return
			}
			vsched.Explore(true)
			out := &env.Rpc{Id: 7, Header: &goatorepo.RequestHeader{Method: "/a/B", Source: "d", Destination: "peer"}}
			write := func(name string, done *bool, err *error) {
				vsched.GoNamed(name, func() { *err = conn.Write(context.Background(), out); *done = true })
			}
			var w1, w2, rd bool
			var e1, e2, er error
			sweep := func() {
				vsched.GoNamed("reader", func() { _, er = conn.Read(context.Background()); rd = true })
				vsched.Quiesce()
				for i := 0; i < 6; i++ {
					clk.Advance(time.Minute)
					vsched.Quiesce()
				}
			}
			switch order {
			case "swept-then-write-fails":
				sweep()
				write("writer1", &w1, &e1)
				vsched.Quiesce()
				w2, e2 = true, errors.New("-")
			case "write-fails-then-swept":
				write("writer1", &w1, &e1)
				vsched.Quiesce()
				sweep()
				w2, e2 = true, errors.New("-")
			case "two-writes-fail":
				write("writer1", &w1, &e1)
				write("writer2", &w2, &e2)
				vsched.Quiesce()
				rd, er = true, errors.New("-")
			case "write-fails-twice":
				write("writer1", &w1, &e1)
				vsched.Quiesce()
				write("writer2", &w2, &e2)
				vsched.Quiesce()
				rd, er = true, errors.New("-")
			}
			vsched.Obs("%s: write1 done=%v err=%v | write2 done=%v err=%v | read done=%v err=%v", order, w1, e1, w2, e2, rd, er)
			if !w1 || !w2 || !rd {
				vsched.Fail(fam+"|double-failure-hang", "%s: write1 done=%v write2 done=%v read done=%v; threads: %s", order, w1, w2, rd, threadList())
			}
			if (w1 && e1 == nil) || (w2 && e2 == nil) || (rd && er == nil) {
				vsched.Fail(fam+"|double-failure-success", "%s: an operation on the failed connection reported success (write1 %v, write2 %v, read %v)", order, e1, e2, er)
			}
			// a new peer is still served
			b2, _ := proto.Marshal(&env.Rpc{Id: 2, Header: &goatorepo.RequestHeader{Method: "/a/B", Source: "peer2", Destination: "d"}})
			c2 := 0
			vsched.GoNamed("poster2", func() { c2 = post(goh, bytes.NewReader(b2)) })
			vsched.Quiesce()
			if len(conns) != 2 {
				vsched.Fail(fam+"|generation-not-announced", "%s: a new peer posted afterwards: %d connections announced (status %d)", order, len(conns), c2)
			}
			goh.Cancel()
			vsched.Quiesce()
		},
	}
}

// c19ChannelDoneCtxRead: an envelope is ready AND the reader's context is already done: Read
// may return either - but an envelope it does not return is not consumed: the next Read (live
// context) returns it. Envelopes written (Write returned nil) are delivered, equal, in order.
func c19ChannelDoneCtxRead(capn int) *explore.Scenario {
	fam := "C19/channel"
	return &explore.Scenario{
		Name: fmt.Sprintf("C19/channel/done-context-read/cap=%d", capn), Family: fam, Prop: "C19", Bound: 2,
		Run: func() {
			in, out := make(chan *goat.Rpc, capn), make(chan *goat.Rpc, capn)
			rw := goat.NewGoatOverChannel(in, out)
			peer := goat.NewGoatOverChannel(out, in)
			vsched.Explore(true)
			vsched.GoNamed("writer", func() { // one writer: 1 then 2 is the write order
				peer.Write(context.Background(), &goat.Rpc{Id: 1})
				peer.Write(context.Background(), &goat.Rpc{Id: 2})
			})
			vsched.Quiesce()
			dead, cancel := context.WithCancel(context.Background())
			cancel()
			var got []uint64
			for attempt := 0; attempt < 2; attempt++ {
				r, err := rw.Read(dead)
				if err == nil {
					got = append(got, r.GetId())
				}
			}
			for len(got) < 2 {
				rctx, rc := context.WithTimeout(context.Background(), time.Second)
				done := false
				var r *goat.Rpc
				var err error
				vsched.GoNamed("reader", func() { r, err = rw.Read(rctx); done = true })
				vsched.QuiesceTime()
				rc()
				if !done || err != nil {
					vsched.Fail(fam+"|lost", "two envelopes were written; Reads under a done context returned %v; a Read with a live context then found nothing (%v): an envelope was consumed by a Read that reported an error", got, err)
					return
				}
				got = append(got, r.GetId())
			}
			vsched.Obs("got %v", got)
			if fmt.Sprint(got) != "[1 2]" {
				vsched.Fail(fam+"|order", "envelopes read %v, written [1 2]", got)
			}
		},
	}
}
