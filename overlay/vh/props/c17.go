package props

import (
	"context"
	"errors"
	"fmt"
	"strings"
	"time"

	"github.com/avos-io/goat/gen/goatorepo"
	"github.com/avos-io/goat/vh/env"
	"github.com/avos-io/goat/vrt/explore"
	"github.com/avos-io/goat/vrt/vsched"
)

func init() { register("C17", c17) }

func c17(tier string) []*explore.Scenario {
	var out []*explore.Scenario
	bound := 1
	if tier == "thorough" {
		bound = 2
	}
	out = append(out, c17Spoof(), c17Hostile(), c17Product("C17"))
	for _, role := range []string{"none", "stuck-writer", "stuck-writer-flood", "failing-reader", "failing-writer", "failing-writer-live-traffic", "failing-both", "dial-error", "slow-dial"} {
		out = append(out, c17BadPeer(role, bound))
	}
	for _, when := range []string{"before-old-fails", "after-old-fails"} {
		out = append(out, c17Reattach("C17", when, bound))
	}
	out = append(out, c17ReattachRacesTraffic("C17", 3, bound+1), c17ReattachRacesTraffic("C17", 6, bound))
	for _, dial := range []string{"fails", "succeeds", "pending"} {
		out = append(out, c17AttachDuringDial("C17", dial, bound))
		if dial != "pending" {
			out = append(out, c17AttachRacesRouting("C17", dial, bound+1))
		}
	}
	out = append(out, c17OpSeqs("C17", tier)...)
	out = append(out, c17CancelWhileWriting(bound))
	for _, what := range []string{"reattach", "send", "reattach-other"} {
		out = append(out, c17ReentrantCallback(what, bound))
	}
	for _, traffic := range []int{0, 1, 2} {
		out = append(out, c17DeadOnAttach(traffic, bound+3-traffic))
	}
	for step := 0; step <= 4; step++ {
		out = append(out, c17Shutdown(step, bound))
	}
	// the same failures with a proxy that was given no disconnect callback
	out = append(out, withoutDisconnectCallback(pickScenarios(out, "bad-peer/dial-error", "bad-peer/failing-writer", "bad-peer/failing-reader", "dead-on-attach/traffic=1", "reattach/after-old-fails", "opseq/")...)...)
	for _, kind := range []string{"stuck-writer-then-failing-reader", "both-while-forwarder-busy"} {
		out = append(out, c17DoubleFault("C17", kind, 2))
	}
	// finer granularity (a scheduling point after every Unlock as well) on the small core scenarios
	out = append(out, fineGrained(c17AttachRacesRouting("C17", "succeeds", 1), c17ReattachRacesTraffic("C17", 3, 1), c17DoubleFault("C17", "both-while-forwarder-busy", 1))...)
	return out
}

func c17Env(cap int) (*env.ProxyTopo, map[string]*env.Pipe) {
	t := env.NewProxyTopo(nil, env.ProxyOpts{Cap: cap, NoServer: true})
	peers := map[string]*env.Pipe{}
	for _, n := range []string{"a", "b"} {
		p := env.NewPipe(t.Tap, env.PipeOpts{Name: n, Cap: cap})
		peers[n] = p
		t.Proxy.AddClient(n, p.B)
	}
	return t, peers
}

func c17Msg(id uint64, src, dst string) *env.Rpc {
	return &env.Rpc{Id: id, Header: &goatorepo.RequestHeader{Method: "/x/Y", Source: src, Destination: dst}, Body: &goatorepo.Body{Data: []byte{byte(id)}}}
}

func delivered(t *env.ProxyTopo, wire string, id uint64) int {
	n := 0
	for _, e := range t.Tap.Events {
		if e.Wire == wire && e.Dir == "b2a" && e.Rpc.GetId() == id {
			n++
		}
	}
	return n
}

// c17Spoof: every (claimed source, header present) variant from peer a, each
// followed by a good envelope that must still be forwarded.
func c17Spoof() *explore.Scenario {
	fam := "C17/spoof"
	return &explore.Scenario{
		Name: "C17/spoof/source-variants", Family: fam, Prop: "C17", Bound: 1,
		Run: func() {
			t, peers := c17Env(64)
			vsched.Settle()
			vsched.Explore(true)
			variants := []struct {
				name string
				mk   func() *env.Rpc
				ok   bool
			}{
				{"own-name", func() *env.Rpc { return c17Msg(1, "a", "b") }, true},
				{"other-attached-name", func() *env.Rpc { return c17Msg(2, "b", "b") }, false},
				{"unknown-name", func() *env.Rpc { return c17Msg(3, "mallory", "b") }, false},
				{"empty-source", func() *env.Rpc { return c17Msg(4, "", "b") }, false},
				{"no-header", func() *env.Rpc { r := c17Msg(5, "a", "b"); r.Header = nil; return r }, false},
				{"case-variant", func() *env.Rpc { return c17Msg(6, "A", "b") }, false},
			}
			v := variants[vsched.Choose(len(variants))]
			// the routing fields the sender controls besides the source: none of them may make a spoofed envelope acceptable
			routes := []struct {
				name string
				set  func(r *env.Rpc)
			}{
				{"plain", func(r *env.Rpc) {}},
				{"with-route-record", func(r *env.Rpc) { r.Header.ProxyRecord = []string{"proxy:0"} }},
				{"with-own-name-in-record", func(r *env.Rpc) { r.Header.ProxyRecord = []string{"a"} }},
				{"with-return-route", func(r *env.Rpc) { r.Header.ProxyNext = []string{"b"} }},
				{"with-record-and-return-route", func(r *env.Rpc) { r.Header.ProxyRecord = []string{"x", "a"}; r.Header.ProxyNext = []string{"b"} }},
			}
			rt := routes[vsched.Choose(len(routes))]
			first := v.mk()
			if first.Header != nil {
				rt.set(first)
			}
			v.name += "/" + rt.name
			if err := peers["a"].A.Inject(first); err != nil {
				vsched.Fail(fam+"|harness", "%v", err)
				return
			}
			vsched.Quiesce()
			peers["a"].A.Inject(c17Msg(50, "a", "b"))
			peers["b"].A.Inject(c17Msg(51, "b", "a"))
			vsched.Quiesce()
			id := v.mk().GetId()
			vsched.Obs("%s: delivered=%d follow-up=%d/%d", v.name, delivered(t, "b", id), delivered(t, "b", 50), delivered(t, "a", 51))
			if v.ok && delivered(t, "b", id) != 1 {
				vsched.Fail(fam+"|good-not-forwarded", "an envelope with the peer's own source was delivered %d times", delivered(t, "b", id))
			}
			if !v.ok && (delivered(t, "b", id) != 0 || delivered(t, "a", id) != 0) {
				vsched.Fail(fam+"|spoof-forwarded", "an envelope with %s was forwarded", v.name)
			}
			if delivered(t, "b", 50) != 1 || delivered(t, "a", 51) != 1 {
				vsched.Fail(fam+"|stopped-forwarding", "after an envelope with %s the proxy no longer forwards good traffic (a->b %d, b->a %d)", v.name, delivered(t, "b", 50), delivered(t, "a", 51))
			}
		},
	}
}

// c17Hostile: envelopes from peer a whose source is right but whose other
// fields are degenerate (the transports between in-process peers hand over
// the very object, so "impossible on the wire" shapes such as an empty but
// non-nil return route are possible). None may crash the proxy or stop it
// forwarding; where the destination is unambiguous the envelope is delivered.
func c17Hostile() *explore.Scenario {
	fam := "C17/hostile-envelope"
	return &explore.Scenario{
		Name: "C17/hostile-envelope/shapes", Family: fam, Prop: "C17", Bound: 1,
		Run: func() {
			t, peers := c17Env(4)
			t.DialErr["nowhere"] = errors.New("no route")
			t.DialErr[""] = errors.New("no route")
			vsched.Settle()
			variants := []struct {
				name string
				mk   func() *env.Rpc
				to   string // where it must arrive exactly once ("" = not judged)
			}{
				{"empty-nonnil-return-route", func() *env.Rpc { r := c17Msg(1, "a", "b"); r.Header.ProxyNext = []string{}; return r }, "b"},
				{"return-route-of-one", func() *env.Rpc { r := c17Msg(2, "a", "nowhere"); r.Header.ProxyNext = []string{"b"}; return r }, "b"},
				{"return-route-of-two", func() *env.Rpc { r := c17Msg(3, "a", "nowhere"); r.Header.ProxyNext = []string{"x", "b"}; return r }, "b"},
				{"return-route-empty-name", func() *env.Rpc { r := c17Msg(4, "a", "b"); r.Header.ProxyNext = []string{""}; return r }, ""},
				{"return-route-unknown", func() *env.Rpc { r := c17Msg(5, "a", "b"); r.Header.ProxyNext = []string{"nowhere"}; return r }, ""},
				{"empty-destination", func() *env.Rpc { return c17Msg(6, "a", "") }, ""},
				{"no-body", func() *env.Rpc { r := c17Msg(7, "a", "b"); r.Body = nil; return r }, "b"},
				{"empty-nonnil-record", func() *env.Rpc { r := c17Msg(8, "a", "b"); r.Header.ProxyRecord = []string{}; return r }, "b"},
				{"long-record", func() *env.Rpc {
					r := c17Msg(9, "a", "b")
					for i := 0; i < 40; i++ {
						r.Header.ProxyRecord = append(r.Header.ProxyRecord, "p")
					}
					return r
				}, "b"},
				{"everything-at-once", func() *env.Rpc {
					r := c17Msg(10, "a", "b")
					r.Status = &goatorepo.ResponseStatus{Code: 1, Message: "x"}
					r.Trailer = &goatorepo.Trailer{}
					r.Reset_ = &goatorepo.Reset{Type: "RST_STREAM"}
					return r
				}, "b"},
				{"to-self", func() *env.Rpc { return c17Msg(11, "a", "a") }, "a"},
				{"id-zero", func() *env.Rpc { return c17Msg(0, "a", "b") }, ""},
			}
			v := variants[vsched.Choose(len(variants))]
			vsched.Explore(true)
			if err := peers["a"].A.Inject(v.mk()); err != nil {
				vsched.Fail(fam+"|harness", "%v", err)
				return
			}
			vsched.Quiesce()
			peers["a"].A.Inject(c17Msg(50, "a", "b"))
			peers["b"].A.Inject(c17Msg(51, "b", "a"))
			vsched.Quiesce()
			id := v.mk().GetId()
			vsched.Obs("%s: delivered to b=%d a=%d follow-up=%d/%d", v.name, delivered(t, "b", id), delivered(t, "a", id), delivered(t, "b", 50), delivered(t, "a", 51))
			if v.to != "" && delivered(t, v.to, id) != 1 {
				vsched.Fail(fam+"|not-delivered", "an envelope with %s was delivered to %s %d times", v.name, v.to, delivered(t, v.to, id))
			}
			if delivered(t, "b", 50) != 1 || delivered(t, "a", 51) != 1 {
				vsched.Fail(fam+"|stopped-forwarding", "after an envelope with %s the proxy no longer forwards good traffic (a->b %d, b->a %d)", v.name, delivered(t, "b", 50), delivered(t, "a", 51))
			}
		},
	}
}

// c17BadPeer: traffic a<->b while a third destination c misbehaves.
func c17BadPeer(role string, bound int) *explore.Scenario {
	fam := "C17/bad-peer"
	return &explore.Scenario{
		Name: "C17/bad-peer/" + role, Family: fam, Prop: "C17", Bound: bound,
		Run: func() {
			t, peers := c17Env(4)
			pc := env.NewPipe(t.Tap, env.PipeOpts{Name: "c", Cap: 0})
			release := make(chan struct{})
			switch role {
			case "stuck-writer", "stuck-writer-flood":
				t.Extra["c"] = pc // nobody ever reads c: writes to it block for good
			case "failing-reader":
				t.Extra["c"] = pc
				pc.A.ReadFailAfter = 0
			case "failing-writer":
				t.Extra["c"] = pc
				pc.A.WriteFailAt = 0
			case "failing-writer-live-traffic":
				// more envelopes for c arrive at the proxy at the very moment its write to c fails
				t.Extra["c"] = pc
				pc.A.WriteFailAt = 0
				fired := false
				pc.A.OnWriteCall = func(k int, rpc *env.Rpc) {
					if !fired {
						fired = true
						peers["b"].A.Inject(c17Msg(13, "b", "c"))
						peers["a"].A.Inject(c17Msg(14, "a", "c"))
					}
				}
			case "failing-both":
				t.Extra["c"] = pc
				pc.A.WriteFailAt = 0
				pc.A.ReadFailAfter = 0
			case "dial-error":
				t.DialErr["c"] = errors.New("no route to c")
			case "slow-dial":
				t.Extra["c"] = pc
				t.SlowDial = map[string]chan struct{}{"c": release}
			}
			vsched.Settle()
			vsched.Explore(true)
			// a sends to c (twice) and to b; b answers a
			vsched.GoNamed("peer-a", func() {
				if role != "none" {
					peers["a"].A.Inject(c17Msg(10, "a", "c"))
					peers["a"].A.Inject(c17Msg(11, "a", "c"))
				}
				if role == "stuck-writer-flood" {
					// more than the proxy buffers for one destination, ends of calls included
					for i := 0; i < 22; i++ {
						m := c17Msg(uint64(100+i), "a", "c")
						if i%4 == 3 {
							m.Trailer = &goatorepo.Trailer{}
							m.Status = &goatorepo.ResponseStatus{}
						}
						peers["a"].A.Inject(m)
					}
				}
				peers["a"].A.Inject(c17Msg(20, "a", "b"))
				peers["a"].A.Inject(c17Msg(21, "a", "b"))
			})
			vsched.GoNamed("peer-b", func() {
				peers["b"].A.Inject(c17Msg(30, "b", "a"))
				if role != "none" {
					peers["b"].A.Inject(c17Msg(12, "b", "c"))
				}
				peers["b"].A.Inject(c17Msg(31, "b", "a"))
			})
			vsched.Quiesce()
			vsched.Obs("role=%s a->b=%d,%d b->a=%d,%d disconnects=%v", role, delivered(t, "b", 20), delivered(t, "b", 21), delivered(t, "a", 30), delivered(t, "a", 31), t.Disconnects)
			for _, x := range []struct {
				wire string
				id   uint64
			}{{"b", 20}, {"b", 21}, {"a", 30}, {"a", 31}} {
				if delivered(t, x.wire, x.id) != 1 {
					vsched.Fail(fam+"|healthy-traffic-delayed", "with destination c as %s, envelope %d between the healthy peers was delivered %d times; threads: %s", role, x.id, delivered(t, x.wire, x.id), threadList())
				}
			}
			switch role {
			case "failing-reader", "failing-writer", "failing-writer-live-traffic", "failing-both", "dial-error":
				n := 0
				for _, d := range t.Disconnects {
					if d == "c" {
						n++
					}
				}
				if n < 1 {
					if t.HasCallback { // (without a disconnect callback there is nothing to be told; the removal clauses still apply)
						vsched.Fail(fam+"|no-disconnect-report", "connection c failed (%s) but the disconnect callback was not called for it (%v)", role, t.Disconnects)
					}
				}
			}
			for _, d := range t.Disconnects {
				if d != "c" {
					vsched.Fail(fam+"|healthy-peer-disconnected", "healthy peer %s was reported disconnected", d)
				}
			}
			// a failed connection is removed: later traffic for c is dialled afresh
			if role == "failing-reader" || role == "failing-writer" || role == "failing-both" {
				before := countStr(t.Dialed, "c")
				peers["a"].A.Inject(c17Msg(60, "a", "c"))
				vsched.Quiesce()
				after := countStr(t.Dialed, "c")
				if after != before+1 {
					vsched.Fail(fam+"|failed-connection-not-removed", "connection c failed (%s) but a later envelope for c did not lead to a new dial (dials before %d, after %d; disconnects %v)", role, before, after, t.Disconnects)
				}
			}
			if role == "slow-dial" {
				close(release)
			}
			t.Cancel()
			vsched.Quiesce()
			for _, p := range peers {
				p.A.Break()
				p.B.Break()
			}
			pc.A.Break()
			pc.B.Break()
			vsched.Quiesce()
			if ts := vsched.Threads(); len(ts) > 0 {
				vsched.Fail(fam+"|goroutine-leak", "after cancelling the proxy's context goroutines remain (%s): %s", role, threadList())
			}
		},
	}
}

// c17Reattach: peer b re-attaches under its name; the old connection then fails.
func c17Reattach(prop, when string, bound int) *explore.Scenario {
	fam := prop + "/reattach"
	return &explore.Scenario{
		Name: prop + "/reattach/" + when, Family: fam, Prop: prop, Bound: bound,
		Run: func() {
			t, peers := c17Env(4)
			vsched.Settle()
			vsched.Explore(true)
			old := peers["b"]
			nb := env.NewPipe(t.Tap, env.PipeOpts{Name: "b2", Cap: 4})
			// b is the destination of the last envelope forwarded before it re-attaches
			peers["a"].A.Inject(c17Msg(39, "a", "b"))
			vsched.Quiesce()
			if n := delivered(t, "b", 39); n != 1 {
				vsched.Fail(fam+"|warm-up", "envelope 39 a->b before the re-attach was delivered %d times", n)
			}
			if when == "before-old-fails" {
				t.Proxy.AddClient("b", nb.B)
				vsched.Quiesce()
				// traffic for b while the replaced connection is still alive (idle): it belongs to the new one
				peers["a"].A.Inject(c17Msg(41, "a", "b"))
				peers["a"].A.Inject(c17Msg(42, "a", "b"))
				peers["a"].A.Inject(c17Msg(43, "a", "b"))
				vsched.Quiesce()
				for _, id := range []uint64{41, 42, 43} {
					nn := 0
					for _, e := range t.Tap.Events {
						if e.Wire == "b2" && e.Dir == "b2a" && e.Rpc.GetId() == id {
							nn++
						}
					}
					if nn != 1 {
						vsched.Fail(fam+"|newer-connection-disturbed", "peer b re-attached while its old connection is still alive: envelope %d reached the new connection %d times (old connection got %d)", id, nn, delivered(t, "b", id))
					}
				}
				old.B.Break() // the old connection's read fails now
				old.A.Break()
			} else {
				old.B.Break()
				old.A.Break()
				vsched.Quiesce()
				t.Proxy.AddClient("b", nb.B)
			}
			vsched.Quiesce()
			peers["a"].A.Inject(c17Msg(40, "a", "b"))
			vsched.Quiesce()
			n := 0
			for _, e := range t.Tap.Events {
				if e.Wire == "b2" && e.Dir == "b2a" && e.Rpc.GetId() == 40 {
					n++
				}
			}
			vsched.Obs("%s: delivered to the new connection=%d dialed=%v disconnects=%v", when, n, t.Dialed, t.Disconnects)
			if n != 1 {
				vsched.Fail(fam+"|newer-connection-disturbed", "peer b re-attached (%s): an envelope for b reached the new connection %d times (dialled %v, disconnects %v)", when, n, t.Dialed, t.Disconnects)
			}
			nd := 0
			for _, d := range t.Disconnects {
				if d == "b" {
					nd++
				}
			}
			if nd < 1 {
				if t.HasCallback { // (without a disconnect callback there is nothing to be told; the removal clauses still apply)
					vsched.Fail(fam+"|no-disconnect-report", "the failed old connection of b was never reported")
				}
			}
		},
	}
}

// c17AttachDuringDial: an envelope for c makes the proxy dial c; while the
// dial is pending c attaches itself under its name; then the dial fails /
// succeeds / stays pending. Envelopes for c sent after the attach belong to
// the attached connection (the newer one), consecutively and after other traffic.
func c17AttachDuringDial(prop, dial string, bound int) *explore.Scenario {
	fam := prop + "/attach-during-dial"
	return &explore.Scenario{
		Name: prop + "/attach-during-dial/dial-" + dial, Family: fam, Prop: prop, Bound: bound,
		Run: func() {
			t, peers := c17Env(4)
			release := make(chan struct{})
			t.SlowDial = map[string]chan struct{}{"c": release}
			dialled := env.NewPipe(t.Tap, env.PipeOpts{Name: "cdial", Cap: 4})
			if dial == "fails" {
				t.DialErr["c"] = errors.New("no route to c")
			} else {
				t.Extra["c"] = dialled
			}
			vsched.Settle()
			vsched.Explore(true)
			peers["a"].A.Inject(c17Msg(80, "a", "c")) // starts the dial
			vsched.Quiesce()
			own := env.NewPipe(t.Tap, env.PipeOpts{Name: "c", Cap: 4})
			t.Proxy.AddClient("c", own.B)
			vsched.Quiesce()
			if dial != "pending" {
				close(release)
				vsched.Quiesce()
			}
			peers["a"].A.Inject(c17Msg(81, "a", "c"))
			vsched.Quiesce()
			peers["a"].A.Inject(c17Msg(82, "a", "b"))
			peers["a"].A.Inject(c17Msg(83, "a", "c"))
			vsched.Quiesce()
			count := func(wire string, id uint64) int {
				n := 0
				for _, e := range t.Tap.Events {
					if e.Wire == wire && e.Rpc.GetId() == id {
						n++
					}
				}
				return n
			}
			vsched.Obs("dial %s: 80 own=%d dialled=%d | 81 own=%d | 83 own=%d | 82 b=%d | dialed=%v disconnects=%v", dial, count("c", 80), count("cdial", 80), count("c", 81), count("c", 83), delivered(t, "b", 82), t.Dialed, t.Disconnects)
			for _, id := range []uint64{81, 83} {
				if n := count("c", id); n != 1 {
					vsched.Fail(fam+"|newer-connection-disturbed", "c attached itself while the proxy was dialling c (dial %s): envelope %d for c, sent after the attach, reached the attached connection %d times (the dialled one %d times)", dial, id, n, count("cdial", id))
				}
			}
			if n := delivered(t, "b", 82); n != 1 {
				vsched.Fail(fam+"|bystander-traffic", "envelope 82 a->b was delivered %d times", n)
			}
			if n := count("c", 80) + count("cdial", 80); n > 1 {
				vsched.Fail(fam+"|duplicate", "envelope 80 was delivered %d times", n)
			}
			if dial == "pending" {
				close(release)
				vsched.Quiesce()
			}
		},
	}
}

// c17DeadOnAttach: a peer attaches with a connection that fails at once, while
// `traffic` envelopes a->b keep the forwarding loop busy. The failure must be
// reported once, and the name must not stay occupied by the dead connection:
// a later envelope for c makes the proxy dial c, and traffic a->b is untouched.
func c17DeadOnAttach(traffic, bound int) *explore.Scenario {
	fam := "C17/dead-on-attach"
	return &explore.Scenario{
		Name: fmt.Sprintf("C17/dead-on-attach/traffic=%d", traffic), Family: fam, Prop: "C17", Bound: bound,
		Run: func() {
			t, peers := c17Env(4)
			dead := env.NewPipe(t.Tap, env.PipeOpts{Name: "cdead", Cap: 4})
			dead.B.ReadFailAfter = 0
			dead.B.WriteFailAt = 0
			live := env.NewPipe(t.Tap, env.PipeOpts{Name: "c", Cap: 4})
			t.Extra["c"] = live
			vsched.Settle()
			vsched.Explore(true)
			for i := 0; i < traffic; i++ {
				peers["a"].A.Inject(c17Msg(uint64(60+i), "a", "b"))
			}
			vsched.Go("attach-dead", func() { t.Proxy.AddClient("c", dead.B) })
			vsched.Quiesce()
			for i := 0; i < traffic; i++ {
				if n := delivered(t, "b", uint64(60+i)); n != 1 {
					vsched.Fail(fam+"|bystander-traffic", "envelope %d a->b was delivered %d times while c attached with a dead connection", 60+i, n)
				}
			}
			peers["a"].A.Inject(c17Msg(70, "a", "c"))
			vsched.Quiesce()
			n := 0
			for _, e := range t.Tap.Events {
				if e.Wire == "c" && e.Rpc.GetId() == 70 { // dialled peers have the proxy on their A side
					n++
				}
			}
			nd := countStr(t.Disconnects, "c")
			vsched.Obs("traffic=%d: delivered to re-dialled c=%d dialed=%v disconnects=%v", traffic, n, t.Dialed, t.Disconnects)
			if nd < 1 {
				if t.HasCallback { // (without a disconnect callback there is nothing to be told; the removal clauses still apply)
					vsched.Fail(fam+"|no-disconnect-report", "c's connection failed at attach but was never reported")
				}
			}
			if n != 1 {
				vsched.Fail(fam+"|dead-connection-kept", "c attached with a connection that failed at once (reported %d times); a later envelope for c reached a fresh connection %d times (dialled %v): the dead connection still occupies the name", nd, n, t.Dialed)
			}
			peers["a"].A.Inject(c17Msg(71, "a", "b"))
			vsched.Quiesce()
			if n := delivered(t, "b", 71); n != 1 {
				vsched.Fail(fam+"|bystander-traffic", "after c's failed attach an envelope a->b was delivered %d times", n)
			}
		},
	}
}

// c17Shutdown: the proxy's context is cancelled after `step` envelopes of a
// small conversation; nothing of the proxy may remain.
func c17Shutdown(step, bound int) *explore.Scenario {
	fam := "C17/shutdown"
	return &explore.Scenario{
		Name: fmt.Sprintf("C17/shutdown/after=%d", step), Family: fam, Prop: "C17", Bound: bound,
		Run: func() {
			t, peers := c17Env(1)
			pc := env.NewPipe(t.Tap, env.PipeOpts{Name: "c", Cap: 1})
			t.Extra["c"] = pc
			vsched.Settle()
			vsched.Explore(true)
			script := []*env.Rpc{c17Msg(1, "a", "b"), c17Msg(2, "b", "a"), c17Msg(3, "a", "c"), c17Msg(4, "b", "c")}
			vsched.GoNamed("peers", func() {
				for i, m := range script {
					if i == step {
						t.Cancel()
					}
					if m.Header.Source == "a" {
						peers["a"].A.Write(context.Background(), m)
					} else {
						peers["b"].A.Write(context.Background(), m)
					}
				}
				if step >= len(script) {
					t.Cancel()
				}
			})
			vsched.Quiesce()
			// readers of the peers go away with the transports
			for _, p := range []*env.Pipe{peers["a"], peers["b"], pc} {
				p.A.Break()
				p.B.Break()
			}
			vsched.Quiesce()
			vsched.Obs("proxyDone=%v threads=%d", t.ProxyDone, len(vsched.Threads()))
			if !t.ProxyDone {
				vsched.Fail(fam+"|serve-hang", "Proxy.Serve did not return after its context was cancelled")
			}
			if ts := vsched.Threads(); len(ts) > 0 {
				vsched.Fail(fam+"|goroutine-leak", "after cancelling the proxy's context (after %d envelopes) goroutines remain: %s", step, threadList())
			}
		},
	}
}

func countStr(l []string, s string) int {
	n := 0
	for _, x := range l {
		if x == s {
			n++
		}
	}
	return n
}

var c17Ops = []string{"send:b", "send:c", "attach:b", "attach:c", "fail-current:b", "fail-replaced:b", "fail-current:c"}

func c17OpSeqs(prop, tier string) []*explore.Scenario {
	n := 5
	if tier == "thorough" {
		n = 7
	}
	var out []*explore.Scenario
	for first := range c17Ops {
		out = append(out, c17OpSeq(prop, first, n))
	}
	return out
}

// c17OpSeq: every sequence (first operation fixed per scenario) of proxy
// operations - envelopes from a to b (attached) and to c (dialled on demand),
// b or c attaching again under their names, the current or a replaced
// connection failing - against a reference model: an envelope goes exactly
// once to the newest connection of its destination (dialling one if there is
// none), every failed connection is reported, a never reports.
func c17OpSeq(prop string, first, maxLen int) *explore.Scenario {
	fam := prop + "/opseq"
	return &explore.Scenario{
		Name: fmt.Sprintf("%s/opseq/first=%s/len<=%d", prop, c17Ops[first], maxLen), Family: fam, Prop: prop, Bound: 0, MaxExecs: 3000000,
		Run: func() {
			t, peers := c17Env(16) // no pipe ever fills: nobody reads the peers' ends
			vsched.Settle()
			type conn struct {
				p      *env.Pipe
				name   string
				failed bool
			}
			cur := map[string]*conn{"b": {p: peers["b"], name: "b"}}
			var replaced []*conn // b's connections that were replaced while alive
			fails := map[string]int{}
			nconn := 0
			newPipe := func(name string) *env.Pipe {
				nconn++
				return env.NewPipe(t.Tap, env.PipeOpts{Name: fmt.Sprintf("%s#%d", name, nconn), Cap: 16})
			}
			count := func(wire string, id uint64) int {
				n := 0
				for _, e := range t.Tap.Events {
					if e.Wire == wire && e.Rpc.GetId() == id && e.Rpc.GetHeader().GetSource() == "a" {
						n++
					}
				}
				return n
			}
			seq := ""
			nextID := uint64(100)
			for pos := 0; pos < maxLen; pos++ {
				op := first
				if pos > 0 {
					c := vsched.Choose(len(c17Ops) + 1)
					if c == len(c17Ops) {
						break
					}
					op = c
				}
				name := c17Ops[op]
				seq += " " + name
				arg := name[strings.Index(name, ":")+1:]
				switch {
				case strings.HasPrefix(name, "send:"):
					var dialPipe *env.Pipe
					if cur[arg] == nil {
						dialPipe = newPipe(arg + "-dialled")
						t.Extra[arg] = dialPipe
					}
					dialsBefore := countStr(t.Dialed, arg)
					id := nextID
					nextID++
					peers["a"].A.Inject(c17Msg(id, "a", arg))
					vsched.Quiesce()
					if dialPipe != nil {
						if countStr(t.Dialed, arg) != dialsBefore+1 {
							vsched.Fail(fam+"|not-dialled", "after%s: %s has no connection, but the proxy dialled it %d times for envelope %d", seq, arg, countStr(t.Dialed, arg)-dialsBefore, id)
							return
						}
						cur[arg] = &conn{p: dialPipe, name: arg}
					} else if countStr(t.Dialed, arg) != dialsBefore {
						vsched.Fail(fam+"|dialled-despite-connection", "after%s: %s has a live connection (%s) but the proxy dialled it", seq, arg, cur[arg].p.Opts.Name)
					}
					if n := count(cur[arg].p.Opts.Name, id); n != 1 {
						others := ""
						for _, e := range t.Tap.Events {
							if e.Rpc.GetId() == id && e.Wire != "a" {
								others += " " + e.Wire
							}
						}
						vsched.Fail(fam+"|delivery", "after%s: envelope %d for %s reached its newest connection %s %d times (seen on:%s)", seq, id, arg, cur[arg].p.Opts.Name, n, others)
						return
					}
				case strings.HasPrefix(name, "attach:"):
					np := newPipe(arg)
					if old := cur[arg]; old != nil {
						replaced = append(replaced, old)
					}
					t.Proxy.AddClient(arg, np.B)
					cur[arg] = &conn{p: np, name: arg}
					vsched.Quiesce()
				case name == "fail-current:b", name == "fail-current:c":
					c := cur[arg]
					if c == nil {
						continue
					}
					c.failed = true
					c.p.A.Break()
					c.p.B.Break()
					fails[arg]++
					delete(cur, arg)
					vsched.Quiesce()
				case name == "fail-replaced:b":
					var c *conn
					for _, r := range replaced {
						if r.name == "b" && !r.failed {
							c = r
							break
						}
					}
					if c == nil {
						continue
					}
					c.failed = true
					c.p.A.Break()
					c.p.B.Break()
					fails["b"]++
					vsched.Quiesce()
				}
				for _, n := range []string{"b", "c"} {
					if got := countStr(t.Disconnects, n); got < fails[n] && t.HasCallback { // (without a disconnect callback there is nothing to be told; the removal clauses still apply)
						vsched.Fail(fam+"|no-disconnect-report", "after%s: %d connections of %s have failed, %d reports reached the disconnect callback", seq, fails[n], n, got)
						return
					}
				}
				if countStr(t.Disconnects, "a") > 0 {
					vsched.Fail(fam+"|healthy-peer-reported", "after%s: the healthy peer a was reported as disconnected", seq)
					return
				}
			}
			vsched.Obs("seq:%s | dialed=%v disconnects=%v", seq, t.Dialed, t.Disconnects)
			t.Cancel()
			vsched.Quiesce()
			if ts := vsched.Threads(); len(ts) > 0 {
				vsched.Fail(fam+"|goroutine-leak", "after%s and cancelling the proxy: goroutines remain: %s", seq, threadList())
			}
		},
	}
}

// c17Product: the product of the routing fields a sender controls - source
// {own name, another attached peer's, unknown, empty} x destination {attached
// b, dialable c, the sender itself, unknown, empty} x return route {absent,
// empty, [b], [c], [unknown], [x b]} x route record {absent, empty, [edge]} =
// 360 envelopes from peer a, each followed by good traffic. Reference model: an
// envelope is forwarded iff its source is the sender's own name; then it goes,
// exactly once, to the last hop of a non-empty return route, else to its
// destination (dialling c on demand), with the proxy's name appended to the
// route record; nothing else is delivered; nothing crashes.
func c17Product(prop string) *explore.Scenario {
	fam := prop + "/routing-product"
	return &explore.Scenario{
		Name: prop + "/routing-product/504-header-shapes", Family: fam, Prop: prop, Bound: 0,
		Run: func() {
			t, peers := c17Env(16)
			pc := env.NewPipe(t.Tap, env.PipeOpts{Name: "c", Cap: 16})
			t.Extra["c"] = pc
			t.DialErr["nowhere"] = errors.New("no route")
			t.DialErr[""] = errors.New("no route")
			t.DialErr["x"] = errors.New("no route")
			pp := env.NewPipe(t.Tap, env.PipeOpts{Name: "proxy", Cap: 16})
			t.Extra["proxy"] = pp // a peer reachable under the proxy's own name (dialled on demand like any other)
			vsched.Settle()
			srcs := []string{"a", "b", "mallory", ""}
			dsts := []string{"b", "c", "a", "nowhere", "", "proxy"}
			nexts := [][]string{nil, {}, {"b"}, {"c"}, {"nowhere"}, {"x", "b"}, {"proxy"}}
			recs := [][]string{nil, {}, {"edge"}}
			si, di, ni, ri := vsched.Choose(len(srcs)), vsched.Choose(len(dsts)), vsched.Choose(len(nexts)), vsched.Choose(len(recs))
			rpc := c17Msg(1, srcs[si], dsts[di])
			rpc.Header.ProxyNext = nexts[ni]
			rpc.Header.ProxyRecord = recs[ri]
			peers["a"].A.Inject(rpc)
			vsched.Quiesce()
			peers["a"].A.Inject(c17Msg(50, "a", "b"))
			peers["b"].A.Inject(c17Msg(51, "b", "a"))
			vsched.Quiesce()
			want := ""
			if srcs[si] == "a" {
				want = dsts[di]
				if len(nexts[ni]) > 0 {
					want = nexts[ni][len(nexts[ni])-1]
				}
				if want != "a" && want != "b" && want != "c" && want != "proxy" {
					want = "" // cannot be reached
				}
			}
			desc := fmt.Sprintf("source=%q destination=%q return-route=%v record=%v", srcs[si], dsts[di], nexts[ni], recs[ri])
			for _, peer := range []string{"a", "b", "c", "proxy"} {
				n := 0
				var rec []string
				dialled := peer == "c" || peer == "proxy"
				for _, e := range t.Tap.Events {
					if e.Wire == peer && e.Rpc.GetId() == 1 && ((dialled && e.Dir == "a2b") || (!dialled && e.Dir == "b2a")) {
						n++
						rec = e.Rpc.GetHeader().GetProxyRecord()
					}
				}
				switch {
				case peer == want && n != 1:
					vsched.Fail(fam+"|not-delivered", "envelope from a with %s: delivered to %s %d times, want once", desc, peer, n)
				case peer != want && n != 0:
					vsched.Fail(fam+"|misdelivered", "envelope from a with %s: delivered to %s %d times (expected destination: %q)", desc, peer, n, want)
				case peer == want:
					wantRec := append(append([]string{}, recs[ri]...), "proxy")
					if fmt.Sprint(rec) != fmt.Sprint(wantRec) {
						vsched.Fail(fam+"|route-record", "envelope from a with %s: arrived with route record %v, want %v", desc, rec, wantRec)
					}
				}
			}
			if delivered(t, "b", 50) != 1 || delivered(t, "a", 51) != 1 {
				vsched.Fail(fam+"|stopped-forwarding", "after an envelope with %s the proxy no longer forwards good traffic", desc)
			}
			vsched.Obs("%s -> %q", desc, want)
		},
	}
}

// c17ReentrantCallback: the disconnect callback calls back into the proxy, as a
// reconnect policy would (AddClient for the peer that failed, or for another
// name) or as a notifier would (through a peer's connection). The proxy keeps
// forwarding, the re-attached connection works, and shutdown still completes.
func c17ReentrantCallback(what string, bound int) *explore.Scenario {
	fam := "C17/reentrant-callback"
	return &explore.Scenario{
		Name: "C17/reentrant-callback/" + what, Family: fam, Prop: "C17", Bound: bound,
		Run: func() {
			t, peers := c17Env(16)
			nb := env.NewPipe(t.Tap, env.PipeOpts{Name: "b2", Cap: 16})
			cbDone := 0
			t.OnDisconnect = func(id string) {
				switch what {
				case "reattach":
					if id == "b" && cbDone == 0 {
						t.Proxy.AddClient("b", nb.B)
					}
				case "reattach-other":
					if cbDone == 0 {
						t.Proxy.AddClient("z", nb.B)
					}
				case "send":
					peers["a"].A.Inject(c17Msg(uint64(90+cbDone), "a", "a"))
				}
				cbDone++
			}
			vsched.Settle()
			vsched.Explore(true)
			peers["a"].A.Inject(c17Msg(1, "a", "b"))
			vsched.Quiesce()
			peers["b"].A.Break() // b's connection fails
			peers["b"].B.Break()
			vsched.Quiesce()
			if cbDone == 0 {
				vsched.Fail(fam+"|callback-stuck", "b's connection failed; the disconnect callback (%s) has not completed; threads: %s", what, threadList())
			}
			peers["a"].A.Inject(c17Msg(2, "a", "a")) // traffic that does not involve b
			vsched.Quiesce()
			if n := delivered(t, "a", 2); n != 1 {
				vsched.Fail(fam+"|stopped-forwarding", "after the disconnect callback (%s) re-entered the proxy, an envelope a->a was delivered %d times; threads: %s", what, n, threadList())
			}
			if what == "reattach" {
				peers["a"].A.Inject(c17Msg(3, "a", "b"))
				vsched.Quiesce()
				n := 0
				for _, e := range t.Tap.Events {
					if e.Wire == "b2" && e.Rpc.GetId() == 3 {
						n++
					}
				}
				if n != 1 {
					vsched.Fail(fam+"|reattached-connection-dead", "the callback re-attached b; an envelope for b reached the new connection %d times", n)
				}
			}
			t.Cancel()
			vsched.Quiesce()
			if !t.ProxyDone {
				vsched.Fail(fam+"|shutdown-hang", "after the disconnect callback (%s) re-entered the proxy, cancelling its context does not end Serve; threads: %s", what, threadList())
			}
			for _, p := range peers {
				p.A.Break()
				p.B.Break()
			}
			nb.A.Break()
			nb.B.Break()
			vsched.Quiesce()
			if ts := vsched.Threads(); len(ts) > 0 {
				vsched.Fail(fam+"|goroutine-leak", "after shutdown: %s", threadList())
			}
		},
	}
}

// c17CancelWhileWriting: the proxy's writer for peer b is inside a Write that b
// is not taking (stuck writer) when the proxy's context is cancelled. At once -
// without any clock advance - Serve has returned and no goroutine of the proxy
// is left; an envelope that was still stuck is not delivered afterwards.
func c17CancelWhileWriting(bound int) *explore.Scenario {
	fam := "C17/shutdown"
	return &explore.Scenario{
		Name: "C17/shutdown/cancel-while-a-write-is-blocked", Family: fam, Prop: "C17", Bound: bound,
		Run: func() {
			t, peers := c17Env(0)
			vsched.Settle()
			vsched.Explore(true)
			vsched.GoNamed("sender-a", func() { peers["a"].A.Write(context.Background(), c17Msg(1, "a", "b")) })
			vsched.Quiesce() // nobody reads b: the proxy's writer for b is blocked in Write
			t.Cancel()
			vsched.Quiesce()
			if !t.ProxyDone {
				vsched.Fail(fam+"|serve-hang", "Serve did not return after the context was cancelled; threads: %s", threadList())
			}
			var left []string
			for _, th := range vsched.Threads() {
				if !strings.HasPrefix(th.Name, "sender") {
					left = append(left, fmt.Sprintf("%s(%s %s@%s)", th.ID, th.Name, th.Op, th.Site))
				}
			}
			if len(left) > 0 {
				vsched.Fail(fam+"|goroutine-leak", "the proxy's context was cancelled while its writer for b was blocked in Write: goroutines of the proxy remain (without any time passing): %v", left)
			}
			// b starts reading only now: nothing may arrive
			var late *env.Rpc
			vsched.GoNamed("late-reader-b", func() {
				ctx, c := context.WithTimeout(context.Background(), time.Minute)
				defer c()
				late, _ = peers["b"].A.Read(ctx)
			})
			vsched.QuiesceTime()
			if late != nil {
				vsched.Fail(fam+"|forwarded-after-shutdown", "envelope %d was delivered to b after the proxy had been cancelled", late.GetId())
			}
			for _, p := range peers {
				p.A.Break()
				p.B.Break()
			}
			vsched.Quiesce()
		},
	}
}

// c17AttachRacesRouting: peer c attaches itself (AddClient from its own thread) while the first
// envelope for the still unknown name c is being routed - the proxy's decision to dial and the
// registration of the attached connection race. Whichever wins, c's own connection is the
// newer one once AddClient has returned: envelopes sent after that reach it exactly once.
func c17AttachRacesRouting(prop, dial string, bound int) *explore.Scenario {
	fam := prop + "/attach-races-routing"
	return &explore.Scenario{
		Name: prop + "/attach-races-routing/dial-" + dial, Family: fam, Prop: prop, Bound: bound,
		Run: func() {
			t, peers := c17Env(4)
			dialled := env.NewPipe(t.Tap, env.PipeOpts{Name: "cdial", Cap: 4})
			if dial == "fails" {
				t.DialErr["c"] = errors.New("no route to c")
			} else {
				t.Extra["c"] = dialled
			}
			vsched.Settle()
			vsched.Explore(true)
			own := env.NewPipe(t.Tap, env.PipeOpts{Name: "c", Cap: 4})
			attached := false
			peers["a"].A.Inject(c17Msg(80, "a", "c"))
			vsched.GoNamed("attach-c", func() { t.Proxy.AddClient("c", own.B); attached = true })
			vsched.Quiesce()
			peers["a"].A.Inject(c17Msg(81, "a", "c"))
			vsched.Quiesce()
			peers["a"].A.Inject(c17Msg(82, "a", "b"))
			peers["a"].A.Inject(c17Msg(83, "a", "c"))
			vsched.Quiesce()
			count := func(wire string, id uint64) int {
				n := 0
				for _, e := range t.Tap.Events {
					if e.Wire == wire && e.Rpc.GetId() == id {
						n++
					}
				}
				return n
			}
			vsched.Obs("dial %s attached=%v: 80 own=%d dialled=%d | 81 own=%d | 83 own=%d | 82 b=%d | dialed=%v disconnects=%v", dial, attached, count("c", 80), count("cdial", 80), count("c", 81), count("c", 83), delivered(t, "b", 82), t.Dialed, t.Disconnects)
			if !attached {
				vsched.Fail(fam+"|attach-hang", "AddClient did not return")
				return
			}
			for _, id := range []uint64{81, 83} {
				if n := count("c", id); n != 1 {
					vsched.Fail(fam+"|newer-connection-disturbed", "c attached itself while the first envelope for c was being routed (dial %s): envelope %d, sent after AddClient returned, reached the attached connection %d times (the dialled one %d times)", dial, id, n, count("cdial", id))
				}
			}
			for _, d := range t.Disconnects {
				if d == "c" && dial != "fails" {
					vsched.Fail(fam+"|healthy-reported", "c was reported disconnected although neither of its connections failed")
				}
			}
			if n := delivered(t, "b", 82); n != 1 {
				vsched.Fail(fam+"|bystander-traffic", "envelope 82 a->b was delivered %d times", n)
			}
			if n := count("c", 80) + count("cdial", 80); n > 1 {
				vsched.Fail(fam+"|duplicate", "envelope 80 was delivered %d times", n)
			}
		},
	}
}

// c17ReattachRacesTraffic: peer b re-attaches (AddClient from its own thread) while envelopes
// a->b are being forwarded. Both of b's connections are alive, so every envelope reaches exactly
// one of them exactly once, each connection sees its share in order, and envelopes sent after
// AddClient returned belong to the new connection.
func c17ReattachRacesTraffic(prop string, n, bound int) *explore.Scenario {
	fam := prop + "/reattach-races-traffic"
	return &explore.Scenario{
		Name: fmt.Sprintf("%s/reattach-races-traffic/n=%d", prop, n), Family: fam, Prop: prop, Bound: bound,
		Run: func() {
			t, peers := c17Env(8)
			vsched.Settle()
			vsched.Explore(true)
			nb := env.NewPipe(t.Tap, env.PipeOpts{Name: "b2", Cap: 8})
			attached := false
			for i := 0; i < n; i++ {
				peers["a"].A.Inject(c17Msg(uint64(41+i), "a", "b"))
			}
			vsched.GoNamed("reattach-b", func() { t.Proxy.AddClient("b", nb.B); attached = true })
			vsched.Quiesce()
			peers["a"].A.Inject(c17Msg(60, "a", "b"))
			peers["b"].A.Inject(c17Msg(61, "b", "a")) // the old connection may still talk
			nb.A.Inject(c17Msg(62, "b", "a"))
			vsched.Quiesce()
			var oldIDs, newIDs []uint64
			for _, e := range t.Tap.Events {
				if e.Dir == "b2a" && e.Wire == "b" {
					oldIDs = append(oldIDs, e.Rpc.GetId())
				}
				if e.Dir == "b2a" && e.Wire == "b2" {
					newIDs = append(newIDs, e.Rpc.GetId())
				}
			}
			vsched.Obs("attached=%v old=%v new=%v 61->a=%d 62->a=%d disconnects=%v", attached, oldIDs, newIDs, delivered(t, "a", 61), delivered(t, "a", 62), t.Disconnects)
			if !attached {
				vsched.Fail(fam+"|attach-hang", "AddClient did not return")
				return
			}
			seen := map[uint64]int{}
			for _, l := range [][]uint64{oldIDs, newIDs} {
				for i, id := range l {
					seen[id]++
					if i > 0 && l[i-1] > id {
						vsched.Fail(fam+"|order", "envelopes a->b arrived out of order on one connection: %v", l)
					}
				}
			}
			for i := 0; i < n; i++ {
				if c := seen[uint64(41+i)]; c != 1 {
					vsched.Fail(fam+"|exactly-once", "envelope %d a->b, forwarded while b re-attached, was delivered %d times (old connection %v, new connection %v)", 41+i, c, oldIDs, newIDs)
				}
			}
			if c := 0; true {
				for _, id := range newIDs {
					if id == 60 {
						c++
					}
				}
				if c != 1 {
					vsched.Fail(fam+"|newer-connection-disturbed", "envelope 60, sent after AddClient returned, reached b's new connection %d times (old %v, new %v)", c, oldIDs, newIDs)
				}
			}
			if delivered(t, "a", 62) != 1 {
				vsched.Fail(fam+"|from-new-connection", "an envelope b->a written on b's new connection was delivered %d times", delivered(t, "a", 62))
			}
			if len(t.Disconnects) != 0 {
				vsched.Fail(fam+"|healthy-reported", "no connection failed, yet %v was reported disconnected", t.Disconnects)
			}
		},
	}
}

// c17DoubleFault: two failures on the same proxy connection (to the dialled peer c).
//
//	stuck-writer-then-failing-reader: the proxy's Write to c is stuck inside the transport (it does
//	    not see its context end); then c's Read fails.
//	both-while-forwarder-busy: the forwarding loop is parked in the user's address-rewriting
//	    callback when c's Write fails and, before that report could be taken, c's Read fails too.
//
// The failed connection is reported, removed (the next envelope for c makes the proxy dial
// again and arrives) and traffic between the healthy peers a and b is untouched.
func c17DoubleFault(prop, kind string, bound int) *explore.Scenario {
	fam := prop + "/double-fault"
	return &explore.Scenario{
		Name: prop + "/double-fault/" + kind, Family: fam, Prop: prop, Bound: bound,
		Run: func() {
			gate := make(chan struct{})
			parked := false
			var ic func(h *goatorepo.RequestHeader) error
			if kind == "both-while-forwarder-busy" {
				ic = func(h *goatorepo.RequestHeader) error {
					if h.Method == "/gate/Park" {
						parked = true
						<-gate
						parked = false
					}
					return nil
				}
			}
			t := env.NewProxyTopo(nil, env.ProxyOpts{Cap: 4, NoServer: true, Intercept: ic})
			peers := map[string]*env.Pipe{}
			for _, n := range []string{"a", "b"} {
				p := env.NewPipe(t.Tap, env.PipeOpts{Name: n, Cap: 4})
				peers[n] = p
				t.Proxy.AddClient(n, p.B)
			}
			pc := env.NewPipe(t.Tap, env.PipeOpts{Name: "c", Cap: 0})
			t.Extra["c"] = pc
			vsched.Settle()
			vsched.Explore(true)
			switch kind {
			case "stuck-writer-then-failing-reader":
				pc.A.HoldIf = func(k int, rpc *env.Rpc) bool { return true }
				peers["a"].A.Inject(c17Msg(10, "a", "c")) // dials c; the write of 10 is stuck in the transport
				vsched.Quiesce()
				if pc.A.Holding != 1 {
					vsched.Fail(fam+"|harness", "the write to c is not stuck")
					return
				}
				pc.A.FailReads()
				vsched.Quiesce()
			case "both-while-forwarder-busy":
				peers["a"].A.Inject(c17Msg(10, "a", "c")) // dials c; nobody reads c: the write blocks
				vsched.Quiesce()
				park := c17Msg(11, "a", "b")
				park.Header.Method = "/gate/Park"
				peers["a"].A.Inject(park)
				vsched.Quiesce()
				if !parked {
					vsched.Fail(fam+"|harness", "the forwarding loop is not parked in the callback")
					return
				}
				pc.A.Break() // c's connection dies: its pending Write and its Read both fail
				pc.B.Break()
				vsched.Quiesce()
				close(gate)
				vsched.Quiesce()
			}
			// the name is used again
			pc2 := env.NewPipe(t.Tap, env.PipeOpts{Name: "c2", Cap: 4})
			t.Extra["c"] = pc2
			dialsBefore := countStr(t.Dialed, "c")
			peers["a"].A.Inject(c17Msg(20, "a", "c"))
			peers["a"].A.Inject(c17Msg(21, "a", "b"))
			vsched.Quiesce()
			vsched.Obs("%s: dialed=%v disconnects=%v 20->c2=%d 21->b=%d", kind, t.Dialed, t.Disconnects, onWire(t, "c2", 20), delivered(t, "b", 21))
			if t.HasCallback && countStr(t.Disconnects, "c") < 1 {
				vsched.Fail(fam+"|no-disconnect-report", "%s: c's connection failed twice over but the disconnect callback was never called for it (%v)", kind, t.Disconnects)
			}
			if countStr(t.Dialed, "c") != dialsBefore+1 || onWire(t, "c2", 20) != 1 {
				vsched.Fail(fam+"|failed-connection-not-removed", "%s: a later envelope for c did not lead to a new dial and delivery (dials %v, delivered to the new connection %d times)", kind, t.Dialed, onWire(t, "c2", 20))
			}
			if delivered(t, "b", 21) != 1 {
				vsched.Fail(fam+"|healthy-traffic-delayed", "%s: envelope 21 a->b was delivered %d times", kind, delivered(t, "b", 21))
			}
			for _, x := range t.Disconnects {
				if x == "a" || x == "b" {
					vsched.Fail(fam+"|healthy-reported", "%s: healthy peer %s was reported disconnected", kind, x)
				}
			}
			pc.A.ReleaseHeld(true)
		},
	}
}

// onWire: how often envelope id was written on the named pipe, in either direction (a dialled
// peer's pipe has the proxy on its A side, an attached peer's on its B side).
func onWire(t *env.ProxyTopo, wire string, id uint64) int {
	n := 0
	for _, e := range t.Tap.Events {
		if e.Wire == wire && e.Rpc.GetId() == id {
			n++
		}
	}
	return n
}
