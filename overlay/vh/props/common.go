package props

import (
	"google.golang.org/protobuf/proto"

	"github.com/avos-io/goat/gen/goatorepo"
	"github.com/avos-io/goat/vh/env"
	"github.com/avos-io/goat/vrt/explore"
	"github.com/avos-io/goat/vrt/vsched"
)

// finishDirect runs the oracles every scenario on the direct topology shares:
// the wire-protocol automaton (reported under C06/…) and id uniqueness (C05/…).
func finishDirect(d *env.Direct, w *env.World, alive bool) {
	env.CheckWire(d.Tap, d.Pipe.Opts.Name, "a2b", alive, w)
	vsched.SetWire(d.Tap.WireLog(d.Pipe.Opts.Name))
	for _, s := range w.Stray {
		vsched.Fail("C05/stray|handler", "a handler ran for a request nobody sent: %s", s)
	}
}

// donors re-labels the scenarios of other properties so that only the oracle
// clauses of prop report.
func donors(prop string, lists ...[]*explore.Scenario) []*explore.Scenario {
	var out []*explore.Scenario
	for _, l := range lists {
		for _, sc := range l {
			c := *sc
			c.Prop = prop
			c.Name = prop + ":" + sc.Name
			if prop == "C06" && c.Deepen == 0 {
				// C06 rides on ~800 donor scenarios: it covers every one of them at the donor's own
				// bound; deepening beyond it is left to the donor's own check
				c.Deepen = c.Bound
			}
			out = append(out, &c)
		}
	}
	return out
}

func kv(k, v string) *goatorepo.KeyValue { return &goatorepo.KeyValue{Key: k, Value: v} }

func unmarshal(b []byte, m proto.Message) error { return proto.Unmarshal(b, m) }
