package props

import (
	"google.golang.org/protobuf/proto"

	"github.com/avos-io/goat/gen/goatorepo"
	"github.com/avos-io/goat/vh/env"
	"github.com/avos-io/goat/vrt/explore"
	"github.com/avos-io/goat/vrt/vsched"
)

// finishDirect runs the oracles every scenario on the direct topology shares:
// the wire-protocol automaton (reported under C06/…) and id uniqueness (C05/…).
func finishDirect(d *env.Direct, w *env.World, alive bool) {
	wire := d.Pipe.Opts.Name
	if d.Rewriting && d.Link != nil {
		// behind a proxy that translates the dialled name the protocol automaton (its addressing
		// clause in particular) is evaluated where both directions use the server's own name
		wire = d.Link.Opts.Name
	}
	env.CheckWire(d.Tap, wire, "a2b", alive, w)
	vsched.SetWire(d.Tap.WireLog(wire))
	for _, s := range w.Stray {
		vsched.Fail("C05/stray|handler", "a handler ran for a request nobody sent: %s", s)
	}
}

// donors re-labels the scenarios of other properties so that only the oracle
// clauses of prop report.
func donors(prop string, lists ...[]*explore.Scenario) []*explore.Scenario {
	var out []*explore.Scenario
	for _, l := range lists {
		for _, sc := range l {
			c := *sc
			c.Prop = prop
			c.Name = prop + ":" + sc.Name
			if prop == "C06" && c.Deepen == 0 {
				// C06 rides on ~800 donor scenarios: it covers every one of them at the donor's own
				// bound; deepening beyond it is left to the donor's own check
				c.Deepen = c.Bound
			}
			out = append(out, &c)
		}
	}
	return out
}

func kv(k, v string) *goatorepo.KeyValue { return &goatorepo.KeyValue{Key: k, Value: v} }

func unmarshal(b []byte, m proto.Message) error { return proto.Unmarshal(b, m) }

// withHistory wraps scenarios so that they run on a connection that has already carried a
// short history (env.Preamble) instead of on a fresh one; oracle keys and property stay those
// of the wrapped scenario.
func withHistory(pres []string, scs ...*explore.Scenario) []*explore.Scenario {
	var out []*explore.Scenario
	for _, sc := range scs {
		for _, pre := range pres {
			pre := pre // (the module's language version predates per-iteration loop variables)
			c := *sc
			base := sc.Run
			c.Name = sc.Name + "/after=" + pre
			if c.Deepen == 0 {
				c.Deepen = c.Bound // variants are explored at the wrapped scenario's own bound; deepening is left to the base scenario
			}
			c.Run = func() {
				env.Preamble = pre
				defer func() { env.Preamble = "" }()
				base()
			}
			out = append(out, &c)
		}
	}
	return out
}

// pickScenarios selects the scenarios whose name contains one of the given substrings.
func pickScenarios(l []*explore.Scenario, names ...string) []*explore.Scenario {
	var out []*explore.Scenario
	for _, sc := range l {
		for _, n := range names {
			if containsStr(sc.Name, n) {
				out = append(out, sc)
				break
			}
		}
	}
	return out
}

// historyKinds: the histories a tier prepends (quick: the combined one and the two that leave
// the most state behind; thorough: every kind).
func historyKinds(tier string) []string {
	if tier == "thorough" {
		return env.PreambleKinds
	}
	return []string{"mixed", "stream-cancel", "write-fail", "close"}
}

// withConfig wraps scenarios so that they run with additional behaviour-neutral features
// switched on (env.Config): every oracle of the wrapped scenario still applies.
func withConfig(cfgs []string, scs ...*explore.Scenario) []*explore.Scenario {
	var out []*explore.Scenario
	for _, sc := range scs {
		for _, cfg := range cfgs {
			cfg := cfg
			c := *sc
			base := sc.Run
			c.Name = sc.Name + "/with=" + cfg
			if c.Deepen == 0 {
				c.Deepen = c.Bound
			}
			c.Run = func() {
				env.Config = cfg
				env.ConfigUses = map[string]int{}
				defer func() { env.Config = "" }()
				base()
			}
			out = append(out, &c)
		}
	}
	return out
}

func configKinds(tier string) []string {
	if tier == "thorough" {
		return env.ConfigKinds
	}
	return []string{"stats2+interceptors", "chain+stats", "stats2+chain+services+serialize", "demux", "via-rewriting-proxy", "via-rewriting-proxy-nocallback+stats"}
}

// withoutDisconnectCallback wraps proxy scenarios so that their proxy has no disconnect callback
// (nil is a documented option): everything but "the callback was called" still applies.
func withoutDisconnectCallback(scs ...*explore.Scenario) []*explore.Scenario {
	var out []*explore.Scenario
	for _, sc := range scs {
		c := *sc
		base := sc.Run
		c.Name = sc.Name + "/no-disconnect-callback"
		if c.Deepen == 0 {
			c.Deepen = c.Bound
		}
		c.Run = func() {
			env.ProxyNoCallback = true
			defer func() { env.ProxyNoCallback = false }()
			base()
		}
		out = append(out, &c)
	}
	return out
}

// fineGrained wraps scenarios so that every Unlock is a scheduling point as well: a preemption
// between an Unlock and the plain statement after it is then part of the explored space.
func fineGrained(scs ...*explore.Scenario) []*explore.Scenario {
	var out []*explore.Scenario
	for _, sc := range scs {
		c := *sc
		c.Name = sc.Name + "/unlock-points"
		c.UnlockPoints = true
		if c.Deepen == 0 {
			c.Deepen = c.Bound
		}
		out = append(out, &c)
	}
	return out
}
