package props

import (
	"context"
	"fmt"
	goatorepo "github.com/avos-io/goat/gen/goatorepo"
	"io"
	"sort"
	"strings"
	"time"

	"google.golang.org/grpc"
	"google.golang.org/grpc/codes"
	"google.golang.org/grpc/metadata"
	"google.golang.org/grpc/stats"
	"google.golang.org/grpc/status"

	goat "github.com/avos-io/goat"
	"github.com/avos-io/goat/internal"
	"github.com/avos-io/goat/vh/env"
	"github.com/avos-io/goat/vrt/explore"
	"github.com/avos-io/goat/vrt/vsched"
)

func init() { register("C04", c04) }

var (
	c04TextKeys = []string{"k", "KEY", "Mixed-Key", "a1-_.z", "dup", "DUP"}
	c04BinKeys  = []string{"x-bin", "X-BIN", "Mixed-Bin"}
	c04TextVals = []string{"", "v", "a b", "x,y;z=1", "UPPER", strings.Repeat("q", 255)}
	c04BinVals  = []string{"", "\x00", "\xff", "\xfb\xff", "\x00\xff\x00", allBytes()}
)

func allBytes() string {
	b := make([]byte, 255)
	for i := range b {
		b[i] = byte(i + 1)
	}
	return string(b)
}

// mdWant is the reference model: lower-cased keys; per original key the value
// order is kept; keys that collide after lower-casing may merge in any order.
type mdWant map[string][][]string // lower key -> list of per-original-key value lists

func wantOf(mds ...metadata.MD) mdWant {
	w := mdWant{}
	// metadata.Join semantics: for one original key, values of later MDs follow earlier ones
	per := map[string][]string{}
	var order []string
	for _, md := range mds {
		for k, vs := range md {
			if _, ok := per[k]; !ok {
				order = append(order, k)
			}
			per[k] = append(per[k], vs...)
		}
	}
	sort.Strings(order)
	for _, k := range order {
		if len(per[k]) == 0 {
			continue
		}
		lk := strings.ToLower(k)
		w[lk] = append(w[lk], per[k])
	}
	return w
}

// matches: got[lk] must be an interleaving-free merge: some permutation of the groups concatenated.
func (w mdWant) check(got metadata.MD, allow map[string]bool) string {
	for lk, groups := range w {
		g := got[lk]
		if !matchGroups(g, groups) {
			return fmt.Sprintf("key %q: got %q, want (groups in any order) %q", lk, g, groups)
		}
	}
	for k := range got {
		if _, ok := w[k]; !ok && !allow[k] {
			return fmt.Sprintf("unexpected key %q=%q", k, got[k])
		}
	}
	return ""
}

func matchGroups(got []string, groups [][]string) bool {
	if len(groups) == 0 {
		return len(got) == 0
	}
	for i, g := range groups {
		if len(got) >= len(g) && eqStrs(got[:len(g)], g) {
			rest := append(append([][]string{}, groups[:i]...), groups[i+1:]...)
			if matchGroups(got[len(g):], rest) {
				return true
			}
		}
	}
	return false
}

func valsFor(k string) []string {
	if strings.HasSuffix(strings.ToLower(k), "-bin") {
		return c04BinVals
	}
	return c04TextVals
}

func c04(tier string) []*explore.Scenario {
	var out []*explore.Scenario
	keys := append(append([]string{}, c04TextKeys...), c04BinKeys...)
	out = append(out, &explore.Scenario{
		Name: "C04/pure/roundtrip", Family: "C04/pure", Prop: "C04", Once: true,
		Run: func() {
			var n int64
			try := func(md metadata.MD) {
				n++
				kvs := internal.ToKeyValue(md)
				got, err := internal.ToMetadata(kvs)
				if err != nil {
					vsched.Fail("C04/pure|decode-error", "round trip of %q failed to decode: %v", md, err)
					return
				}
				if msg := wantOf(md).check(got, nil); msg != "" {
					vsched.Fail("C04/pure|roundtrip", "round trip of %q: %s", md, msg)
				}
			}
			// value lists of length 1..maxL for a key
			lists := func(k string, maxL int) [][]string {
				vs := valsFor(k)
				var out [][]string
				for _, a := range vs {
					out = append(out, []string{a})
				}
				if maxL >= 2 {
					for _, a := range vs {
						for _, b := range vs {
							out = append(out, []string{a, b})
						}
					}
				}
				if maxL >= 3 {
					for _, a := range vs[:3] {
						for _, b := range vs[:3] {
							for _, c := range vs {
								out = append(out, []string{a, b, c})
							}
						}
					}
				}
				return out
			}
			try(metadata.MD{})
			for _, k := range keys {
				for _, l := range lists(k, 3) {
					try(metadata.MD{k: l})
				}
			}
			for i, k1 := range keys {
				for _, k2 := range keys[i+1:] {
					for _, l1 := range lists(k1, 2) {
						for _, l2 := range lists(k2, 2) {
							try(metadata.MD{k1: l1, k2: l2})
						}
					}
				}
			}
			maxTriple := 1
			if tier == "thorough" {
				maxTriple = 2
			}
			for i, k1 := range keys {
				for j, k2 := range keys[i+1:] {
					for _, k3 := range keys[i+1+j+1:] {
						for _, l1 := range lists(k1, maxTriple) {
							for _, l2 := range lists(k2, 1) {
								for _, l3 := range lists(k3, 1) {
									try(metadata.MD{k1: l1, k2: l2, k3: l3})
								}
							}
						}
					}
				}
			}
			// several MDs joined (SetHeader twice)
			for _, k := range keys {
				for _, l1 := range lists(k, 2) {
					for _, l2 := range lists(k, 1) {
						n++
						kvs := internal.ToKeyValue(metadata.MD{k: l1}, metadata.MD{k: l2})
						got, err := internal.ToMetadata(kvs)
						if err != nil {
							vsched.Fail("C04/pure|decode-error", "join round trip failed: %v", err)
						} else if msg := wantOf(metadata.MD{k: l1}, metadata.MD{k: l2}).check(got, nil); msg != "" {
							vsched.Fail("C04/pure|roundtrip", "joined %q+%q: %s", l1, l2, msg)
						}
					}
				}
			}
			// 16 keys x 4 values
			big := metadata.MD{}
			for i := 0; i < 16; i++ {
				k := fmt.Sprintf("Key-%d", i)
				if i%4 == 3 {
					k += "-Bin"
				}
				vs := valsFor(k)
				big[k] = []string{vs[i%6], vs[(i+1)%6], vs[(i+2)%6], vs[(i+3)%6]}
			}
			try(big)
			vsched.Count("inputs", n)
			vsched.Obs("metadata sets round-tripped: %d", n)
		},
	})
	for _, kind := range []string{"Unary", "Bidi", "SStream", "CStream"} {
		out = append(out, c04EndToEnd(kind, false), c04EndToEnd(kind, true))
		if kind != "Unary" {
			out = append(out, c04ResetAfterReturn(kind, true, 1), c04ResetAfterReturn(kind, false, 1))
		}
		out = append(out, withConfig([]string{"via-rewriting-proxy", "demux+chain", "services+interceptors"}, c04EndToEnd(kind, false))...)
	}
	for _, way := range []string{"first-message", "sendheader", "with-trailer", "concurrent-sendheader", "concurrent-setheader", "sendheader-nil-late"} {
		out = append(out, c04HeaderRace(way, 2))
	}
	// finer granularity (a scheduling point after every Unlock as well): SendHeader racing the first message, with and
	// without stats handlers in the path of the header
	out = append(out, fineGrained(c04HeaderRace("concurrent-sendheader", 2), c04HeaderRace("sendheader", 1))...)
	out = append(out, withConfig([]string{"stats2", "stats+interceptors"}, fineGrained(c04HeaderRace("concurrent-sendheader", 2))...)...)
	for _, kind := range []string{"Bidi", "CStream"} {
		out = append(out, c04UndecodableRequest(kind, 0), c04UndecodableRequest(kind, 2))
	}
	out = append(out, handlerSeqs("C04", tier)...)
	return out
}

// c04Sets: a covering family: every key shape with every value shape, two-value
// lists, a colliding pair, and the 16x4 maximum.
func c04Sets() []metadata.MD {
	var out []metadata.MD
	// no pair that collides after lower-casing here: grpc's own
	// metadata.FromOutgoingContext keeps only one of them (map order), which is
	// outside goat; the pure layer covers collisions.
	keys := append(append([]string{}, c04TextKeys[:5]...), c04BinKeys[0], c04BinKeys[2])
	for i := 0; i < 6; i++ {
		md := metadata.MD{}
		for j, k := range keys {
			vs := valsFor(k)
			md[k] = []string{vs[(i+j)%6], vs[(i+2*j+1)%6]}
		}
		out = append(out, md)
	}
	out = append(out, metadata.MD{}, metadata.MD{"only": {"one"}}, metadata.MD{"x-bin": {""}})
	big := metadata.MD{}
	for i := 0; i < 16; i++ {
		k := fmt.Sprintf("Key-%d", i)
		if i%4 == 3 {
			k += "-Bin"
		}
		vs := valsFor(k)
		big[k] = []string{vs[i%6], vs[(i+1)%6], vs[(i+2)%6], vs[(i+3)%6]}
	}
	return append(out, big)
}

type c04Stats struct{ inHeader, inTrailer []metadata.MD }

func (s *c04Stats) TagRPC(ctx context.Context, _ *stats.RPCTagInfo) context.Context { return ctx }
func (s *c04Stats) HandleRPC(ctx context.Context, st stats.RPCStats) {
	switch x := st.(type) {
	case *stats.InHeader:
		if x.Client {
			s.inHeader = append(s.inHeader, x.Header)
		}
	case *stats.InTrailer:
		s.inTrailer = append(s.inTrailer, x.Trailer)
	}
}
func (s *c04Stats) TagConn(ctx context.Context, _ *stats.ConnTagInfo) context.Context { return ctx }
func (s *c04Stats) HandleConn(context.Context, stats.ConnStats)                       {}

// splitMD splits md into two halves (SetHeader called twice).
func splitMD(md metadata.MD) (metadata.MD, metadata.MD) {
	a, b := metadata.MD{}, metadata.MD{}
	ks := make([]string, 0, len(md))
	for k := range md {
		ks = append(ks, k)
	}
	sort.Strings(ks)
	for i, k := range ks {
		if i%2 == 0 {
			a[k] = md[k]
		} else {
			b[k] = md[k]
		}
	}
	return a, b
}

func c04EndToEnd(kind string, viaInterceptor bool) *explore.Scenario {
	fam := "C04/end-to-end"
	return &explore.Scenario{
		Name: fmt.Sprintf("C04/end-to-end/%s/interceptor=%v", kind, viaInterceptor), Family: fam, Prop: "C04", Bound: 0,
		Run: func() {
			sets := c04Sets()
			w := env.NewWorld()
			sh := &c04Stats{}
			var reqMD metadata.MD
			dial := []goat.DialOption{goat.WithStatsHandler(sh)}
			if viaInterceptor {
				dial = append(dial,
					goat.WithUnaryInterceptor(func(ctx context.Context, method string, req, reply any, cc *grpc.ClientConn, inv grpc.UnaryInvoker, opts ...grpc.CallOption) error {
						old, _ := metadata.FromOutgoingContext(ctx)
						return inv(metadata.NewOutgoingContext(ctx, metadata.Join(old, reqMD)), method, req, reply, cc, opts...)
					}),
					goat.WithStreamInterceptor(func(ctx context.Context, desc *grpc.StreamDesc, cc *grpc.ClientConn, method string, st grpc.Streamer, opts ...grpc.CallOption) (grpc.ClientStream, error) {
						old, _ := metadata.FromOutgoingContext(ctx)
						return st(metadata.NewOutgoingContext(ctx, metadata.Join(old, reqMD)), desc, cc, method, opts...)
					}))
			}
			d := env.NewDirect(w, env.DirectOpts{Pipe: env.PipeOpts{Cap: 64, Serialize: true}, DialOpts: dial})
			vsched.Settle()
			allowReq := map[string]bool{"tag": true, "grpc-timeout": true}
			n := 0
			// ways a stream handler lets its headers leave
			ways := []string{"first-message", "sendheader", "with-trailer", "error-return"}
			if kind == "Unary" {
				ways = []string{"setheader", "sendheader", "error-return"}
			}
			for si, md := range sets {
				for _, way := range ways {
					n++
					tag := fmt.Sprintf("m%d%s", si, way)
					hdr, trl := md, metadata.MD{}
					for k, v := range md { // trailers: the same shapes, reversed value order
						r := make([]string, len(v))
						for i := range v {
							r[i] = v[len(v)-1-i]
						}
						trl[k] = r
					}
					reqMD = md
					ctx := context.Background()
					if !viaInterceptor {
						ctx = metadata.NewOutgoingContext(ctx, md)
					}
					if n%2 == 1 {
						// every other call also carries a deadline (a GRPC-Timeout entry travels with the metadata)
						var cancelDl context.CancelFunc
						ctx, cancelDl = context.WithTimeout(ctx, time.Hour)
						defer cancelDl()
					}
					h1, h2 := splitMD(hdr)
					t1, t2 := splitMD(trl)
					var herr error
					if way == "error-return" {
						herr = status.Error(codes.NotFound, "nope")
					}
					if kind == "Unary" {
						r := w.Rec(tag, "Unary")
						w.Unaries[tag] = func(r *env.Rec, ctx context.Context, in string) (string, error) {
							grpc.SetHeader(ctx, h1)
							if way == "sendheader" {
								grpc.SendHeader(ctx, h2)
							} else {
								grpc.SetHeader(ctx, h2)
							}
							grpc.SetTrailer(ctx, t1)
							grpc.SetTrailer(ctx, t2)
							return "ok", herr
						}
						sh.inHeader = nil
						w.CallUnary(d.CC, ctx, r, "x")
						vsched.Settle()
						if msg := wantOf(md).check(r.HMD, allowReq); msg != "" {
							vsched.Fail(fam+"|request-metadata", "unary, set %d: handler saw %s", si, msg)
						}
						// response headers: stats InHeader + wire; trailers: wire only
						if len(sh.inHeader) != 1 {
							vsched.Fail(fam+"|unary-inheader", "unary: %d InHeader events", len(sh.inHeader))
						} else if msg := wantOf(h1, h2).check(sh.inHeader[0], nil); msg != "" {
							vsched.Fail(fam+"|response-header", "unary (%s), set %d: caller's InHeader: %s", way, si, msg)
						}
						var last *env.Rpc
						for _, e := range d.Tap.Events {
							if e.Dir == "b2a" {
								last = e.Rpc
							}
						}
						if last == nil || last.Trailer == nil {
							vsched.Fail(fam+"|unary-wire", "no unary response on the wire")
						} else {
							tm, err := internal.ToMetadata(last.Trailer.Metadata)
							if err != nil {
								vsched.Fail(fam+"|response-trailer", "unary trailer on the wire does not decode: %v", err)
							} else if msg := wantOf(t1, t2).check(tm, nil); msg != "" {
								vsched.Fail(fam+"|response-trailer", "unary (%s), set %d: wire trailer: %s", way, si, msg)
							}
						}
						continue
					}
					r := w.Rec(tag, kind)
					w.Handlers[tag] = func(r *env.Rec, ss grpc.ServerStream) error {
						if kind != "Bidi" || way != "with-trailer" {
							// consume what the caller sends first (server/client-stream shapes)
						}
						ss.SetHeader(h1)
						switch way {
						case "sendheader":
							if err := ss.SendHeader(h2); err != nil {
								return err
							}
							ss.SendMsg(env.S("x"))
						case "first-message":
							ss.SetHeader(h2)
							ss.SendMsg(env.S("x"))
						default: // with-trailer, error-return: no message at all
							ss.SetHeader(h2)
						}
						ss.SetTrailer(t1)
						ss.SetTrailer(t2)
						for { // drain the caller
							m := new(env.Msg)
							if err := ss.RecvMsg(m); err != nil {
								break
							}
						}
						return herr
					}
					cs := w.Open(d.CC, ctx, r)
					if cs == nil {
						vsched.Fail(fam+"|open", "open failed: %v", r.COpenErr)
						continue
					}
					if kind != "Bidi" {
						env.CSend(r, cs, "req")
					}
					env.CClose(r, cs)
					hd, herr2 := cs.Header()
					env.CRecvAll(r, cs)
					tr := cs.Trailer()
					vsched.Settle()
					if msg := wantOf(md).check(r.HMD, allowReq); msg != "" {
						vsched.Fail(fam+"|request-metadata", "%s, set %d: handler saw %s", kind, si, msg)
					}
					if herr2 != nil {
						vsched.Fail(fam+"|response-header", "%s (%s), set %d: Header() failed: %v", kind, way, si, herr2)
					} else if msg := wantOf(h1, h2).check(hd, nil); msg != "" {
						vsched.Fail(fam+"|response-header", "%s (%s), set %d: Header(): %s", kind, way, si, msg)
					}
					if msg := wantOf(t1, t2).check(tr, nil); msg != "" {
						vsched.Fail(fam+"|response-trailer", "%s (%s), set %d: Trailer(): %s", kind, way, si, msg)
					}
					if herr == nil && r.CErr != nil && r.CErr.Error() != "EOF" {
						vsched.Fail(fam+"|status", "%s (%s): stream ended with %v", kind, way, r.CErr)
					}
					if herr != nil && status.Code(r.CErr) != codes.NotFound {
						vsched.Fail(fam+"|status", "%s (%s): stream ended with %v, want NotFound", kind, way, r.CErr)
					}
				}
			}
			vsched.Count("inputs", int64(n))
			vsched.Obs("%s: %d (metadata set x way) cases", kind, n)
			finishDirect(d, w, true)
		},
	}
}

// c04HeaderRace: Header() is called from its own goroutine while the first
// response arrives and another goroutine receives (all schedules within the bound).
func c04HeaderRace(way string, bound int) *explore.Scenario {
	fam := "C04/header-race"
	return &explore.Scenario{
		Name: "C04/header-race/" + way, Family: fam, Prop: "C04", Bound: bound,
		Run: func() {
			w := env.NewWorld()
			env.MsgSize = 0
			d := env.NewDirect(w, env.DirectOpts{Pipe: env.PipeOpts{Cap: 64}})
			vsched.Settle()
			vsched.Explore(true)
			hdr := metadata.MD{"k": {"v1", "v2"}, "x-bin": {"\x00\xff"}}
			trl := metadata.MD{"t": {"end"}}
			r := w.Rec("s", "Bidi")
			sendHeaderOK := true
			setOK := false
			_ = setOK
			w.Handlers["s"] = func(r *env.Rec, ss grpc.ServerStream) error {
				switch way {
				case "concurrent-sendheader":
					// SendHeader from one goroutine while another sends the first message
					done := make(chan struct{})
					vsched.GoNamed("handler-sendheader", func() {
						sendHeaderOK = ss.SendHeader(hdr) == nil
						close(done)
					})
					ss.SendMsg(env.S("x"))
					<-done
				case "concurrent-setheader":
					// SendHeader from one goroutine while another still adds headers (each call is allowed; whether the
					// later SetHeader is accepted depends on who comes first)
					done := make(chan struct{})
					vsched.GoNamed("handler-sendheader", func() {
						sendHeaderOK = ss.SendHeader(hdr) == nil
						close(done)
					})
					setOK = ss.SetHeader(metadata.MD{"late": {"v"}}) == nil
					<-done
					ss.SendMsg(env.S("x"))
				case "sendheader-nil-late":
					// the "flush headers" idiom and empty metadata, used after the headers have left (each call may be
					// refused; none may put anything on the wire)
					ss.SetHeader(hdr)
					ss.SendMsg(env.S("x"))
					ss.SendHeader(nil)
					ss.SetHeader(nil)
					ss.SendMsg(env.S("y"))
					ss.SendHeader(metadata.MD{})
					ss.SetTrailer(nil)
				case "sendheader":
					ss.SendHeader(hdr)
					ss.SendMsg(env.S("x"))
				case "first-message":
					ss.SetHeader(hdr)
					ss.SendMsg(env.S("x"))
				default:
					ss.SetHeader(hdr)
				}
				ss.SetTrailer(trl)
				return nil
			}
			cs := w.Open(d.CC, context.Background(), r)
			if cs == nil {
				vsched.Fail(fam+"|open", "open failed")
				return
			}
			var got metadata.MD
			var herr error
			hdone := false
			vsched.GoNamed("header", func() { got, herr = cs.Header(); hdone = true })
			vsched.GoNamed("trailer-early", func() { _ = cs.Trailer() }) // (allowed at any time; what it returns before the end is not judged)
			vsched.GoNamed("receiver", func() { env.CClose(r, cs); env.CRecvAll(r, cs); r.CDone = true })
			vsched.Quiesce()
			if !hdone || !r.CDone {
				vsched.Fail(fam+"|hang", "Header() returned=%v receiver done=%v", hdone, r.CDone)
				return
			}
			if herr != nil {
				vsched.Fail(fam+"|response-header", "Header() failed: %v", herr)
			} else if !sendHeaderOK {
				// the message won the race: SendHeader was refused, its metadata is legitimately not sent
			} else if way == "concurrent-setheader" {
				want := []metadata.MD{hdr}
				if setOK {
					want = append(want, metadata.MD{"late": {"v"}}) // an accepted SetHeader is part of the headers that leave
				}
				if msg := wantOf(want...).check(got, nil); msg != "" {
					vsched.Fail(fam+"|response-header", "SetHeader (accepted=%v) concurrent with SendHeader: %s", setOK, msg)
				}
			} else if msg := wantOf(hdr).check(got, nil); msg != "" {
				vsched.Fail(fam+"|response-header", "Header() called concurrently with the first response (%s): %s", way, msg)
			}
			if msg := wantOf(trl).check(r.CTrailer, nil); msg != "" {
				vsched.Fail(fam+"|response-trailer", "Trailer(): %s", msg)
			}
			finishDirect(d, w, true) // (the wire: metadata only on the call's first response envelope)
		},
	}
}

// c04ResetAfterReturn: the handler of a stream has returned (its trailer is on its way) and the
// caller - who never read anything - then gives up: its reset reaches a server that no longer
// knows the stream. The request metadata was delivered to exactly one handler invocation;
// no second invocation (with no metadata at all) appears for the same call.
func c04ResetAfterReturn(kind string, herr bool, bound int) *explore.Scenario {
	fam := "C04/end-to-end"
	return &explore.Scenario{
		Name: fmt.Sprintf("C04/reset-after-handler-returned/%s/herr=%v", kind, herr), Family: fam, Prop: "C04", Bound: bound,
		Run: func() {
			w := env.NewWorld()
			d := env.NewDirect(w, env.DirectOpts{Pipe: env.PipeOpts{Cap: 64, Serialize: true}})
			vsched.Settle()
			vsched.Explore(true)
			r := w.Rec("s", kind)
			var ret error
			if herr {
				ret = status.Error(codes.Aborted, "gave up")
			}
			w.Handlers["s"] = env.HSendThenReturn(1, ret)
			md := metadata.MD{"x-key": {"v1", "v2"}, "x-bin": {string([]byte{0, 0xff, 1})}}
			ctx, cancel := context.WithCancel(metadata.NewOutgoingContext(context.Background(), md))
			defer cancel()
			vsched.GoNamed("caller", func() { w.Open(d.CC, ctx, r) })
			vsched.Quiesce() // the handler has run and returned; the caller has read nothing
			cancel()
			vsched.Quiesce()
			vsched.Obs("%s herr=%v: handler runs=%d stray=%v", kind, herr, r.HStarts, w.Stray)
			if r.HStarts != 1 {
				vsched.Fail(fam+"|request-metadata", "one %s call (cancelled after its handler had returned): the handler that was given its metadata ran %d times", kind, r.HStarts)
			}
			if len(w.Stray) > 0 {
				vsched.Fail(fam+"|request-metadata", "one %s call (cancelled after its handler had returned): a further handler invocation ran for it without the call's metadata: %v", kind, w.Stray)
			}
			if r.HStarts >= 1 {
				for k, v := range md {
					if got := r.HMD.Get(k); fmt.Sprint(got) != fmt.Sprint(v) {
						vsched.Fail(fam+"|request-metadata", "key %s: handler saw %q, caller sent %q", k, got, v)
					}
				}
			}
			finishDirect(d, w, false) // (wire protocol)
		},
	}
}

// c04UndecodableRequest: a peer sends a request message that is not decodable; the handler's RecvMsg
// fails, and in reaction the handler sets response headers and trailers and returns its own status.
// What the handler set reaches the wire with that status: headers and trailers of a failing call
// are as much the handler's as those of a successful one.
func c04UndecodableRequest(kind string, afterGood int) *explore.Scenario {
	fam := "C04/undecodable-request"
	return &explore.Scenario{
		Name: fmt.Sprintf("C04/undecodable-request/%s/after-good=%d", kind, afterGood), Family: fam, Prop: "C04", Bound: 1,
		Run: func() {
			w := env.NewWorld()
			d := env.NewDirect(w, env.DirectOpts{Pipe: env.PipeOpts{Cap: 64}, NoClient: true})
			vsched.GoNamed("peer-reader", func() {
				for {
					if _, err := d.Pipe.A.Read(context.Background()); err != nil {
						return
					}
				}
			})
			vsched.Settle()
			vsched.Explore(true)
			r := w.Rec("s", kind)
			var recvErr error
			w.Handlers["s"] = func(r *env.Rec, ss grpc.ServerStream) error {
				for {
					m := new(env.Msg)
					if recvErr = ss.RecvMsg(m); recvErr != nil {
						break
					}
					r.HRecv = append(r.HRecv, string(m.Value))
				}
				ss.SetHeader(metadata.MD{"h-late": {"set after the failed receive"}})
				ss.SetTrailer(metadata.MD{"t": {"end"}, "t-bin": {"\x00\xff"}})
				return status.Error(codes.DataLoss, "bad input")
			}
			method := map[string]string{"Bidi": env.MBidi, "CStream": env.MCStream}[kind]
			d.Pipe.A.Inject(env.ReqOpen(1, method, "s"))
			for i := 0; i < afterGood; i++ {
				d.Pipe.A.Inject(env.ReqBody(1, method, fmt.Sprintf("m%d", i)))
			}
			bad := env.ReqBody(1, method, "x")
			bad.Body.Data = []byte{0xff, 0xff, 0xff}
			d.Pipe.A.Inject(bad)
			vsched.Quiesce()
			if !r.HReturned || recvErr == nil || recvErr == io.EOF {
				vsched.Fail(fam+"|harness", "the handler's receive of an undecodable message: returned=%v err=%v", r.HReturned, recvErr)
				return
			}
			var finals []*env.Rpc
			var hdr []*goatorepo.KeyValue
			for _, e := range d.Tap.Events {
				if e.Dir != "b2a" || e.Rpc.GetId() != 1 {
					continue
				}
				hdr = append(hdr, e.Rpc.GetHeader().GetHeaders()...)
				if e.Rpc.GetTrailer() != nil || e.Rpc.GetStatus() != nil {
					finals = append(finals, e.Rpc)
				}
			}
			if len(finals) != 1 {
				vsched.Fail(fam+"|final-status", "the server sent %d final envelopes for the call: %v", len(finals), finals)
				return
			}
			f := finals[0]
			if f.GetStatus().GetCode() != int32(codes.DataLoss) || f.GetStatus().GetMessage() != "bad input" {
				vsched.Fail(fam+"|final-status", "the handler returned DataLoss \"bad input\", the wire says %v", f.GetStatus())
			}
			have := func(kvs []*goatorepo.KeyValue, k string) bool {
				for _, e := range kvs {
					if e.GetKey() == k {
						return true
					}
				}
				return false
			}
			if !have(hdr, "h-late") {
				vsched.Fail(fam+"|response-header", "the header the handler set after its receive failed is not on the wire: %v", hdr)
			}
			if !have(f.GetTrailer().GetMetadata(), "t") || !have(f.GetTrailer().GetMetadata(), "t-bin") {
				vsched.Fail(fam+"|response-trailer", "the trailers the handler set after its receive failed are not on the wire: %v", f.GetTrailer().GetMetadata())
			}
			finishDirect(d, w, true)
		},
	}
}
