// instr rewrites goat's non-test sources (and the verification harness) so
// that every synchronisation operation goes through the vsched runtime, and
// emits a `go build -overlay` file that substitutes the rewritten copies and
// maps the runtime and harness into goat's module.  /repo is never modified.
package main

import (
	"bytes"
	"encoding/json"
	"flag"
	"fmt"
	"go/ast"
	"go/format"
	"go/parser"
	"go/token"
	"go/types"
	"os"
	"path/filepath"
	"reflect"
	"sort"
	"strconv"
	"strings"
)

const rtBase = "github.com/avos-io/goat/vrt/"

var importMap = map[string][2]string{ // std path -> {replacement path, default local name}
	"sync":                       {rtBase + "vsync", "sync"},
	"sync/atomic":                {rtBase + "vatomic", "atomic"},
	"context":                    {rtBase + "vctx", "context"},
	"golang.org/x/sync/errgroup": {rtBase + "verrgroup", "errgroup"},
}

func main() {
	repo := flag.String("repo", "/repo", "goat working tree")
	ovl := flag.String("overlay", "/verif/overlay", "directory holding vrt/ and vh/")
	out := flag.String("out", "", "scratch output directory")
	flag.Parse()
	if *out == "" {
		fatal("need -out")
	}
	replace := map[string]string{}
	stats := map[string]int{}
	repoRoot = *repo

	// 1. goat's own packages
	var dirs []string
	filepath.Walk(*repo, func(p string, fi os.FileInfo, err error) error {
		if err != nil {
			return nil
		}
		if fi.IsDir() {
			rel, _ := filepath.Rel(*repo, p)
			top := strings.Split(rel, string(filepath.Separator))[0]
			if strings.HasPrefix(fi.Name(), ".") && rel != "." || top == "gen" || top == "cmd" || top == "scripts" || top == "vrt" || top == "vh" || fi.Name() == "testdata" {
				return filepath.SkipDir
			}
			dirs = append(dirs, p)
		}
		return nil
	})
	for _, d := range dirs {
		rel, _ := filepath.Rel(*repo, d)
		instrumentDir(d, filepath.Join(*out, "goat", rel), d, false, replace, stats)
	}

	// 1b. files added to package goat itself (exports for enumeration)
	mapTree(filepath.Join(*ovl, "goatpkg"), *repo, replace)

	// 1c. engine litmus programs: a package of goat's module, instrumented exactly like goat's own code
	if _, err := os.Stat(filepath.Join(*ovl, "litmus")); err == nil {
		instrumentDir(filepath.Join(*ovl, "litmus"), filepath.Join(*out, "goat", "litmus"), filepath.Join(*repo, "litmus"), false, replace, stats)
	}

	// 2. runtime: mapped as is
	mapTree(filepath.Join(*ovl, "vrt"), filepath.Join(*repo, "vrt"), replace)

	// 3. harness: instrumented unless marked
	hroot := filepath.Join(*ovl, "vh")
	filepath.Walk(hroot, func(p string, fi os.FileInfo, err error) error {
		if err != nil || !fi.IsDir() {
			return nil
		}
		rel, _ := filepath.Rel(hroot, p)
		instrumentDir(p, filepath.Join(*out, "vh", rel), filepath.Join(*repo, "vh", rel), true, replace, stats)
		return nil
	})

	data, _ := json.MarshalIndent(map[string]any{"Replace": replace}, "", " ")
	if err := os.WriteFile(filepath.Join(*out, "overlay.json"), data, 0o644); err != nil {
		fatal("%v", err)
	}
	var keys []string
	for k := range stats {
		keys = append(keys, k)
	}
	sort.Strings(keys)
	var sb strings.Builder
	for _, k := range keys {
		fmt.Fprintf(&sb, "%s=%d ", k, stats[k])
	}
	fmt.Println("instr:", sb.String())
}

func fatal(f string, a ...any) {
	fmt.Fprintf(os.Stderr, "instr: "+f+"\n", a...)
	os.Exit(2)
}

func mapTree(src, dst string, replace map[string]string) {
	filepath.Walk(src, func(p string, fi os.FileInfo, err error) error {
		if err != nil || fi.IsDir() || !strings.HasSuffix(p, ".go") {
			return nil
		}
		rel, _ := filepath.Rel(src, p)
		replace[filepath.Join(dst, rel)] = p
		return nil
	})
}

type stubImporter struct{ pkgs map[string]*types.Package }

// repoRoot: packages of goat's own module (the generated envelope types of gen/goatorepo
// above all) are type-checked from source so that field accesses on their structs - envelopes
// are shared between goroutines by by-reference transports - are recognised and hooked like
// accesses to goat's own structs. Everything else is a stub.
var repoRoot string

const goatModule = "github.com/avos-io/goat/"

var realPkgs = map[string]*types.Package{}

func (s stubImporter) Import(path string) (*types.Package, error) {
	if p, ok := s.pkgs[path]; ok {
		return p, nil
	}
	if repoRoot != "" && strings.HasPrefix(path, goatModule+"gen/") {
		if p, ok := realPkgs[path]; ok {
			s.pkgs[path] = p
			return p, nil
		}
		dir := filepath.Join(repoRoot, strings.TrimPrefix(path, goatModule))
		if ents, err := os.ReadDir(dir); err == nil {
			fset := token.NewFileSet()
			var fs []*ast.File
			pkgName := ""
			for _, e := range ents {
				n := e.Name()
				if e.IsDir() || !strings.HasSuffix(n, ".go") || strings.HasSuffix(n, "_test.go") {
					continue
				}
				f, err := parser.ParseFile(fset, filepath.Join(dir, n), nil, parser.SkipObjectResolution)
				if err != nil {
					continue
				}
				pkgName = f.Name.Name
				fs = append(fs, f)
			}
			if len(fs) > 0 {
				conf := types.Config{Importer: stubImporter{map[string]*types.Package{}}, Error: func(error) {}, FakeImportC: true}
				p, _ := conf.Check(path, fset, fs, nil)
				if p != nil {
					p.SetName(pkgName)
					realPkgs[path] = p
					s.pkgs[path] = p
					return p, nil
				}
			}
		}
	}
	name := path[strings.LastIndex(path, "/")+1:]
	p := types.NewPackage(path, name)
	p.MarkComplete()
	s.pkgs[path] = p
	return p, nil
}

// instrumentDir rewrites the .go files of one directory.  virtDir is the path
// under which the (possibly virtual) package lives in goat's module.
func instrumentDir(dir, outDir, virtDir string, harness bool, replace map[string]string, stats map[string]int) {
	ents, err := os.ReadDir(dir)
	if err != nil {
		fatal("%v", err)
	}
	fset := token.NewFileSet()
	type pf struct {
		name string
		f    *ast.File
		src  []byte
		skip bool
	}
	var files []*pf
	for _, e := range ents {
		n := e.Name()
		if e.IsDir() || !strings.HasSuffix(n, ".go") {
			continue
		}
		if !harness && strings.HasSuffix(n, "_test.go") {
			continue
		}
		src, err := os.ReadFile(filepath.Join(dir, n))
		if err != nil {
			fatal("%v", err)
		}
		f, err := parser.ParseFile(fset, filepath.Join(dir, n), src, parser.SkipObjectResolution)
		if err != nil {
			fatal("parse %s: %v", n, err)
		}
		skip := bytes.Contains(src[:min(len(src), 400)], []byte("//vsched:noinstr"))
		files = append(files, &pf{n, f, src, skip})
	}
	if len(files) == 0 {
		return
	}
	// type information (best effort) to recognise ranges over maps/channels
	info := &types.Info{Types: map[ast.Expr]types.TypeAndValue{}, Selections: map[*ast.SelectorExpr]*types.Selection{}, Uses: map[*ast.Ident]types.Object{}, Defs: map[*ast.Ident]types.Object{}}
	ownPkgs := map[*types.Package]bool{}
	byPkg := map[string][]*ast.File{}
	for _, p := range files {
		byPkg[p.f.Name.Name] = append(byPkg[p.f.Name.Name], p.f)
	}
	for name, fs := range byPkg {
		conf := types.Config{Importer: stubImporter{map[string]*types.Package{}}, Error: func(error) {}, FakeImportC: true}
		if pk, _ := conf.Check(name, fset, fs, info); pk != nil {
			ownPkgs[pk] = true
		}
	}
	for _, p := range files {
		if p.skip {
			if harness {
				replace[filepath.Join(virtDir, p.name)] = filepath.Join(dir, p.name)
			}
			continue
		}
		r := &rewriter{fset: fset, info: info, file: p.name, stats: stats, harness: harness, noWrap: map[*ast.Ident]bool{}}
		if !harness {
			r.captured = capturedVars(p.f, info)
			// package-level variables of goat's own packages are shared by every goroutine:
			// their uses inside function bodies are accesses like those to captured locals
			// (initialisers at package level run before any scheduler exists and stay as they are)
			for id, obj := range info.Uses {
				if v, ok := obj.(*types.Var); ok && !v.IsField() && v.Pkg() != nil && v.Parent() == v.Pkg().Scope() && ownPkgs[v.Pkg()] && id.Name != "_" {
					r.captured[v] = true
				}
			}
			for _, d := range p.f.Decls {
				if gd, ok := d.(*ast.GenDecl); ok && gd.Tok == token.VAR {
					ast.Inspect(gd, func(n ast.Node) bool {
						if id, ok := n.(*ast.Ident); ok {
							r.noWrap[id] = true
						}
						return true
					})
				}
			}
		}
		r.file_(p.f)
		if !r.changed && !harness {
			continue
		}
		var buf bytes.Buffer
		// keep build constraints of harness files
		for _, line := range strings.SplitN(string(p.src), "\n", 5) {
			if strings.HasPrefix(line, "//go:build") {
				buf.WriteString(line + "\n\n")
			}
		}
		if err := format.Node(&buf, fset, p.f); err != nil {
			fatal("print %s: %v", p.name, err)
		}
		if err := os.MkdirAll(outDir, 0o755); err != nil {
			fatal("%v", err)
		}
		op := filepath.Join(outDir, p.name)
		if err := os.WriteFile(op, buf.Bytes(), 0o644); err != nil {
			fatal("%v", err)
		}
		replace[filepath.Join(virtDir, p.name)] = op
		stats["files"]++
	}
}

type rewriter struct {
	captured map[types.Object]bool // local variables referenced from a nested function literal
	noWrap   map[*ast.Ident]bool   // identifiers on the left of := (declarations, not accesses)
	harness  bool
	fset     *token.FileSet
	info     *types.Info
	file     string
	stats    map[string]int
	changed  bool
	needRT   bool
	tmp      int
}

func (r *rewriter) site(n ast.Node) ast.Expr {
	p := r.fset.Position(n.Pos())
	return &ast.BasicLit{Kind: token.STRING, Value: strconv.Quote(fmt.Sprintf("%s:%d", r.file, p.Line))}
}

func (r *rewriter) rt(name string) ast.Expr {
	r.needRT = true
	r.changed = true
	return &ast.SelectorExpr{X: ast.NewIdent("vsched"), Sel: ast.NewIdent(name)}
}

func (r *rewriter) call(name string, args ...ast.Expr) *ast.CallExpr {
	return &ast.CallExpr{Fun: r.rt(name), Args: args}
}

func (r *rewriter) fresh(prefix string) *ast.Ident {
	r.tmp++
	return ast.NewIdent(fmt.Sprintf("_v%s%d", prefix, r.tmp))
}

func (r *rewriter) file_(f *ast.File) {
	// imports
	for _, d := range f.Decls {
		gd, ok := d.(*ast.GenDecl)
		if !ok || gd.Tok != token.IMPORT {
			continue
		}
		for _, s := range gd.Specs {
			is := s.(*ast.ImportSpec)
			path, _ := strconv.Unquote(is.Path.Value)
			if rep, ok := importMap[path]; ok {
				if is.Name == nil {
					is.Name = ast.NewIdent(rep[1])
				}
				is.Path = &ast.BasicLit{Kind: token.STRING, Value: strconv.Quote(rep[0])}
				r.changed = true
				r.stats["imports"]++
			}
		}
	}
	f.Comments = nil
	for i, d := range f.Decls {
		f.Decls[i] = r.node(d).(ast.Decl)
	}
	if !r.harness {
		// package-level variables are put back to their initial values before every execution,
		// so that one execution cannot see what an earlier one left behind
		var regs []ast.Stmt
		for _, d := range f.Decls {
			gd, ok := d.(*ast.GenDecl)
			if !ok || gd.Tok != token.VAR {
				continue
			}
			for _, sp := range gd.Specs {
				for _, id := range sp.(*ast.ValueSpec).Names {
					if id.Name != "_" {
						regs = append(regs, &ast.ExprStmt{X: r.call("RegisterGlobal", &ast.UnaryExpr{Op: token.AND, X: ast.NewIdent(id.Name)})})
						r.stats["globals"]++
					}
				}
			}
		}
		if len(regs) > 0 {
			f.Decls = append(f.Decls, &ast.FuncDecl{Name: ast.NewIdent("init"), Type: &ast.FuncType{Params: &ast.FieldList{}}, Body: &ast.BlockStmt{List: regs}})
		}
	}
	for _, is := range f.Imports {
		if path, _ := strconv.Unquote(is.Path.Value); path == rtBase+"vsched" {
			r.needRT = false
		}
	}
	if r.needRT {
		imp := &ast.GenDecl{Tok: token.IMPORT, Specs: []ast.Spec{&ast.ImportSpec{
			Name: ast.NewIdent("vsched"),
			Path: &ast.BasicLit{Kind: token.STRING, Value: strconv.Quote(rtBase + "vsched")},
		}}}
		// after the last existing import decl (imports must come first)
		idx := 0
		for i, d := range f.Decls {
			if gd, ok := d.(*ast.GenDecl); ok && gd.Tok == token.IMPORT {
				idx = i + 1
			}
		}
		f.Decls = append(f.Decls[:idx], append([]ast.Decl{imp}, f.Decls[idx:]...)...)
	}
	// drop doc comments that would be printed at odd places
	ast.Inspect(f, func(n ast.Node) bool {
		switch x := n.(type) {
		case *ast.FuncDecl:
			x.Doc = nil
		case *ast.GenDecl:
			x.Doc = nil
		case *ast.Field:
			x.Doc, x.Comment = nil, nil
		case *ast.TypeSpec:
			x.Doc, x.Comment = nil, nil
		case *ast.ValueSpec:
			x.Doc, x.Comment = nil, nil
		case *ast.ImportSpec:
			x.Doc, x.Comment = nil, nil
		}
		return true
	})
	f.Doc = nil
}

var (
	exprT = reflect.TypeOf((*ast.Expr)(nil)).Elem()
	stmtT = reflect.TypeOf((*ast.Stmt)(nil)).Elem()
	declT = reflect.TypeOf((*ast.Decl)(nil)).Elem()
	specT = reflect.TypeOf((*ast.Spec)(nil)).Elem()
	nodeT = reflect.TypeOf((*ast.Node)(nil)).Elem()
)

// node rewrites n (post-order for the generic part, special forms first).
func (r *rewriter) node(n ast.Node) ast.Node {
	if n == nil || reflect.ValueOf(n).IsNil() {
		return n
	}
	if !r.harness {
		if repl, handled := r.raceNode(n); handled {
			return repl
		}
	}
	switch x := n.(type) {
	case *ast.LabeledStmt:
		if _, ok := x.Stmt.(*ast.SelectStmt); ok {
			fatal("%s: labeled select is not supported by the instrumenter", r.pos(x))
		}
		if rs, ok := x.Stmt.(*ast.RangeStmt); ok && r.isMapOrChan(rs.X) {
			fatal("%s: labeled range over map/chan is not supported by the instrumenter", r.pos(x))
		}
	case *ast.SelectStmt:
		return r.selectStmt(x)
	case *ast.GoStmt:
		return r.goStmt(x)
	case *ast.RangeStmt:
		if t := r.typeOf(x.X); t != nil {
			switch t.Underlying().(type) {
			case *types.Map:
				return r.rangeMap(x)
			case *types.Chan:
				return r.rangeChan(x)
			}
		}
	case *ast.AssignStmt:
		if len(x.Lhs) == 2 && len(x.Rhs) == 1 {
			if u, ok := x.Rhs[0].(*ast.UnaryExpr); ok && u.Op == token.ARROW {
				ch := r.node(u.X).(ast.Expr)
				x.Lhs[0] = r.node(x.Lhs[0]).(ast.Expr)
				x.Lhs[1] = r.node(x.Lhs[1]).(ast.Expr)
				x.Rhs[0] = r.call("Recv2", r.site(u), ch)
				r.stats["recv"]++
				return x
			}
		}
	case *ast.ValueSpec:
		if len(x.Names) == 2 && len(x.Values) == 1 {
			if u, ok := x.Values[0].(*ast.UnaryExpr); ok && u.Op == token.ARROW {
				x.Values[0] = r.call("Recv2", r.site(u), r.node(u.X).(ast.Expr))
				r.stats["recv"]++
				return x
			}
		}
	}
	r.children(n)
	switch x := n.(type) {
	case *ast.ExprStmt:
		// x.Lock() / x.RLock() / x.Wait(): remember the source position for traces
		if c, ok := x.X.(*ast.CallExpr); ok && len(c.Args) == 0 {
			if sel, ok := c.Fun.(*ast.SelectorExpr); ok && (sel.Sel.Name == "Lock" || sel.Sel.Name == "RLock" || sel.Sel.Name == "Wait") {
				r.stats["locksite"]++
				return &ast.BlockStmt{List: []ast.Stmt{&ast.ExprStmt{X: r.call("At", r.site(x))}, x}}
			}
		}
	case *ast.SendStmt:
		r.stats["send"]++
		return &ast.ExprStmt{X: r.call("Send", r.site(x), x.Chan, x.Value)}
	case *ast.UnaryExpr:
		if x.Op == token.ARROW {
			r.stats["recv"]++
			return r.call("Recv", r.site(x), x.X)
		}
	case *ast.CallExpr:
		if sel, ok := x.Fun.(*ast.SelectorExpr); ok {
			if pk, ok := sel.X.(*ast.Ident); ok && pk.Name == "time" && !r.harness {
				switch sel.Sel.Name {
				case "After":
					r.stats["time.After"]++
					return r.call("After", x.Args...)
				case "Sleep":
					r.stats["time.Sleep"]++
					return r.call("SleepFor", append([]ast.Expr{r.site(x)}, x.Args...)...)
				case "NewTimer", "NewTicker", "Tick", "AfterFunc":
					fatal("%s: time.%s has no rule in the instrumenter (timers must be under the scheduler's clock)", r.pos(x), sel.Sel.Name)
				}
			}
		}
		if id, ok := x.Fun.(*ast.Ident); ok && id.Name == "close" && len(x.Args) == 1 {
			r.stats["close"]++
			return r.call("Close", r.site(x), x.Args[0])
		}
	}
	return n
}

func (r *rewriter) pos(n ast.Node) string { return r.fset.Position(n.Pos()).String() }

func (r *rewriter) typeOf(e ast.Expr) types.Type {
	if tv, ok := r.info.Types[e]; ok && tv.Type != nil {
		return tv.Type
	}
	return nil
}

func (r *rewriter) isMapOrChan(e ast.Expr) bool {
	if t := r.typeOf(e); t != nil {
		switch t.Underlying().(type) {
		case *types.Map, *types.Chan:
			return true
		}
	}
	return false
}

// children rewrites every child of n in place (reflective, like astutil.Apply).
func (r *rewriter) children(n ast.Node) {
	v := reflect.ValueOf(n)
	if v.Kind() != reflect.Ptr {
		return
	}
	v = v.Elem()
	if v.Kind() != reflect.Struct {
		return
	}
	for i := 0; i < v.NumField(); i++ {
		f := v.Field(i)
		if !f.CanSet() {
			continue
		}
		switch f.Kind() {
		case reflect.Interface:
			if f.IsNil() {
				continue
			}
			if c, ok := f.Interface().(ast.Node); ok {
				nn := r.node(c)
				f.Set(reflect.ValueOf(nn))
			}
		case reflect.Ptr:
			if f.IsNil() {
				continue
			}
			if c, ok := f.Interface().(ast.Node); ok {
				switch c.(type) {
				case *ast.CommentGroup, *ast.Comment:
					continue
				}
				nn := r.node(c)
				if reflect.TypeOf(nn) != f.Type() {
					fatal("%s: cannot replace %T by %T", r.pos(c), c, nn)
				}
				f.Set(reflect.ValueOf(nn))
			}
		case reflect.Slice:
			for j := 0; j < f.Len(); j++ {
				el := f.Index(j)
				if el.Kind() != reflect.Interface && el.Kind() != reflect.Ptr {
					break
				}
				if el.IsNil() {
					continue
				}
				c, ok := el.Interface().(ast.Node)
				if !ok {
					break
				}
				switch c.(type) {
				case *ast.CommentGroup, *ast.Comment:
					continue
				}
				nn := r.node(c)
				el.Set(reflect.ValueOf(nn))
			}
		}
	}
}

func (r *rewriter) goStmt(g *ast.GoStmt) ast.Stmt {
	r.stats["go"]++
	site := r.site(g)
	call := g.Call
	// evaluate function value and arguments now, run the call in the new thread
	for i := range call.Args {
		call.Args[i] = r.node(call.Args[i]).(ast.Expr)
	}
	fun := r.node(call.Fun).(ast.Expr)
	if fl, ok := fun.(*ast.FuncLit); ok && len(call.Args) == 0 {
		return &ast.ExprStmt{X: r.call("Go", site, fl)}
	}
	var lhs, rhs []ast.Expr
	fv := r.fresh("f")
	lhs = append(lhs, fv)
	rhs = append(rhs, fun)
	var args []ast.Expr
	for _, a := range call.Args {
		av := r.fresh("a")
		lhs = append(lhs, av)
		rhs = append(rhs, a)
		args = append(args, av)
	}
	inner := &ast.CallExpr{Fun: fv, Args: args, Ellipsis: call.Ellipsis}
	if call.Ellipsis != token.NoPos {
		inner.Ellipsis = 1
	}
	body := &ast.BlockStmt{List: []ast.Stmt{&ast.ExprStmt{X: inner}}}
	return &ast.BlockStmt{List: []ast.Stmt{
		&ast.AssignStmt{Lhs: lhs, Tok: token.DEFINE, Rhs: rhs},
		&ast.ExprStmt{X: r.call("Go", site, &ast.FuncLit{Type: &ast.FuncType{Params: &ast.FieldList{}}, Body: body})},
	}}
}

func (r *rewriter) selectStmt(s *ast.SelectStmt) ast.Stmt {
	r.stats["select"]++
	var pre []ast.Stmt
	var caseArgs []ast.Expr
	var clauses []ast.Stmt
	hasDefault := false
	idx := 0
	for _, cl := range s.Body.List {
		cc := cl.(*ast.CommClause)
		var body []ast.Stmt
		var label ast.Expr
		switch comm := cc.Comm.(type) {
		case nil:
			hasDefault = true
			label = &ast.UnaryExpr{Op: token.SUB, X: &ast.BasicLit{Kind: token.INT, Value: "1"}}
		case *ast.SendStmt:
			chv, vv := r.fresh("c"), r.fresh("x")
			pre = append(pre, &ast.AssignStmt{Lhs: []ast.Expr{chv, vv}, Tok: token.DEFINE,
				Rhs: []ast.Expr{r.node(comm.Chan).(ast.Expr), r.node(comm.Value).(ast.Expr)}})
			cv := r.fresh("k")
			pre = append(pre, &ast.AssignStmt{Lhs: []ast.Expr{cv}, Tok: token.DEFINE, Rhs: []ast.Expr{r.call("SendCase", chv, vv)}})
			caseArgs = append(caseArgs, cv)
			label = &ast.BasicLit{Kind: token.INT, Value: strconv.Itoa(idx)}
			idx++
		case *ast.ExprStmt, *ast.AssignStmt:
			var u *ast.UnaryExpr
			var as *ast.AssignStmt
			if es, ok := comm.(*ast.ExprStmt); ok {
				u, _ = unparen(es.X).(*ast.UnaryExpr)
			} else {
				as = comm.(*ast.AssignStmt)
				if len(as.Rhs) == 1 {
					u, _ = unparen(as.Rhs[0]).(*ast.UnaryExpr)
				}
			}
			if u == nil || u.Op != token.ARROW {
				fatal("%s: unsupported select case", r.pos(cc))
			}
			chv := r.fresh("c")
			pre = append(pre, &ast.AssignStmt{Lhs: []ast.Expr{chv}, Tok: token.DEFINE, Rhs: []ast.Expr{r.node(u.X).(ast.Expr)}})
			cv := r.fresh("k")
			pre = append(pre, &ast.AssignStmt{Lhs: []ast.Expr{cv}, Tok: token.DEFINE, Rhs: []ast.Expr{r.call("RecvCase", chv)}})
			caseArgs = append(caseArgs, cv)
			if as != nil {
				lhs := []ast.Expr{r.node(as.Lhs[0]).(ast.Expr)}
				if len(as.Lhs) == 2 {
					lhs = append(lhs, r.node(as.Lhs[1]).(ast.Expr))
				} else {
					lhs = append(lhs, ast.NewIdent("_"))
				}
				body = append(body, &ast.AssignStmt{Lhs: lhs, Tok: as.Tok, Rhs: []ast.Expr{r.call("Received", chv)}})
			}
			label = &ast.BasicLit{Kind: token.INT, Value: strconv.Itoa(idx)}
			idx++
		default:
			fatal("%s: unsupported select case %T", r.pos(cc), comm)
		}
		for _, st := range cc.Body {
			body = append(body, r.node(st).(ast.Stmt))
		}
		clauses = append(clauses, &ast.CaseClause{List: []ast.Expr{label}, Body: body})
	}
	// keep the statement "terminating" where the select was: a switch needs a
	// default clause for that.  Select only returns an unlisted index during
	// tear-down.
	clauses = append(clauses, &ast.CaseClause{Body: []ast.Stmt{&ast.ExprStmt{X: &ast.CallExpr{Fun: ast.NewIdent("panic"), Args: []ast.Expr{r.call("Killed")}}}}})
	hd := "false"
	if hasDefault {
		hd = "true"
	}
	args := append([]ast.Expr{r.site(s), ast.NewIdent(hd)}, caseArgs...)
	sw := &ast.SwitchStmt{Tag: r.call("Select", args...), Body: &ast.BlockStmt{List: clauses}}
	return &ast.BlockStmt{List: append(pre, sw)}
}

func unparen(e ast.Expr) ast.Expr {
	for {
		p, ok := e.(*ast.ParenExpr)
		if !ok {
			return e
		}
		e = p.X
	}
}

func pureExpr(e ast.Expr) bool {
	switch x := e.(type) {
	case *ast.Ident:
		return true
	case *ast.SelectorExpr:
		return pureExpr(x.X)
	case *ast.ParenExpr:
		return pureExpr(x.X)
	case *ast.StarExpr:
		return pureExpr(x.X)
	}
	return false
}

func isBlank(e ast.Expr) bool {
	if e == nil {
		return true
	}
	id, ok := e.(*ast.Ident)
	return ok && id.Name == "_"
}

// rangeMap: iterate over the sorted key snapshot (deterministic), skipping
// entries deleted meanwhile, as Go's map iteration does.
func (r *rewriter) rangeMap(s *ast.RangeStmt) ast.Stmt {
	r.stats["rangemap"]++
	if !pureExpr(s.X) {
		fatal("%s: range over a map expression with possible side effects", r.pos(s))
	}
	m := s.X
	// hooked reads of the map held in a field (goat's own code only): ranging over it reads it,
	// at the start and at every element
	mread := func() ast.Expr {
		if !r.harness && r.isFieldSel(m) && r.chainOK(m) {
			return r.wrapAccess(m, false)
		}
		return m
	}
	kv := ast.Expr(r.fresh("mk"))
	var head []ast.Stmt
	if !isBlank(s.Key) {
		if s.Tok == token.DEFINE {
			kv = s.Key
		} else {
			head = append(head, &ast.AssignStmt{Lhs: []ast.Expr{s.Key}, Tok: token.ASSIGN, Rhs: []ast.Expr{kv}})
		}
	}
	okv := r.fresh("ok")
	valLhs := ast.Expr(ast.NewIdent("_"))
	tok := token.DEFINE
	if !isBlank(s.Value) {
		valLhs = s.Value
		if s.Tok == token.ASSIGN {
			// value assigned to an outer variable: use a temporary for ok
			tmpv := r.fresh("mv")
			head = append([]ast.Stmt{
				&ast.AssignStmt{Lhs: []ast.Expr{tmpv, okv}, Tok: token.DEFINE, Rhs: []ast.Expr{&ast.IndexExpr{X: mread(), Index: kv}}},
				&ast.IfStmt{Cond: &ast.UnaryExpr{Op: token.NOT, X: okv}, Body: &ast.BlockStmt{List: []ast.Stmt{&ast.BranchStmt{Tok: token.CONTINUE}}}},
				&ast.AssignStmt{Lhs: []ast.Expr{s.Value}, Tok: token.ASSIGN, Rhs: []ast.Expr{tmpv}},
			}, head...)
			valLhs = nil
		}
	}
	if valLhs != nil {
		head = append([]ast.Stmt{
			&ast.AssignStmt{Lhs: []ast.Expr{valLhs, okv}, Tok: tok, Rhs: []ast.Expr{&ast.IndexExpr{X: mread(), Index: kv}}},
			&ast.IfStmt{Cond: &ast.UnaryExpr{Op: token.NOT, X: okv}, Body: &ast.BlockStmt{List: []ast.Stmt{&ast.BranchStmt{Tok: token.CONTINUE}}}},
		}, head...)
	}
	body := r.node(s.Body).(*ast.BlockStmt)
	body.List = append(head, body.List...)
	fn := "MapKeys" // goat's own loops: the starting point of the iteration is an (exploration-cost 1) choice
	if r.harness {
		fn = "MapKeysSorted" // harness loops: fixed order
	}
	return &ast.RangeStmt{Key: ast.NewIdent("_"), Value: kv, Tok: token.DEFINE, X: r.call(fn, mread()), Body: body}
}

func (r *rewriter) rangeChan(s *ast.RangeStmt) ast.Stmt {
	r.stats["rangechan"]++
	okv := r.fresh("ok")
	lhs := ast.Expr(ast.NewIdent("_"))
	tok := token.DEFINE
	if !isBlank(s.Key) {
		lhs = s.Key
		if s.Tok == token.ASSIGN {
			fatal("%s: range over channel with = is not supported", r.pos(s))
		}
	}
	ch := r.node(s.X).(ast.Expr)
	body := r.node(s.Body).(*ast.BlockStmt)
	head := []ast.Stmt{
		&ast.AssignStmt{Lhs: []ast.Expr{lhs, okv}, Tok: tok, Rhs: []ast.Expr{r.call("Recv2", r.site(s), ch)}},
		&ast.IfStmt{Cond: &ast.UnaryExpr{Op: token.NOT, X: okv}, Body: &ast.BlockStmt{List: []ast.Stmt{&ast.BranchStmt{Tok: token.BREAK}}}},
	}
	body.List = append(head, body.List...)
	return &ast.ForStmt{Body: body}
}

// ---------------------------------------------------------------- field/map access instrumentation (C15)

func (r *rewriter) isFieldSel(e ast.Expr) bool {
	sel, ok := e.(*ast.SelectorExpr)
	if !ok {
		return false
	}
	s, ok := r.info.Selections[sel]
	return ok && s.Kind() == types.FieldVal
}

// chainOK: e is made of variable identifiers and field selections only, so
// &e is legal and evaluating it has no side effects.
func (r *rewriter) chainOK(e ast.Expr) bool {
	switch x := e.(type) {
	case *ast.Ident:
		_, isVar := r.info.Uses[x].(*types.Var)
		return isVar
	case *ast.ParenExpr:
		return r.chainOK(x.X)
	case *ast.SelectorExpr:
		return r.isFieldSel(x) && r.chainOK(x.X)
	}
	return false
}

func (r *rewriter) wrapAccess(e ast.Expr, write bool) ast.Expr {
	name := "R"
	if write {
		name = "W"
	}
	r.stats["access"]++
	return &ast.StarExpr{X: r.call(name, &ast.UnaryExpr{Op: token.AND, X: e}, r.site(e))}
}

// lvalue instruments an assignment target.
func (r *rewriter) lvalue(e ast.Expr) ast.Expr {
	switch x := e.(type) {
	case *ast.Ident:
		if r.captured[r.info.Uses[x]] && !r.noWrap[x] {
			return r.wrapAccess(x, true)
		}
		return x
	case *ast.SelectorExpr:
		if r.isFieldSel(x) && r.chainOK(x) {
			return r.wrapAccess(x, true)
		}
	case *ast.IndexExpr:
		// x.m[k] = v / x.s[i] = v: a write to the container held in the field
		if r.isFieldSel(x.X) && r.chainOK(x.X) {
			x.X = r.wrapAccess(x.X, true)
			x.Index = r.node(x.Index).(ast.Expr)
			return x
		}
	case *ast.ParenExpr:
		x.X = r.lvalue(x.X)
		return x
	}
	return r.node(e).(ast.Expr)
}

// raceNode handles the node kinds that need pre-order treatment.
func (r *rewriter) raceNode(n ast.Node) (ast.Node, bool) {
	switch x := n.(type) {
	case *ast.Ident:
		if r.captured[r.info.Uses[x]] && !r.noWrap[x] {
			return r.wrapAccess(x, false), true
		}
		return nil, false
	case *ast.RangeStmt:
		if x.Tok == token.DEFINE {
			for _, e := range []ast.Expr{x.Key, x.Value} {
				if id, ok := e.(*ast.Ident); ok {
					r.noWrap[id] = true
				}
			}
		}
		return nil, false
	case *ast.AssignStmt:
		if x.Tok == token.DEFINE {
			for _, e := range x.Lhs {
				if id, ok := e.(*ast.Ident); ok {
					r.noWrap[id] = true
				}
			}
			return nil, false
		}
		if len(x.Lhs) == 2 && len(x.Rhs) == 1 {
			if u, ok := x.Rhs[0].(*ast.UnaryExpr); ok && u.Op == token.ARROW {
				return nil, false // v, ok = <-ch: handled by the channel rule
			}
		}
		for i := range x.Lhs {
			x.Lhs[i] = r.lvalue(x.Lhs[i])
		}
		for i := range x.Rhs {
			x.Rhs[i] = r.node(x.Rhs[i]).(ast.Expr)
		}
		return x, true
	case *ast.IncDecStmt:
		x.X = r.lvalue(x.X)
		return x, true
	case *ast.UnaryExpr:
		if x.Op == token.AND && r.isFieldSel(x.X) && r.chainOK(x.X) {
			return x, true // &x.f: taking the address is not an access
		}
		if id, ok := x.X.(*ast.Ident); ok && x.Op == token.AND && r.captured[r.info.Uses[id]] {
			return x, true
		}
	case *ast.CallExpr:
		if id, ok := x.Fun.(*ast.Ident); ok && id.Name == "delete" && len(x.Args) == 2 && r.isFieldSel(x.Args[0]) && r.chainOK(x.Args[0]) {
			x.Args[0] = r.wrapAccess(x.Args[0], true)
			x.Args[1] = r.node(x.Args[1]).(ast.Expr)
			return x, true
		}
	case *ast.SelectorExpr:
		if r.isFieldSel(x) && r.chainOK(x) {
			return r.wrapAccess(x, false), true
		}
	}
	return nil, false
}

// capturedVars finds the local variables (parameters and results included)
// that are referenced from inside a function literal nested in the function
// that declares them: the only locals two goroutines can share.
func capturedVars(f *ast.File, info *types.Info) map[types.Object]bool {
	out := map[types.Object]bool{}
	var lits []*ast.FuncLit
	ast.Inspect(f, func(n ast.Node) bool {
		if fl, ok := n.(*ast.FuncLit); ok {
			lits = append(lits, fl)
		}
		return true
	})
	for _, fl := range lits {
		ast.Inspect(fl.Body, func(n ast.Node) bool {
			id, ok := n.(*ast.Ident)
			if !ok {
				return true
			}
			v, ok := info.Uses[id].(*types.Var)
			if !ok || v.IsField() || v.Pkg() == nil {
				return true
			}
			if v.Parent() == v.Pkg().Scope() {
				return true // package level
			}
			if v.Pos() < fl.Pos() || v.Pos() > fl.End() {
				out[v] = true
			}
			return true
		})
	}
	return out
}
