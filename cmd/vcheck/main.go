// vcheck drives one property check: instrument the current goat tree, build
// the explorer binary through an overlay, run worker processes, merge their
// reports into /verif/evidence/<id>.json and print VIOLATION / KNOWN-FINDING
// lines.  Exit codes: 0 held, 1 violation, 2 engine error.
package main

import (
	"crypto/sha256"
	"encoding/hex"
	"encoding/json"
	"flag"
	"fmt"
	"os"
	"os/exec"
	"path/filepath"
	"sort"
	"strconv"
	"strings"
	"time"
)

type threadInfo struct {
	ID, Name, Op, Sub, Site, SpawnSite string
}

type found struct {
	Scenario string       `json:"scenario"`
	Family   string       `json:"family"`
	Key      string       `json:"key"`
	Msg      string       `json:"msg"`
	Choices  []int        `json:"choices"`
	Bound    int          `json:"bound"`
	Trace    []string     `json:"trace,omitempty"`
	Obs      []string     `json:"obs,omitempty"`
	Parked   []threadInfo `json:"parked,omitempty"`
	Panic    string       `json:"panic,omitempty"`
	Stack    string       `json:"stack,omitempty"`
	End      string       `json:"end"`
}

type report struct {
	Scenario    string           `json:"scenario"`
	Family      string           `json:"family"`
	Bound       int              `json:"bound"`
	BoundDone   int              `json:"bound_done"`
	Executions  int              `json:"executions"`
	Nodes       int              `json:"nodes"`
	Steps       int              `json:"steps"`
	MaxPoints   int              `json:"max_points"`
	Outcomes    int              `json:"outcomes"`
	Exhaustive  bool             `json:"exhaustive"`
	Cap         string           `json:"cap,omitempty"`
	Deepened    string           `json:"deepened,omitempty"`
	Found       []found          `json:"found,omitempty"`
	EngineError string           `json:"engine_error,omitempty"`
	WallS       float64          `json:"wall_s"`
	SampleObs   []string         `json:"sample_obs,omitempty"`
	SampleTrace []string         `json:"sample_trace,omitempty"`
	OutcomeList []string         `json:"outcome_list,omitempty"`
	Extra       map[string]int64 `json:"extra,omitempty"`
}

type knownFinding struct {
	Property string `json:"property"`
	Key      string `json:"key"`
	Status   string `json:"status"` // "finding" or "fixed"
	Commit   string `json:"commit,omitempty"`
	What     string `json:"what"`
}

var verifDir = "/verif"

func main() {
	prop := flag.String("prop", "", "property id (C01…)")
	tier := flag.String("tier", "quick", "quick|thorough")
	repo := flag.String("repo", "/repo", "goat working tree")
	replay := flag.String("replay", "", "replay file to re-execute")
	workers := flag.Int("workers", 16, "worker processes")
	budget := flag.Duration("budget", 0, "wall-clock budget for exploration (0: tier default)")
	only := flag.String("only", "", "only scenarios whose name contains this")
	keep := flag.Bool("keep", false, "keep the scratch directory")
	verbose := flag.Bool("v", false, "print per-scenario lines")
	noEvidence := flag.Bool("no-evidence", false, "do not write the evidence file (development runs against other trees)")
	flag.Parse()
	if d := os.Getenv("VERIF_DIR"); d != "" {
		verifDir = d
	}
	if t := os.Getenv("VERIF_TIER"); t != "" && !flagSet("tier") {
		*tier = t
	}
	seed := 0
	if s := os.Getenv("VERIF_SEED"); s != "" {
		seed, _ = strconv.Atoi(s)
	}
	if *prop == "" && *replay == "" {
		die(2, "need -prop or -replay")
	}
	start := time.Now()
	os.Setenv("GOFLAGS", "-mod=mod")
	os.Setenv("GOPROXY", "off")
	os.Setenv("GOSUMDB", "off")
	os.Setenv("GOTOOLCHAIN", "local")
	os.Setenv("GODEBUG", "asynctimerchan=0")

	scratch, err := os.MkdirTemp("", "verif-"+*prop+"-")
	if err != nil {
		die(2, "%v", err)
	}
	if !*keep {
		defer os.RemoveAll(scratch)
	}
	exit := func(code int) {
		if !*keep {
			os.RemoveAll(scratch)
		}
		os.Exit(code)
	}

	// 1. instrument + build
	instr := filepath.Join(verifDir, "bin", "instr")
	if out, err := exec.Command(instr, "-repo", *repo, "-overlay", filepath.Join(verifDir, "overlay"), "-out", scratch).CombinedOutput(); err != nil {
		fmt.Printf("ENGINE-ERROR: instrumentation failed: %v\n%s\n", err, out)
		exit(2)
	}
	bin := filepath.Join(scratch, "props.test")
	build := exec.Command("go1.26.8", "test", "-c", "-vet=off", "-overlay", filepath.Join(scratch, "overlay.json"), "-o", bin, "github.com/avos-io/goat/vh/props")
	build.Dir = *repo
	if out, err := build.CombinedOutput(); err != nil {
		fmt.Printf("ENGINE-ERROR: build of the instrumented tree failed: %v\n%s\n", err, out)
		exit(2)
	}

	if *replay != "" {
		cmd := exec.Command(bin, "-test.run", "^TestReplay$", "-test.timeout", "0")
		cmd.Env = append(os.Environ(), "VREPLAY="+*replay, "GOMAXPROCS=1")
		out, _ := cmd.CombinedOutput()
		fmt.Print(string(out))
		if strings.Contains(string(out), "REPRODUCED property=") && !strings.Contains(string(out), "NOT-REPRODUCED") {
			exit(1)
		}
		exit(0)
	}

	// 2. run workers
	if *budget == 0 {
		if *tier == "thorough" {
			*budget = 25 * time.Minute
			switch *prop {
			case "C06", "C13", "C15", "C16":
				*budget = 45 * time.Minute // many donors / long sequence alphabets
			}
		} else {
			*budget = 4 * time.Minute
		}
	}
	outDir := filepath.Join(scratch, "out")
	os.MkdirAll(outDir, 0o755)
	deadline := time.Now().Add(*budget)
	type wres struct {
		out []byte
		err error
	}
	ch := make(chan wres, *workers)
	var knownKeys []string
	for _, k := range loadKnown() {
		if k.Property == *prop && k.Status == "finding" {
			knownKeys = append(knownKeys, k.Key)
		}
	}
	// 2a. engine litmus suite, in the same instrumented build: concurrency programs with known
	// outcome sets and race verdicts; any disagreement with Go's semantics is an engine error
	selfNote := ""
	if *prop != "SELF" {
		selfDir := filepath.Join(scratch, "self")
		os.MkdirAll(selfDir, 0o755)
		cmd := exec.Command(bin, "-test.run", "^TestWorker$", "-test.timeout", "0")
		cmd.Env = append(os.Environ(), "VPROP=SELF", "VTIER=quick", "VOUT="+selfDir, "GOMAXPROCS=1")
		out, err := cmd.CombinedOutput()
		if err != nil {
			fmt.Printf("ENGINE-ERROR: litmus suite did not run: %v\n%s\n", err, tail(string(out), 30))
			exit(2)
		}
		files, _ := filepath.Glob(filepath.Join(selfDir, "rep.*.json"))
		n, ex := 0, 0
		for _, f := range files {
			data, _ := os.ReadFile(f)
			var r report
			if json.Unmarshal(data, &r) != nil {
				continue
			}
			if r.EngineError != "" || !r.Exhaustive {
				fmt.Printf("ENGINE-ERROR: litmus %s: %s (exhaustive=%v)\n", r.Scenario, r.EngineError, r.Exhaustive)
				exit(2)
			}
			n++
			ex += r.Executions
		}
		if n == 0 {
			fmt.Println("ENGINE-ERROR: litmus suite produced no reports")
			exit(2)
		}
		selfNote = fmt.Sprintf("engine litmus suite re-run in this build: %d concurrency programs (%d executions) produced exactly the outcome sets and race verdicts Go's semantics give", n, ex)
	}
	for w := 0; w < *workers; w++ {
		go func() {
			cmd := exec.Command(bin, "-test.run", "^TestWorker$", "-test.timeout", "0")
			cmd.Env = append(os.Environ(), "VPROP="+*prop, "VTIER="+*tier, "VOUT="+outDir, "VONLY="+*only,
				fmt.Sprintf("VDEADLINE=%d", deadline.Unix()), "GOMAXPROCS=1", fmt.Sprintf("VERIF_SEED=%d", seed), "VKNOWN="+strings.Join(knownKeys, ";;"))
			if *verbose {
				cmd.Env = append(cmd.Env, "VVERBOSE=1")
			}
			out, err := cmd.CombinedOutput()
			ch <- wres{out, err}
		}()
	}
	engineErr := ""
	for w := 0; w < *workers; w++ {
		r := <-ch
		if *verbose {
			for _, l := range strings.Split(string(r.out), "\n") {
				if strings.HasPrefix(l, *prop) {
					fmt.Println(l)
				}
			}
		}
		if r.err != nil {
			engineErr = fmt.Sprintf("worker failed: %v\n%s", r.err, tail(string(r.out), 60))
		}
	}

	// 3. merge
	var reps []report
	files, _ := filepath.Glob(filepath.Join(outDir, "rep.*.json"))
	for _, f := range files {
		data, err := os.ReadFile(f)
		if err != nil {
			continue
		}
		var r report
		if json.Unmarshal(data, &r) == nil {
			reps = append(reps, r)
		}
	}
	sort.Slice(reps, func(i, j int) bool { return reps[i].Scenario < reps[j].Scenario })
	claims, _ := filepath.Glob(filepath.Join(outDir, "claim.*"))
	if len(claims) != len(reps) && engineErr == "" {
		engineErr = fmt.Sprintf("%d scenarios claimed but %d reports written", len(claims), len(reps))
	}
	for _, r := range reps {
		if r.EngineError != "" && engineErr == "" {
			engineErr = r.Scenario + ": " + r.EngineError
		}
	}
	if engineErr != "" {
		fmt.Printf("ENGINE-ERROR: %s\n", engineErr)
		exit(2)
	}
	if len(reps) == 0 {
		fmt.Println("ENGINE-ERROR: no scenario reports")
		exit(2)
	}

	known := loadKnown()
	violations := 0
	knownSeen := map[string]bool{}
	var vioLines []string
	for _, r := range reps {
		for _, f := range r.Found {
			if kf := matchKnown(known, *prop, f.Key); kf != nil {
				if !knownSeen[kf.Key] {
					knownSeen[kf.Key] = true
					fmt.Printf("KNOWN-FINDING: property=%s %s [%s]\n", *prop, kf.What, kf.Key)
				}
				continue
			}
			violations++
			id := hash(f.Scenario + "|" + f.Key)
			path := filepath.Join(verifDir, "replays", fmt.Sprintf("%s-%s.json", *prop, id))
			os.MkdirAll(filepath.Dir(path), 0o755)
			data, _ := json.MarshalIndent(map[string]any{"property": *prop, "tier": *tier, "found": f}, "", " ")
			os.WriteFile(path, data, 0o644)
			vioLines = append(vioLines, fmt.Sprintf("VIOLATION property=%s replay=%s", *prop, path))
			fmt.Printf("  violated: %s\n    scenario %s (deviations<=%d)\n    %s\n", f.Key, f.Scenario, f.Bound, f.Msg)
		}
	}

	// 4. evidence
	var execs, nodes, steps, outcomes int
	var inputs int64
	exhaustive := true
	var table []map[string]any
	var caps []string
	var samples []any
	for _, r := range reps {
		execs += r.Executions
		nodes += r.Nodes
		steps += r.Steps
		outcomes += r.Outcomes
		if !r.Exhaustive {
			exhaustive = false
			if r.Cap != "" {
				caps = append(caps, r.Scenario+": "+r.Cap)
			}
		}
		row := map[string]any{"scenario": r.Scenario, "bound": r.Bound, "bound_done": r.BoundDone, "executions": r.Executions,
			"nodes": r.Nodes, "steps": r.Steps, "max_points": r.MaxPoints, "outcomes": r.Outcomes, "exhaustive": r.Exhaustive, "wall_s": round(r.WallS)}
		if r.Cap != "" {
			row["cap"] = r.Cap
		}
		if r.Deepened != "" {
			row["deepened"] = r.Deepened
		}
		for k, v := range r.Extra {
			row[k] = v
			if k == "inputs" {
				inputs += v
			}
		}
		table = append(table, row)
		if len(r.SampleTrace) > 0 && len(samples) < 2 {
			st := r.SampleTrace
			if len(st) > 120 {
				st = st[:120]
			}
			samples = append(samples, map[string]any{"scenario": r.Scenario, "default_schedule": st, "observations": r.SampleObs})
		}
		if len(r.OutcomeList) > 1 && len(samples) < 6 {
			samples = append(samples, map[string]any{"scenario": r.Scenario, "distinct_observation_logs": r.OutcomeList})
		}
	}
	if len(samples) == 0 {
		samples = append(samples, map[string]any{"scenario": reps[0].Scenario, "observations": reps[0].SampleObs})
	}
	ev := map[string]any{
		"property_id": *prop,
		"tier":        *tier,
		"seed":        seed,
		"level":       "model_checking",
		"coverage": map[string]any{
			"states":                        max(nodes, 1),
			"transitions":                   max(steps, 1),
			"traces_validated_against_impl": execs,
			"evaluations":                   execs + int(inputs),
			"inputs_enumerated":             inputs,
			"distinct_nontrivial":           outcomes,
			"rule": "every execution is a run of the real (AST-instrumented) goat code under the vsched cooperative scheduler inside a synctest bubble; " +
				"states = distinct nodes of the schedule tree visited at the largest completed bound, transitions = scheduling steps executed (including replayed prefixes), " +
				"distinct_nontrivial = distinct observation logs summed over scenarios; scenarios enumerate parameters (fault position, counts, shapes) exhaustively and schedules up to the stated deviation bound",
			"samples":        samples,
			"exhaustive":     exhaustive,
			"caps_hit":       caps,
			"scenarios":      len(reps),
			"scenario_table": table,
		},
		"assumptions": []string{
			"threads communicate only through operations the instrumenter rewrites (channels, sync, sync/atomic, context, errgroup): unsynchronised accesses are invisible here (C15 looks at them)",
			"scheduling points at synchronisation operations only; releases (Unlock, WaitGroup.Done) are not points (sound: DESIGN.md §3.6)",
			"the environment (transport, handlers, client programs) is the harness's; claims are about the enumerated drivers, bounds and alphabets only",
			"the scheduler models Go's channel/mutex/atomic/context/timer/map-iteration semantics faithfully: " + selfNote,
		},
		"wall_s":     round(time.Since(start).Seconds()),
		"violations": violations,
	}
	if !*noEvidence {
		data, _ := json.MarshalIndent(ev, "", " ")
		os.MkdirAll(filepath.Join(verifDir, "evidence"), 0o755)
		os.WriteFile(filepath.Join(verifDir, "evidence", *prop+".json"), data, 0o644)
	}
	fmt.Printf("%s %s: scenarios=%d executions=%d tree-nodes=%d steps=%d outcomes=%d exhaustive=%v violations=%d known=%d wall=%.1fs\n",
		*prop, *tier, len(reps), execs, nodes, steps, outcomes, exhaustive, violations, len(knownSeen), time.Since(start).Seconds())
	for _, c := range caps {
		fmt.Println("  cap:", c)
	}
	for _, l := range vioLines {
		fmt.Println(l)
	}
	if violations > 0 {
		exit(1)
	}
	exit(0)
}

func flagSet(name string) bool {
	set := false
	flag.Visit(func(f *flag.Flag) {
		if f.Name == name {
			set = true
		}
	})
	return set
}

func round(f float64) float64 { return float64(int(f*10)) / 10 }

func tail(s string, n int) string {
	lines := strings.Split(s, "\n")
	if len(lines) > n {
		lines = lines[len(lines)-n:]
	}
	return strings.Join(lines, "\n")
}

func hash(s string) string {
	h := sha256.Sum256([]byte(s))
	return hex.EncodeToString(h[:5])
}

func die(code int, f string, a ...any) {
	fmt.Fprintf(os.Stderr, "vcheck: "+f+"\n", a...)
	os.Exit(code)
}

func loadKnown() []knownFinding {
	data, err := os.ReadFile(filepath.Join(verifDir, "known_findings.json"))
	if err != nil {
		return nil
	}
	var k []knownFinding
	if err := json.Unmarshal(data, &k); err != nil {
		fmt.Printf("ENGINE-ERROR: known_findings.json does not parse: %v\n", err)
		os.Exit(2)
	}
	return k
}

// matchKnown: only "finding" entries suppress; "fixed" entries never do.
func matchKnown(known []knownFinding, prop, key string) *knownFinding {
	for i := range known {
		k := &known[i]
		if k.Property == prop && k.Status == "finding" && k.Key == key {
			return k
		}
	}
	return nil
}
